"""C06: drive the real immutable uploader on SimGrid grids under seeded server mixes, pre-existing
shares, fault injection and delivery orders; record the server-visible events (allocate_buckets /
get_buckets answers, bucket writes that were not executed, close, abort), the final claim of the
upload (UploadResults.get_sharemap() and the pre-existing shares it counted, or the exception class),
and - after quiescence - what is on the servers' disks and what a reader can list.

Output: traces for spec/immutable/TraceUpload.tla.  Nothing is judged here.
"""
from vreactor import vr, settle   # must be first

import argparse, json, os, random, shutil, sys, tempfile, traceback

from twisted.internet import defer
from twisted.python.failure import Failure

from grid import Grid, Hang
from allmydata.immutable import upload
from allmydata.interfaces import UploadUnhappinessError, NoServersError
from allmydata.storage.immutable import ShareFile
from allmydata.storage.common import storage_index_to_dir
from allmydata.util import fileutil

FIXED_KEY = b"\x42" * 16
SEGSIZE = 24


class FixedKeyData(upload.Data):
    """Same encryption key (hence same storage index) whatever the encoding parameters."""
    def __init__(self, data, k, n, happy):
        upload.Data.__init__(self, data, convergence=None)
        self.encoding_param_k, self.encoding_param_n, self.encoding_param_happy = k, n, happy
        self.max_segment_size = SEGSIZE

    def get_encryption_key(self):
        return defer.succeed(FIXED_KEY)


class Space:
    """Replacement of fileutil.get_available_space: per share directory free space set by the scenario."""
    def __init__(self):
        self.free = {}
        self.orig = fileutil.get_available_space

    def __call__(self, whichdir, reserved):
        for d, v in self.free.items():
            if os.path.abspath(whichdir).startswith(d):
                return max(0, v - reserved)
        return 10 ** 9


SPACE = Space()
fileutil.get_available_space = SPACE


def share_data(path):
    sf = ShareFile(path)
    return sf.read_share_data(0, 10 ** 7)


def reference_shares(workdir, data, k, n, cache={}):
    """Share contents of a fault-free upload of the same file with the same parameters (clean grid)."""
    key = (data, k, n)
    if key not in cache:
        d = tempfile.mkdtemp(prefix="ref", dir=workdir)
        g = Grid(d, num_servers=n, k=k, n=n, happy=1, max_segment_size=SEGSIZE, seed=0)
        res = g.run(g.uploader.upload(FixedKeyData(data, k, n, 1)))
        g.drain(allow_timers=False)
        from allmydata import uri
        si = uri.from_string(res.get_uri()).get_storage_index()
        out = {}
        for srv, shs in g.shares(si).items():
            for sh, p in shs.items():
                out[sh] = share_data(p)
        assert sorted(out) == list(range(n)), out.keys()
        cache[key] = (si, out)
        g.close()
        shutil.rmtree(d, ignore_errors=True)
    return cache[key]


MODES = ["writable", "writable", "writable", "readonly", "full_known", "full_hidden", "small", "failing", "flaky", "slow"]


def make_scenario(rng, tier):
    maxsrv = 8 if tier == "quick" else 12
    ns = rng.choice([1, 2, 2, 3, 3, 4, 4, 5, 5, 6, 7, 8] if tier == "quick" else list(range(1, maxsrv + 1)))
    k = rng.choice([1, 1, 2, 2, 3])
    n = rng.randint(k, min(6, k + 3))
    happy = rng.randint(1, n)
    profile = rng.choice(["clean", "mixed", "mixed", "faulty", "faulty", "pre", "pre"])
    modes = []
    for i in range(ns):
        if profile == "clean":
            modes.append("writable")
        elif profile == "pre":
            modes.append(rng.choice(["writable", "writable", "readonly", "full_known", "full_hidden"]))
        else:
            modes.append(rng.choice(MODES))
    sc = {"ns": ns, "k": k, "n": n, "happy": happy, "modes": modes, "profile": profile,
          "size": rng.choice([56, 60, 75, 100, 130]), "order": rng.choice(["fifo", "random", "random"]),
          "pre": None, "oneshot": [], "remove": []}
    if profile in ("pre", "mixed") and rng.random() < (0.9 if profile == "pre" else 0.4):
        # an earlier upload of the same file (same storage index) on a subset of the servers,
        # possibly with another total number of shares
        sub = sorted(rng.sample(range(ns), rng.randint(1, ns)))
        n0 = rng.choice([n, n, n, max(k, n - 1), min(n + 1, 7)])
        sc["pre"] = {"servers": sub, "n": n0, "delete": rng.random() < 0.3}
    if profile in ("faulty", "mixed"):
        for _ in range(rng.choice([0, 1, 1, 2, 3])):
            sc["oneshot"].append({"meth": rng.choice(["allocate_buckets", "get_buckets", "write", "write", "close", "close", "abort"]),
                                  "nth": rng.randint(1, 12), "fault": rng.choice(["raise", "raise", "disconnect"])})
    if rng.random() < 0.03:
        sc["remove"] = list(range(ns))        # no server at all
    if rng.random() < 0.15:
        # re-planning: all servers writable, the threshold needs every planned server, one spare server, and one
        # allocate_buckets request of the first pass fails - the selector plans again and may put a share number on
        # a second server (the case in which the unchanged uploader dies with an internal AssertionError)
        n2 = rng.choice([3, 4, 4, 5])
        k2 = rng.randint(1, n2 - 1)
        sc.update(ns=n2 + rng.choice([1, 1, 2]), k=k2, n=n2, happy=n2, profile="replan", pre=None, remove=[],
                  oneshot=[{"meth": "allocate_buckets", "nth": rng.randint(1, n2), "fault": rng.choice(["raise", "raise", "disconnect"])}])
        sc["modes"] = ["writable"] * sc["ns"]
    elif rng.random() < 0.2:
        # re-upload onto a grown grid: an earlier upload (happiness 1) left every share on one server; the threshold
        # now needs the new servers, and one or two of them fail while shares are pushed - some share numbers are
        # then listed on the old server AND on a failing new one
        n2 = rng.choice([3, 3, 4])
        k2 = rng.randint(1, n2 - 1)
        ns2 = rng.choice([3, 3, 4])
        sc.update(ns=ns2, k=k2, n=n2, happy=rng.choice([ns2, ns2, ns2 - 1]), profile="reupload", remove=[],
                  pre={"servers": [0], "n": n2, "delete": rng.random() < 0.5}, modes=["writable"] * ns2, oneshot=[])
        # (when some of the old shares were deleted, the old server gets new buckets too and may lose one of them while it
        #  stays in the share map through a share it still holds)
        for _ in range(rng.choice([1, 1, 2, 2, 3])):
            sc["oneshot"].append({"meth": rng.choice(["write", "write", "close"]), "nth": rng.randint(1, 3),
                                  "fault": rng.choice(["raise", "disconnect"]),
                                  "srv": rng.randrange(0 if sc["pre"]["delete"] else 1, ns2)})
    elif rng.random() < 0.12:
        # capacity boundary, fault free: fewer servers than shares, one server advertises room for exactly one share
        # (or one and a half), the threshold needs every server: a happy layout exists (one share there, the rest elsewhere)
        ns2 = rng.choice([2, 3, 3])
        n2 = rng.choice([ns2 + 1, ns2 + 1, ns2 + 2, 2 * ns2])
        k2 = rng.randint(1, min(3, n2 - 1))
        sc.update(ns=ns2, k=k2, n=n2, happy=ns2, profile="capacity", remove=[], pre=None, oneshot=[],
                  modes=["small_known"] + ["writable"] * (ns2 - 1), order="fifo")
        rng.shuffle(sc["modes"])
    return sc


def run_scenario(sc, rng, workdir, idx):
    ns, k, n, happy = sc["ns"], sc["k"], sc["n"], sc["happy"]
    data = bytes((i * 7 + 3) % 251 for i in range(sc["size"]))
    gdir = tempfile.mkdtemp(prefix="g%d_" % idx, dir=workdir)
    SPACE.free = {}
    g = Grid(gdir, num_servers=ns, k=k, n=n, happy=happy, max_segment_size=SEGSIZE, seed=rng.randrange(1 << 30))
    names = sorted(g.servers)
    byid = {s.get_serverid(): nm for nm, s in g.servers.items()}
    si_ref, ref_main = reference_shares(workdir, data, k, n)
    refs = [ref_main]
    notes = []

    # ---- phase 0: earlier upload on a subset of the servers (all servers still healthy) -------------
    if sc["pre"]:
        pre = sc["pre"]
        for i in range(ns):
            if i not in pre["servers"]:
                g.remove_server("s%d" % i)
        _, ref_pre = reference_shares(workdir, data, k, pre["n"])
        refs.append(ref_pre)
        g.policy = "fifo"
        try:
            g.run(g.uploader.upload(FixedKeyData(data, k, pre["n"], 1)))
        except Exception as e:
            notes.append("pre-upload failed: %s" % type(e).__name__)
        g.drain(allow_timers=False)
        g.removed.clear()
        if pre["delete"]:
            for srv, shs in g.shares(si_ref).items():
                for sh, p in shs.items():
                    if rng.random() < 0.4:
                        os.unlink(p)
    for i in sc["remove"]:
        g.remove_server("s%d" % i)

    # ---- server modes for the upload under test ----------------------------------------------------------
    share_alloc = None
    for i, mode in enumerate(sc["modes"]):
        srv = g.servers["s%d" % i]
        sd = os.path.abspath(srv.ss.sharedir)
        base = os.path.dirname(sd)
        if mode == "readonly":
            srv.ss.readonly_storage = True
            srv.rref.version = srv.fss.remote_get_version()
        elif mode == "full_known":
            SPACE.free[base] = 0
            srv.rref.version = srv.fss.remote_get_version()
        elif mode == "full_hidden":
            SPACE.free[base] = 0           # the advertised version still says there is room
        elif mode == "small":
            SPACE.free[base] = rng.choice([150, 300, 450, 700])
        elif mode == "small_known":
            # room for one share of this upload (what allocate_buckets asks for), not for two; honestly advertised
            one = len(next(iter(ref_main.values()))) + 100
            SPACE.free[base] = one + rng.choice([0, one // 3, one - 101])
            srv.rref.version = srv.fss.remote_get_version()

    pre_disk = {nm: sorted(g.shares(si_ref).get(nm, {})) for nm in names}

    # ---- observation of delivered calls -------------------------------------------------------------------
    events = []
    bucket_of = {}       # id(FoolscapBucketWriter) -> (server, shnum)
    keep = []
    orig_log = g._log

    def log(entry, p):
        orig_log(entry, p)
        meth, srv, fault = entry["meth"], entry["server"], entry["fault"]
        executed = fault == "" and entry.get("outcome") == "ok"
        if p.ref.kind == "server":
            if meth == "get_buckets":
                events.append({"ev": "GetBuckets", "srv": srv, "fault": fault, "ok": executed,
                               "res": sorted(entry["result"].keys()) if executed else []})
            elif meth == "allocate_buckets":
                asked = sorted(p.args[3])
                if executed:
                    already, writers = entry["result"]
                    for sh, bw in writers.items():
                        bucket_of[id(bw)] = (srv, sh)
                        keep.append(bw)
                    events.append({"ev": "Allocate", "srv": srv, "asked": asked, "fault": fault, "ok": True,
                                   "already": sorted(already), "allocated": sorted(writers.keys())})
                else:
                    events.append({"ev": "Allocate", "srv": srv, "asked": asked, "fault": fault or entry.get("outcome", "?"), "ok": False,
                                   "already": [], "allocated": []})
        elif p.ref.kind == "object":
            b = bucket_of.get(id(p.ref.original))
            if b is None:
                return
            if meth == "write":
                if not executed:
                    events.append({"ev": "WriteLost", "srv": b[0], "sh": b[1], "fault": fault or entry.get("outcome", "?")})
            elif meth == "close":
                events.append({"ev": "Close", "srv": b[0], "sh": b[1], "ok": executed, "fault": fault or ("" if executed else entry.get("outcome", "?"))})
            elif meth == "abort":
                events.append({"ev": "Abort", "srv": b[0], "sh": b[1], "ok": executed, "fault": fault or ("" if executed else entry.get("outcome", "?"))})

    g._log = log
    g.log_calls = False

    # ---- delivery policy: order + faults -----------------------------------------------------------------
    counts = {}
    oneshot = [dict(o) for o in sc["oneshot"]]
    prng = random.Random(rng.randrange(1 << 30))

    def policy(grid):
        if not grid.pending:
            return ("timer",)
        i = 0 if sc["order"] == "fifo" else prng.randrange(len(grid.pending))
        p = grid.pending[i]
        fault = None
        if p.ref.kind in ("server", "object") and p.server.startswith("s"):
            mode = sc["modes"][int(p.server[1:])]
            counts[p.methname] = counts.get(p.methname, 0) + 1
            if mode == "failing":
                fault = "raise"
            elif mode == "flaky" and prng.random() < 0.3:
                fault = prng.choice(["raise", "disconnect"])
            elif mode == "slow" and p.methname in ("get_buckets", "allocate_buckets") and prng.random() < 0.5:
                fault = "lose"
            for o in oneshot:
                if "srv" in o:
                    if p.server == "s%d" % o["srv"] and o["meth"] == p.methname:
                        o["seen"] = o.get("seen", 0) + 1
                        if o["seen"] == o["nth"]:
                            fault = o["fault"]
                elif o["meth"] == p.methname and o["nth"] == counts[p.methname]:
                    fault = o["fault"]
        return ("call", i, fault)

    g.policy = policy

    # ---- the claim ----------------------------------------------------------------------------------------
    found_seen = []
    orig_set = upload.CHKUploader.set_shareholders

    def set_shareholders(self, upload_trackers, already_serverids, encoder):
        found_seen.append({sh: set(v) for sh, v in already_serverids.items()})
        return orig_set(self, upload_trackers, already_serverids, encoder)

    upload.CHKUploader.set_shareholders = set_shareholders
    result = {}
    try:
        try:
            ur = g.run(g.uploader.upload(FixedKeyData(data, k, n, happy)))
            placed = sorted([s.get_nickname(), sh] for sh, servers in ur.get_sharemap().items() for s in servers)
            found = sorted([byid.get(x, "?"), sh] for sh, v in (found_seen[-1] if found_seen else {}).items() for x in v)
            result = {"ev": "Success", "placed": placed, "found": found, "preexisting_count": ur.get_preexisting_shares(),
                      "pushed": ur.get_pushed_shares()}
        except Hang as e:
            result = {"ev": "Hang", "cls": "Hang", "mro": ["Hang"], "where": ""}
        except Exception as e:
            tb = traceback.extract_tb(sys.exc_info()[2])
            where = "%s:%s" % (os.path.basename(tb[-1].filename), tb[-1].name) if tb else ""
            result = {"ev": "Failure", "cls": type(e).__name__, "mro": [c.__name__ for c in type(e).__mro__ if c is not object],
                      "where": where, "msg": str(e)[:300]}
    finally:
        upload.CHKUploader.set_shareholders = orig_set
    events.append(result)

    # ---- quiescence, then what is on disk and what readers can list -------------------------------------------
    try:
        g.policy = "fifo"
        g.drain(allow_timers=False)
    except Hang:
        notes.append("drain did not terminate")
    disk = {}
    for nm in names:
        srv = g.servers[nm]
        final = g.shares(si_ref).get(nm, {})
        inc_dir = os.path.join(srv.ss.incomingdir, storage_index_to_dir(si_ref))
        incoming = sorted(int(f) for f in os.listdir(inc_dir)) if os.path.isdir(inc_dir) else []
        listed = sorted(srv.ss.get_buckets(si_ref).keys())
        complete, complete_main = [], []
        for sh, p in final.items():
            d = share_data(p)
            if any(r.get(sh) == d for r in refs):
                complete.append(sh)
            if ref_main.get(sh) == d:
                complete_main.append(sh)
        disk[nm] = {"final": sorted(final), "incoming": incoming, "listed": listed,
                    "complete": sorted(complete), "complete_main": sorted(complete_main)}
    events.append({"ev": "Quiescent", "disk": disk})
    g._log = orig_log
    g.close()
    shutil.rmtree(gdir, ignore_errors=True)
    consts = {"servers": names, "n": n, "k": k, "happy": happy,
              "modes": {("s%d" % i): sc["modes"][i] for i in range(ns)},
              "removed": ["s%d" % i for i in sc["remove"]],
              "pre": pre_disk, "profile": sc["profile"], "order": sc["order"],
              "pre_n": sc["pre"]["n"] if sc["pre"] else 0, "oneshot": sc["oneshot"], "size": sc["size"], "notes": notes,
              # fault free: every server answers every call, tells the truth about its space, and nothing was there before
              "faultfree": bool(not sc["oneshot"] and not sc["remove"] and not sc["pre"] and not notes
                                and all(m in ("writable", "small_known", "full_known") for m in sc["modes"]))}
    return {"consts": consts, "events": events}


def main():
    ap = argparse.ArgumentParser()
    ap.add_argument("--out", required=True)
    ap.add_argument("--in", dest="inp")
    ap.add_argument("--seed", type=int, default=0)
    ap.add_argument("--tier", default="quick")
    ap.add_argument("--n", type=int, default=100)
    ap.add_argument("--profiles", default="")
    args = ap.parse_args()
    rng = random.Random("c06:%d" % args.seed)
    workdir = tempfile.mkdtemp(prefix="c06_")
    traces = []
    try:
        for i in range(args.n):
            sc = make_scenario(rng, args.tier)
            while args.profiles and sc["profile"] not in args.profiles.split(","):
                sc = make_scenario(rng, args.tier)
            srng = random.Random(rng.randrange(1 << 60))
            traces.append(run_scenario(sc, srng, workdir, i))
    finally:
        shutil.rmtree(workdir, ignore_errors=True)
    with open(args.out, "w") as f:
        json.dump({"traces": traces}, f)


if __name__ == "__main__":
    main()
