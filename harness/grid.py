"""SimGrid: real tahoe-lafs storage servers, uploader, node maker and (optionally)
a real _Client in one process on the virtual reactor, with every remote call
parked in a scheduler so that the harness chooses the delivery order, injects
faults and decides when time passes.

    from vreactor import vr           # must be the first import of a driver
    from grid import Grid
    g = Grid(workdir, num_servers=5, k=2, n=4, happy=2, seed=7)
    res = g.run(g.uploader.upload(upload.Data(b"...", convergence=b"s")))
    node = g.nodemaker.create_from_cap(res.get_uri())
    data = g.run(download_to_data(node))

Delivery policy: g.policy = "fifo" | random.Random | callable(grid) -> ("call", index, fault) | ("timer",)
fault in (None, "raise", "disconnect", "lose")   -- "lose": never answered.
Every delivered call is appended to g.calllog (server, method, args digest, outcome).
"""
import base64, hashlib, json, os, random, shutil, tempfile

from vreactor import vr, settle
from twisted.internet import defer
from twisted.application import service
from twisted.python.failure import Failure
from foolscap.api import Referenceable, RemoteException
from zope.interface import implementer

from allmydata.interfaces import IServer, IStorageBroker
from allmydata.storage.server import StorageServer, FoolscapStorageServer
from allmydata.storage_client import _StorageServer
from allmydata.util import idlib, hashutil, fileutil
from allmydata.util.hashutil import permute_server_hash
from allmydata.crypto import rsa
from allmydata import client as _client_mod
from allmydata.immutable import upload
from allmydata.nodemaker import NodeMaker
from allmydata.client import SecretHolder, Terminator

HERE = os.path.dirname(os.path.abspath(__file__))


class IntentionalError(Exception):
    pass


class KeyPool:
    """Deterministic replacement of client.KeyGenerator (pre-generated RSA-2048 keys)."""
    def __init__(self, start=0):
        with open(os.path.join(HERE, "rsa_keys.json")) as f:
            self.ders = [base64.b64decode(x) for x in json.load(f)]
        self.i = start

    def generate(self):
        der = self.ders[self.i % len(self.ders)]
        self.i += 1
        priv, pub = rsa.create_signing_keypair_from_string(der)
        return defer.succeed((pub, priv))


class Pending:
    def __init__(self, seq, ref, methname, args, kwargs, d):
        self.seq, self.ref, self.methname, self.args, self.kwargs, self.d = seq, ref, methname, args, kwargs, d
        self.server = ref.server_name

    def __repr__(self):
        return "<Pending #%d %s.%s>" % (self.seq, self.server, self.methname)


class ControlledRef:
    """Stands for a foolscap RemoteReference to `original`; calls are parked in the grid."""
    def __init__(self, grid, original, server_name, kind="server"):
        self.grid, self.original, self.server_name, self.kind = grid, original, server_name, kind
        self.disconnectors = {}
        self.connected = True
        self._n = 0

    def callRemoteOnly(self, methname, *args, **kwargs):
        self.callRemote(methname, *args, **kwargs).addErrback(lambda f: None)
        return None

    def callRemote(self, methname, *args, **kwargs):
        args = tuple(self._wrap_in(a) for a in args)
        kwargs = {k: self._wrap_in(v) for k, v in kwargs.items()}
        d = defer.Deferred()
        self.grid._park(self, methname, args, kwargs, d)
        return d

    def _wrap_in(self, a):
        if isinstance(a, Referenceable):
            return ControlledRef(self.grid, a, "client", kind="callback")
        return a

    def wrap_out(self, res):
        if isinstance(res, Referenceable):
            return ControlledRef(self.grid, res, self.server_name, kind="object")
        if isinstance(res, tuple):
            return tuple(self.wrap_out(x) for x in res)
        if isinstance(res, list):
            return [self.wrap_out(x) for x in res]
        if isinstance(res, dict):
            return {k: self.wrap_out(v) for k, v in res.items()}
        return res

    def notifyOnDisconnect(self, f, *args, **kwargs):
        self._n += 1
        self.disconnectors[self._n] = (f, args, kwargs)
        return self._n

    def dontNotifyOnDisconnect(self, marker):
        self.disconnectors.pop(marker, None)

    def getRemoteTubID(self):
        return self.server_name

    def getLocationHints(self):
        return []

    def getPeer(self):
        return None

    def fire_disconnect(self):
        self.connected = False
        ds, self.disconnectors = self.disconnectors, {}
        for (f, a, kw) in ds.values():
            f(*a, **kw)


@implementer(IServer)
class GridServer:
    def __init__(self, grid, name, serverid, ss, rref):
        self.grid, self.name, self.serverid, self.ss, self.rref = grid, name, serverid, ss, rref
        self.permitted = True

    def __repr__(self):
        return "<GridServer %s>" % self.name

    def __copy__(self):
        return self

    def __deepcopy__(self, memo):
        return self

    def upload_permitted(self):
        return self.permitted

    def get_serverid(self):
        return self.serverid

    def get_permutation_seed(self):
        return self.serverid

    def get_lease_seed(self):
        return self.serverid

    def get_foolscap_write_enabler_seed(self):
        return self.serverid

    def get_name(self):
        return idlib.shortnodeid_b2a(self.serverid).encode("utf-8")

    def get_longname(self):
        return idlib.nodeid_b2a(self.serverid)

    def get_nickname(self):
        return self.name

    def get_rref(self):
        return self.rref

    def get_storage_server(self):
        if self.rref is None:
            return None
        return _StorageServer(lambda: self.rref)

    def get_version(self):
        return self.rref.version

    def is_connected(self):
        return True

    def start_connecting(self, trigger_cb):
        raise NotImplementedError


@implementer(IStorageBroker)
class GridBroker:
    def __init__(self, grid):
        self.grid = grid

    def get_servers_for_psi(self, peer_selection_index, for_upload=False):     # (the default of the real StorageFarmBroker)
        servers = [s for s in self.grid.connected_servers() if (not for_upload) or s.upload_permitted()]
        return sorted(servers, key=lambda s: permute_server_hash(peer_selection_index, s.get_permutation_seed()))

    def get_connected_servers(self):
        return frozenset(self.grid.connected_servers())

    def get_known_servers(self):
        return frozenset(self.grid.connected_servers())

    def get_all_serverids(self):
        return frozenset(s.get_serverid() for s in self.grid.connected_servers())

    def get_nickname_for_serverid(self, serverid):
        return None

    def when_connected_enough(self, threshold):
        return defer.Deferred()

    def get_stub_server(self, serverid):
        for s in self.grid.servers.values():
            if s.serverid == serverid:
                return s
        return None


class MiniClient(service.MultiService):
    """The cheap client: what Uploader and NodeMaker need from their parent."""
    def __init__(self, grid, params, secret):
        service.MultiService.__init__(self)
        self.grid = grid
        self.encoding_params = params
        self._secret_holder = SecretHolder(hashutil.my_renewal_secret_hash(secret), secret)
        self.convergence = secret
        self.running = True

    def get_encoding_parameters(self):
        return self.encoding_params

    def get_storage_broker(self):
        return self.grid.broker

    def get_history(self):
        return None

    def getServiceNamed(self, name):
        return service.MultiService.getServiceNamed(self, name)


class Grid:
    def __init__(self, workdir=None, num_servers=5, k=3, n=10, happy=7, max_segment_size=128 * 1024,
                 seed=0, readonly=(), reserved=None, policy="fifo", client_secret=b"lease-secret-0",
                 server_opts=None, mutable_default=None):
        self.own_dir = workdir is None
        self.basedir = workdir or tempfile.mkdtemp(prefix="grid")
        os.makedirs(self.basedir, exist_ok=True)
        self.seed = seed
        self.rng = random.Random(seed)
        self.policy = policy
        self.pending = []
        self.calllog = []
        self.seq = 0
        self.log_calls = True
        self.observers = []          # callables(entry) called for each delivered call
        self.servers = {}            # name -> GridServer
        self.removed = set()
        self.broker = GridBroker(self)
        self.params = {"k": k, "n": n, "happy": happy, "max_segment_size": max_segment_size}
        for i in range(num_servers):
            self.add_server(i, readonly=(i in readonly), **((server_opts or {}).get(i, {})))
        self.client = MiniClient(self, self.params, client_secret)
        self.uploader = upload.Uploader()
        self.uploader.setServiceParent(self.client)
        self.client.startService()
        self.keypool = KeyPool()
        self.terminator = Terminator()
        self.nodemaker = self.make_nodemaker()

    # ---- construction ----
    def make_nodemaker(self, secret_holder=None, uploader=None, mutable_default=None):
        from allmydata.interfaces import SDMF_VERSION
        return NodeMaker(self.broker, secret_holder or self.client._secret_holder, None,
                         uploader or self.uploader, self.terminator, self.params,
                         SDMF_VERSION if mutable_default is None else mutable_default, self.keypool)

    def add_server(self, i, readonly=False, **opts):
        name = "s%d" % i
        serverid = hashutil.tagged_hash(b"serverid", b"%d" % i)[:20]
        sdir = os.path.join(self.basedir, "servers", name, "storage")
        fileutil.make_dirs(sdir)
        ss = StorageServer(sdir, serverid, readonly_storage=readonly, clock=vr, **opts)
        fss = FoolscapStorageServer(ss)
        ref = ControlledRef(self, fss, name)
        ref.version = fss.remote_get_version()
        srv = GridServer(self, name, serverid, ss, ref)
        srv.fss = fss
        self.servers[name] = srv
        return srv

    def connected_servers(self):
        return [s for n, s in sorted(self.servers.items()) if n not in self.removed]

    # ---- scheduler ----
    def _park(self, ref, methname, args, kwargs, d):
        self.seq += 1
        self.pending.append(Pending(self.seq, ref, methname, args, kwargs, d))

    def deliver(self, index=0, fault=None):
        """Deliver pending call `index`; returns the calllog entry."""
        p = self.pending.pop(index)
        entry = {"seq": p.seq, "server": p.server, "kind": p.ref.kind, "meth": p.methname, "fault": fault or ""}
        if fault == "lose":
            entry["outcome"] = "lost"
            self._log(entry, p)
            return entry
        if fault == "disconnect":
            p.ref.fire_disconnect()
            entry["outcome"] = "disconnected"
            self._log(entry, p)
            from foolscap.api import DeadReferenceError
            p.d.errback(Failure(DeadReferenceError("connection lost (injected)")))
            return entry
        if fault == "raise":
            entry["outcome"] = "raised(injected)"
            self._log(entry, p)
            p.d.errback(Failure(RemoteException(Failure(IntentionalError("injected")))))
            return entry
        try:
            meth = getattr(p.ref.original, "remote_" + p.methname)
            res = meth(*p.args, **p.kwargs)
        except Exception:
            f = Failure()
            entry["outcome"] = "raised:" + f.type.__name__
            self._log(entry, p)
            p.d.errback(Failure(RemoteException(f)))
            return entry
        if isinstance(res, defer.Deferred):
            def _done(r, entry=entry, p=p):
                entry["outcome"] = "ok"
                entry["result"] = r
                self._log(entry, p)
                p.d.callback(p.ref.wrap_out(r))
            def _fail(f, entry=entry, p=p):
                entry["outcome"] = "raised:" + f.type.__name__
                self._log(entry, p)
                p.d.errback(Failure(RemoteException(f)))
            res.addCallbacks(_done, _fail)
            return entry
        entry["outcome"] = "ok"
        entry["result"] = res
        self._log(entry, p)
        p.d.callback(p.ref.wrap_out(res))
        return entry

    def _log(self, entry, p):
        entry["args"] = p.args
        entry["kwargs"] = p.kwargs
        if self.log_calls:
            self.calllog.append(entry)
        for o in self.observers:
            o(entry)

    def choose(self):
        pol = self.policy
        if callable(pol):
            return pol(self)
        if not self.pending:
            return ("timer",)
        if pol == "fifo":
            return ("call", 0, None)
        if isinstance(pol, random.Random):
            return ("call", pol.randrange(len(self.pending)), None)
        raise ValueError(pol)

    def step(self, allow_timers=True, max_timer=None):
        """One scheduler step. Returns False when quiescent (nothing pending, no timer)."""
        settle()
        if self.pending:
            c = self.choose()
            if c[0] == "call":
                self.deliver(c[1], c[2])
                settle()
                return True
        nt = vr.next_timer()
        if nt is None or not allow_timers:
            return False
        if max_timer is not None and nt > max_timer:
            return False
        vr.advance(nt)
        settle()
        return True

    def run(self, d, max_steps=200000, allow_timers=True, max_timer=None, raise_failure=True):
        """Drive the grid until d fires; returns its result (raises its failure).  Raises Hang if the
        system goes quiescent first."""
        out = []
        d.addBoth(out.append)
        n = 0
        while not out:
            if not self.step(allow_timers, max_timer):
                if not out:
                    raise Hang("quiescent before the operation completed (%d steps)" % n)
            n += 1
            if n > max_steps:
                raise Hang("no result after %d steps" % n)
        settle()
        r = out[0]
        if isinstance(r, Failure) and raise_failure:
            r.raiseException()
        return r

    def drain(self, max_steps=200000, allow_timers=True, max_timer=None):
        n = 0
        while self.step(allow_timers, max_timer):
            n += 1
            if n > max_steps:
                raise Hang("drain does not terminate")
        return n

    # ---- server manipulation ----
    def remove_server(self, name):
        self.removed.add(name)

    def shares(self, si):
        """{server_name: {shnum: path}} of the share files for storage index si."""
        from allmydata.storage.common import storage_index_to_dir
        out = {}
        for name, s in sorted(self.servers.items()):
            d = os.path.join(s.ss.sharedir, storage_index_to_dir(si))
            if os.path.isdir(d):
                for fn in sorted(os.listdir(d)):
                    if fn.isdigit():
                        out.setdefault(name, {})[int(fn)] = os.path.join(d, fn)
        return out

    def digest(self):
        """Digest of every file under every server's share directory (grid state fingerprint)."""
        h = hashlib.sha256()
        for name, s in sorted(self.servers.items()):
            for root, ds, fs in sorted(os.walk(s.ss.sharedir)):
                ds.sort()
                for fn in sorted(fs):
                    p = os.path.join(root, fn)
                    h.update(os.path.relpath(p, self.basedir).encode())
                    with open(p, "rb") as f:
                        h.update(f.read())
        return h.hexdigest()

    def close(self):
        for c in list(vr.getDelayedCalls()):
            try:
                c.cancel()
            except Exception:
                pass
        self.pending = []
        if self.own_dir:
            shutil.rmtree(self.basedir, ignore_errors=True)


class Hang(Exception):
    pass


def download_to_data(node, offset=0, size=None):
    from allmydata.util.consumer import download_to_data as d2d
    return d2d(node, offset, size)


# --------------------------------------------------------------------------------------------
# Full client (real allmydata.client._Client with networking overridden), for web / dirnode / helper.
class _GridClient(_client_mod._Client):
    def init_connections(self):
        pass

    def create_main_tub(self):
        pass

    def init_introducer_client(self):
        pass

    def create_log_tub(self):
        pass

    def setup_logging(self):
        pass

    def startService(self):
        service.MultiService.startService(self)

    def stopService(self):
        return service.MultiService.stopService(self)

    def init_helper(self):
        pass

    def init_key_gen(self):
        self._key_generator = self._grid.keypool

    def init_storage(self):
        pass

    def init_client_storage_broker(self):
        self.storage_broker = self._grid.broker

    def init_stub_client(self):
        pass

    def init_web(self, *a, **kw):
        pass


def make_full_client(grid, i=0, extra_cfg=""):
    """A real _Client on the grid's servers (tahoe.cfg in <basedir>/clients/c<i>)."""
    from allmydata.client import read_config
    cdir = os.path.join(grid.basedir, "clients", "c%d" % i)
    fileutil.make_dirs(os.path.join(cdir, "private"), 0o700)
    with open(os.path.join(cdir, "tahoe.cfg"), "w") as f:
        f.write("[node]\nnickname = client-%d\n[client]\nshares.needed = %d\nshares.total = %d\nshares.happy = %d\n[storage]\nenabled = false\n%s" % (
            i, grid.params["k"], grid.params["n"], grid.params["happy"], extra_cfg))
    config = read_config(cdir, "client.port")
    cls = type("_GridClient%d" % i, (_GridClient,), {"_grid": grid})
    c = cls(config, main_tub=None, i2p_provider=None, tor_provider=None, introducer_clients=[],
            storage_farm_broker=grid.broker)
    c.nodeid = hashutil.tagged_hash(b"clientid", b"%d" % i)[:20]
    c.short_nodeid = b"client%d" % i
    c.startService()
    return c
