"""X-cli_cp driver: rows of spec/frontends/GenCliCp.tla replayed on the real `tahoe cp` (allmydata.scripts.tahoe_cp.Copier).

Per row: a fresh local directory tree and the grid tree of the row's world (harness/webgrid.py: the real web API -- Root
inside the real WebishServer on a real _Client with two real storage servers, on the virtual reactor; built once per process
through the web API, then for every row the share files of that moment are put back and a fresh gateway is started); the command
line is rendered from the row's abstract arguments; the real Copier runs with allmydata.scripts.tahoe_cp.do_http (the
blocking http.client call of the CLI) rebound to a small synchronous shim: the request is issued on the WebGrid, the
virtual reactor is settled, and an object with .status / .reason / .read() / .getheader() is returned.  Afterwards the
local tree is walked and the grid tree is read back through the web API (GET ?t=json of every directory, GET of every file).

The driver never decides a verdict.  Its fixed tables: names (identity except "u1" = a non-ASCII name), content identifier
-> bytes (short ones become LIT files, long ones CHK files), the spelling of an argument per `form`, stderr text -> error
class.  Mutable files are identified by their storage index (o = "m1" ... as created; an unknown one: "new:<n>"); the
content of a file that holds the read-cap of an initial grid file is reported as "cap:<id>" (--caps-only).

Input  {"worlds": {name: {"L0": [entries], "G0": [entries]}}, "cases": [{"id", "world", "srcs", "tgt", "r", "caps"}]}
Output {"results": {id: {"status", "rc", "stderr", "stdout", "argv", "L": [entries] | null, "G": [entries] | null, "http": n}}}
       (null tree: that side was not part of the command and was not built)
"""
from vreactor import vr, settle  # noqa: F401  (must be first)
import argparse, hashlib, io, json, os, shutil, sys, tempfile, traceback
from urllib.parse import urlsplit

from webgrid import WebGrid, q as quote
from grid import Grid, Hang
import allmydata.scripts.tahoe_cp as tahoe_cp
from allmydata import uri as uri_mod

NAMES = {"u1": "é世"}
NAMES_BACK = {v: k for k, v in NAMES.items()}

ERRORS = [("cannot copy directories without --recursive", "E_NEEDR"),
          ("cannot copy directory into a file", "E_DIRTOFILE"),
          ("copying multiple things requires target be a directory", "E_MANYONE"),
          ("target is not a directory, but ends with a slash", "E_TGTSLASH"),
          ("is not a directory, but ends with a slash", "E_SRCSLASH"),
          ("when copying into a directory, all source files must have names", "E_UNNAMED"),
          ("cannot copy multiple files with the same name into the same target directory", "E_COLLIDE"),
          ("No such file or directory", "E_MISSING"),
          # the gateway's own words for a file addressed with a trailing slash / for ALIAS:/ (an empty path component)
          ("Files have no children named ''", "E_TGTSLASH"),
          ("Files have no children named", "E_MISSING"),       # a source path that leads through a file
          ("does not allow empty pathname components", "E_EMPTYNAME")]


def name_of(n):
    return NAMES.get(n, n)


def names_of(p):
    return [name_of(n) for n in p.split("/")] if p else []


def abstract_path(parts):
    return "/".join(NAMES_BACK.get(n, n) for n in parts)


def content_bytes(cid):
    """short contents become LIT files, long ones CHK files (decided by the identifier)"""
    h = hashlib.sha256(cid.encode()).digest()[0]
    base = ("<%s>" % cid).encode()
    return base if h % 2 == 0 else base * 30


class Resp:
    """what tahoe_cp uses of http.client.HTTPResponse"""
    def __init__(self, r):
        self.status = r.code
        self.reason = {200: "OK", 201: "Created", 404: "Not Found", 400: "Bad Request", 409: "Conflict", 410: "Gone",
                       500: "Internal Server Error"}.get(r.code, "status %d" % r.code)
        self._body = io.BytesIO(r.body)
        self._r = r

    def read(self, n=-1):
        return self._body.read(n)

    def getheader(self, name, default=None):
        v = self._r.header(name)
        return default if v is None else v

    # http.client.HTTPResponse is an io.BufferedIOBase: it has seek(), and seekable() answers False
    def seekable(self):
        return False

    def seek(self, *a):
        raise io.UnsupportedOperation("seek")


class GridBase:
    """The grid tree of one world, built once per process through the web API; every row gets the share files of that
    moment back (and the RSA key pool at its position of that moment) and a fresh gateway (new _Client, empty node cache)."""
    def __init__(self, world):
        self.grid = Grid(workdir=tempfile.mkdtemp(prefix="grid_", dir=BASE), num_servers=2, k=1, n=2, happy=1, max_segment_size=64, seed=0)
        self.nclients = 0
        self.w = self.gateway()
        self.caps, self.isdir, self.immcap, self.mut, self.content = {}, {}, {}, {}, {}
        self.rootcap = self.must(self.w.request("POST", "/uri?t=mkdir"), "mkdir root")
        base = "/uri/" + quote(self.rootcap)
        self.caps[""] = self.rootcap
        for e in sorted(world["G0"], key=lambda e: e["p"].count("/")):
            url = base + "/" + "/".join(quote(n) for n in names_of(e["p"]))
            if e["k"] == "dir":
                cap = self.must(self.w.request("POST", url + "?t=mkdir"), "mkdir " + e["p"])
            elif e["mu"]:
                fmt = "MDMF" if e["o"].endswith("2") else "SDMF"
                cap = self.must(self.w.request("PUT", url + "?format=" + fmt, body=content_bytes(e["c"])), "put mutable " + e["p"])
                u = uri_mod.from_string(cap.encode())
                self.mut[u.get_storage_index()] = e["o"]
                self.content[u.get_readonly().to_string()] = "cap:" + e["o"]       # --caps-only writes the read-cap
            else:
                cap = self.must(self.w.request("PUT", url, body=content_bytes(e["c"])), "put " + e["p"])
                self.content[cap.encode()] = "cap:" + e["c"]
                self.immcap[cap] = e["c"]       # an immutable cap determines the contents
            self.caps[e["p"]] = cap
            self.isdir[e["p"]] = e["k"] == "dir"
        self.backup = os.path.join(self.grid.basedir, "backup")
        for sname, srv in self.grid.servers.items():
            shutil.copytree(srv.ss.sharedir, os.path.join(self.backup, sname))
        self.keypos = self.grid.keypool.i
        self.dirty = False

    def must(self, r, what):
        if r.code not in (200, 201):
            raise RuntimeError("setup: %s -> %d %r" % (what, r.code, r.body[:200]))
        return r.body.decode().strip()

    def gateway(self):
        w = WebGrid(grid=self.grid, client_index=self.nclients)
        self.nclients += 1
        # the grid's pre-generated RSA keys instead of a fresh 2048-bit key per mutable object
        w.client._key_generator = self.grid.keypool
        w.client.nodemaker.key_generator = self.grid.keypool
        return w

    def close(self):
        try:
            self.w.client.stopService()
        except Exception:
            pass
        shutil.rmtree(self.grid.basedir, ignore_errors=True)

    def fresh(self):
        if self.dirty:
            try:
                self.w.client.stopService()
            except Exception:
                pass
            for sname, srv in self.grid.servers.items():
                shutil.rmtree(srv.ss.sharedir)
                shutil.copytree(os.path.join(self.backup, sname), srv.ss.sharedir)
            self.grid.pending = []
            self.grid.keypool.i = self.keypos
            self.w = self.gateway()
        self.dirty = True
        return self.w


GRIDS = {}


class Case:
    def __init__(self, base, wname, world, case):
        self.wname, self.world, self.case = wname, world, case
        self.base = tempfile.mkdtemp(dir=base)
        self.root = os.path.join(self.base, "root")
        os.mkdir(self.root)
        self.sides = {a["side"] for a in case["srcs"]} | {case["tgt"]["side"]}
        self.http = 0
        self.w = None
        self.rootcap = None
        self.caps, self.isdir, self.immcap, self.mut = {}, {}, {}, {}
        self.content = {}        # bytes -> content id
        self.newmut = 0

    # ------------------------------------------------------------------ building the world
    def build_local(self):
        for e in sorted(self.world["L0"], key=lambda e: e["p"].count("/")):
            pn = os.path.join(self.root, *names_of(e["p"]))
            if e["k"] == "dir":
                os.mkdir(pn)
            else:
                with open(pn, "wb") as f:
                    f.write(content_bytes(e["c"]))

    def req(self, method, path, body=None):
        return self.w.request(method, path, body=body)

    def build_grid(self):
        if self.wname not in GRIDS:
            if len(GRIDS) >= 12:        # the enumerated small worlds: keep the most recent ones
                old = next(iter(GRIDS))
                GRIDS.pop(old).close()
            GRIDS[self.wname] = GridBase(self.world)
        gb = GRIDS[self.wname] = GRIDS.pop(self.wname)
        self.w = gb.fresh()
        self.rootcap, self.caps, self.isdir = gb.rootcap, gb.caps, gb.isdir
        self.immcap, self.mut = dict(gb.immcap), dict(gb.mut)
        self.content.update(gb.content)

    # ------------------------------------------------------------------ observation
    def abstract_content(self, data):
        if data in self.content:
            return self.content[data]
        return "?" + repr(data[:48])

    def read_local(self):
        out = []
        for dp, dns, fns in os.walk(self.root):
            dns.sort()
            rel = os.path.relpath(dp, self.root)
            parts = [] if rel == "." else rel.split(os.sep)
            if parts:
                out.append({"p": abstract_path(parts), "k": "dir", "c": "", "mu": False, "o": ""})
            for fn in sorted(fns):
                full = os.path.join(dp, fn)
                if os.path.islink(full) or not os.path.isfile(full):
                    out.append({"p": abstract_path(parts + [fn]), "k": "special", "c": "", "mu": False, "o": ""})
                    continue
                with open(full, "rb") as f:
                    data = f.read()
                out.append({"p": abstract_path(parts + [fn]), "k": "file", "c": self.abstract_content(data), "mu": False, "o": ""})
        return out

    def read_grid(self):
        entries = []
        seen = set()

        def walk(cap, parts):
            r = self.req("GET", "/uri/%s?t=json" % quote(cap))
            if r.code != 200:
                raise RuntimeError("observe: GET ?t=json of %s -> %d %r" % ("/".join(parts), r.code, r.body[:200]))
            kind, d = json.loads(r.body)
            if kind != "dirnode":
                raise RuntimeError("observe: %s is a %s" % ("/".join(parts), kind))
            for name, (ckind, cd) in sorted(d["children"].items()):
                p = abstract_path(parts + [name])
                rw, ro = cd.get("rw_uri"), cd.get("ro_uri")
                if ckind == "dirnode":
                    entries.append({"p": p, "k": "dir", "c": "", "mu": False, "o": ""})
                    key = rw or ro
                    if key in seen:
                        raise RuntimeError("observe: directory %s reached twice" % p)
                    seen.add(key)
                    walk(key, parts + [name])
                elif ckind == "filenode":
                    mu = bool(cd.get("mutable", False))
                    o = ""
                    if mu:
                        si = uri_mod.from_string(ro.encode()).get_storage_index()
                        if si not in self.mut:
                            self.newmut += 1
                            self.mut[si] = "new:%d" % self.newmut
                        o = self.mut[si]
                    if not mu and ro in self.immcap:
                        c = self.immcap[ro]
                    else:
                        g = self.req("GET", "/uri/%s" % quote(ro))
                        c = self.abstract_content(g.body if g.code == 200 else b"<GET %d>" % g.code)
                        if not mu and g.code == 200:
                            self.immcap[ro] = c
                    entries.append({"p": p, "k": "file", "c": c, "mu": mu, "o": o})
                else:
                    entries.append({"p": p, "k": ckind, "c": "", "mu": False, "o": ""})
        walk(self.rootcap, [])
        return entries

    # ------------------------------------------------------------------ the command line
    def render(self, a, is_target):
        parts = names_of(a["p"])
        form = a["form"]
        if a["side"] == "local":
            if form == "abs":
                s = os.path.join(self.root, *parts)
            elif form == "dot":
                s = "./" + "/".join(parts) if parts else "."
            else:
                s = "/".join(parts) if parts else "."
        elif not is_target and not a["named"]:
            s = "tahoe:" if (form == "alias" and not parts) else self.caps[a["p"]]
        elif form == "alias":
            s = "tahoe:" + "/".join(parts)
        elif form == "parentcap":
            # DIRCAP/[SUBDIRS/]FILENAME from the nearest directory above that exists
            ab = a["p"].split("/") if parts else []
            k = max(len(ab) - 1, 0)
            while k > 0 and not self.isdir.get("/".join(ab[:k])):
                k -= 1
            s = "/".join([self.caps["/".join(ab[:k])]] + parts[k:])
        else:  # dotcap: the older DIRCAP:./path spelling
            s = self.rootcap + ":./" + "/".join(parts)
        if a["slash"] and not s.endswith("/"):
            s += "/"
        return s

    # ------------------------------------------------------------------ run
    def do_http(self, method, url, body=b""):
        if not isinstance(body, bytes):
            body = body.read()
        u = urlsplit(url)
        path = u.path + ("?" + u.query if u.query else "")
        self.http += 1
        if self.w is None:
            raise RuntimeError("HTTP request %s %s in a command without grid arguments" % (method, url))
        return Resp(self.w.request(method, path, body=body if (body or method in ("PUT", "POST")) else None))

    def run(self):
        c = self.case
        for e in self.world["L0"] + self.world["G0"]:
            if e["k"] == "file":
                self.content[content_bytes(e["c"])] = e["c"]
        self.build_local()
        if "grid" in self.sides:
            self.build_grid()
        argv = [self.render(a, False) for a in c["srcs"]] + [self.render(c["tgt"], True)]

        class Options(dict):
            pass
        o = Options({"quiet": False, "verbose": False, "node-url": "http://127.0.0.1:3456/", "recursive": c["r"], "caps-only": c["caps"]})
        o.aliases = {"tahoe": self.rootcap.encode()} if self.rootcap else {}
        o.stdout, o.stderr = io.StringIO(), io.StringIO()
        o.sources, o.destination = argv[:-1], argv[-1]
        tahoe_cp.do_http = self.do_http
        cwd = os.getcwd()
        os.chdir(self.root)
        rc, exc = None, ""
        try:
            rc = tahoe_cp.Copier().do_copy(o)
        except Hang as e:
            exc = "HANG: %s" % e
        except Exception as e:
            exc = "EXC:%s: %s" % (type(e).__name__, str(e)[:200])
        finally:
            os.chdir(cwd)
        err = o.stderr.getvalue()
        if exc:
            status = "EXC:" + exc.split(":")[1] if exc.startswith("EXC") else "HANG"
        elif rc == 0:
            status = "ok"
        else:
            status = "E_OTHER"
            for text, cls in ERRORS:
                if text in err:
                    status = cls
                    break
        res = {"status": status, "rc": rc if rc is not None else -1, "exc": exc, "stderr": err[:400], "stdout": o.stdout.getvalue()[:200],
               "argv": [("-r " if c["r"] else "") + ("--caps-only " if c["caps"] else "")] + [self.short(x) for x in argv],
               "http": self.http, "L": self.read_local(), "G": self.read_grid() if self.w is not None else None}
        return res

    def short(self, s):
        return s.replace(self.root, "$ROOT").replace(self.rootcap or "\0", "$ROOTCAP")

    def close(self):
        shutil.rmtree(self.base, ignore_errors=True)


WORLDS, BASE = {}, None


def work(case):
    k = Case(BASE, case["world"], WORLDS[case["world"]], case)
    try:
        return case["id"], k.run()
    except Exception:
        raise RuntimeError("case %s: %s" % (json.dumps(case), traceback.format_exc()))
    finally:
        k.close()


def main():
    global WORLDS, BASE
    ap = argparse.ArgumentParser()
    ap.add_argument("--out"); ap.add_argument("--in", dest="inp"); ap.add_argument("--seed", type=int, default=0)
    ap.add_argument("--tier", default="quick"); ap.add_argument("--jobs", type=int, default=1)
    a = ap.parse_args()
    with open(a.inp) as f:
        inp = json.load(f)
    WORLDS = inp["worlds"]
    BASE = tempfile.mkdtemp(prefix="clicp_", dir=os.getcwd())
    try:
        if a.jobs > 1:
            import multiprocessing
            with multiprocessing.get_context("fork").Pool(a.jobs) as pool:
                pairs = pool.map(work, inp["cases"], chunksize=8)
        else:
            pairs = [work(c) for c in inp["cases"]]
    finally:
        shutil.rmtree(BASE, ignore_errors=True)
    with open(a.out, "w") as f:
        json.dump({"results": {str(i): r for i, r in pairs}}, f)


if __name__ == "__main__":
    main()
