"""C41 driver: replay Spec-generated web API requests (spec/frontends/WebAuthority.tla) against the real web
Root over a real client and real storage servers, and observe (a) the HTTP status and body, (b) which grid
objects' share files changed and whether new storage indexes appeared, (c) which secrets (write keys / read keys
of the objects of the tree) occur in the response.

The tree (object names and link names are those of spec/frontends/WebAuthority.tla):

  ROOT --f--> IMM (CHK)  --lit--> LIT  --m--> M1 (SDMF, rw link)  --romut--> M2 (SDMF, linked by its read-only cap)
       --sub--> SUB (rw link)   --rosub--> D2 (linked by its read-only cap)   --d2rw--> D2 (same directory, rw link)
  SUB  --f--> SF (CHK)   --m--> M3 (MDMF, rw link)
  D2   --f--> DF (CHK)   --m--> M4 (SDMF, rw link)   --d--> D3 (rw link)
  D3   --f--> XF (CHK)
  ID   --f--> IMM        (ID: immutable directory, linked from ROOT as "idir")
  SPARE: a mutable file outside the tree whose read-only cap is what t=uri / set_children link.

Input  {"requests": [{"id", "op", "start": {"obj", "auth"}, "path": [names], "args": {...}}, ...], "order": [...]}
Output {"results": {id: {"status", "changed": [objs], "new_objects": n, "leaks": [[obj, "write"|"read"]], "body": "..."}}}
"""
import argparse, hashlib, json, os, random, shutil, sys

from vreactor import vr, settle
from webgrid import WebGrid, q
from grid import Grid
from web_common import content
import allmydata.mutable.publish as _pub
from allmydata.interfaces import SDMF_VERSION, MDMF_VERSION
from allmydata.immutable import upload
from allmydata.mutable.publish import MutableData
from allmydata.storage.common import storage_index_to_dir
from allmydata.util import base32
from allmydata import uri as _uri


class Tree:
    """Builds the tree through the node API of the real client and remembers every cap and key."""
    def __init__(self, w):
        self.w = w
        g, c = w.g, w.client
        self.caps = {}      # obj -> {"write": cap|None, "read": cap, "verify": cap|None}
        self.si = {}        # obj -> storage index (bytes) or None (LIT)
        self.keep = []      # live nodes (a long-running gateway serving other users keeps nodes in its cache)

        def run(d):
            return g.run(d)

        def imm(name, size, salt):
            data = bytes((b + salt) & 0xff for b in content(size))
            n = c.create_node_from_uri(run(c.upload(upload.Data(data, convergence=b"c41"))).get_uri())
            self._remember(name, n)
            return n

        def mut(name, data, version):
            n = run(c.create_mutable_file(MutableData(data), version=version))
            self._remember(name, n)
            return n

        def mkdir(name, version=None):
            n = run(c.create_dirnode(version=version))
            self._remember(name, n)
            return n

        IMM = imm("IMM", 60, 1); LIT = imm("LIT", 10, 2); SF = imm("SF", 61, 3); DF = imm("DF", 62, 4); XF = imm("XF", 63, 5)
        M1 = mut("M1", b"m1 contents", SDMF_VERSION); M2 = mut("M2", b"m2 contents", SDMF_VERSION)
        M3 = mut("M3", b"m3 contents, mdmf", MDMF_VERSION); M4 = mut("M4", b"m4 contents", SDMF_VERSION)
        # D3 (reached through the read-only link rosub) is an MDMF directory, the others are SDMF
        ROOT, SUB, D2, D3 = mkdir("ROOT"), mkdir("SUB"), mkdir("D2"), mkdir("D3", MDMF_VERSION)
        run(D3.set_node("f", XF))
        run(D2.set_node("f", DF)); run(D2.set_node("m", M4)); run(D2.set_node("d", D3))
        run(SUB.set_node("f", SF)); run(SUB.set_node("m", M3))
        run(ROOT.set_node("f", IMM)); run(ROOT.set_node("lit", LIT)); run(ROOT.set_node("m", M1))
        run(ROOT.set_uri("romut", None, M2.get_readonly_uri()))
        run(ROOT.set_node("sub", SUB))
        run(ROOT.set_uri("rosub", None, D2.get_readonly_uri()))
        run(ROOT.set_node("d2rw", D2))
        ID = run(c.create_immutable_dirnode({"f": (IMM, {})}))
        self._remember("ID", ID)
        run(ROOT.set_node("idir", ID))
        self.keep.append(ID)
        # a spare object to link with t=uri / set_children (read-only cap of a fresh mutable file: no secret of the tree)
        SP = mut("SPARE", b"spare", SDMF_VERSION)
        self.keep += [IMM, LIT, SF, DF, XF, M1, M2, M3, M4, ROOT, SUB, D2, D3, SP]

    def _remember(self, name, node):
        w = node.get_write_uri()
        r = node.get_readonly_uri()
        v = node.get_verify_cap()
        self.caps[name] = {"write": w.decode() if w else "", "read": r.decode() if r else "",
                           "verify": v.to_string().decode() if v else ""}
        self.si[name] = node.get_storage_index()

    def secrets(self):
        """obj -> {"write": [strings], "read": [strings]}: strings whose presence in a response reveals that authority."""
        out = {}
        for name, caps in self.caps.items():
            s = {"write": [], "read": []}
            if caps["write"]:
                u = _uri.from_string(caps["write"].encode())
                fu = u.get_filenode_cap() if hasattr(u, "get_filenode_cap") else u
                s["write"].append(base32.b2a(fu.writekey).decode())
            if caps["read"] and self.si[name] is not None:
                u = _uri.from_string(caps["read"].encode())
                fu = u.get_filenode_cap() if hasattr(u, "get_filenode_cap") else u
                key = getattr(fu, "readkey", None) or getattr(fu, "key", None)
                s["read"].append(base32.b2a(key).decode())
            out[name] = s
        return out


class Observer:
    """Per-object fingerprint of the share files on every server."""
    def __init__(self, g, tree):
        self.g, self.tree = g, tree
        self.by_dir = {storage_index_to_dir(si): name for name, si in tree.si.items() if si is not None}

    def snapshot(self):
        """{relative share dir: digest}"""
        out = {}
        for sname, s in sorted(self.g.servers.items()):
            base = s.ss.sharedir
            for root, ds, fs in os.walk(base):
                ds.sort()
                for fn in sorted(fs):
                    p = os.path.join(root, fn)
                    rel = os.path.relpath(root, base)
                    h = out.setdefault(rel, hashlib.sha256())
                    h.update(("%s/%s:" % (sname, fn)).encode())
                    with open(p, "rb") as f:
                        h.update(f.read())
        return {k: v.hexdigest() for k, v in out.items()}

    def diff(self, a, b):
        changed = sorted({self.by_dir.get(k, "?" + k) for k in a if k in b and a[k] != b[k]} |
                         {self.by_dir.get(k, "?" + k) for k in a if k not in b})
        new = sorted(k for k in b if k not in a)
        return changed, new


def multipart(fields, files):
    boundary = "----c41boundary7f3a"
    out = []
    for k, v in fields.items():
        out.append("--%s\r\nContent-Disposition: form-data; name=\"%s\"\r\n\r\n%s\r\n" % (boundary, k, v))
    for k, (fn, data) in files.items():
        out.append("--%s\r\nContent-Disposition: form-data; name=\"%s\"; filename=\"%s\"\r\n"
                   "Content-Type: application/octet-stream\r\n\r\n%s\r\n" % (boundary, k, fn, data))
    out.append("--%s--\r\n" % boundary)
    return "".join(out).encode(), "multipart/form-data; boundary=" + boundary


class Runner:
    def __init__(self, seed):
        _pub.DEFAULT_MUTABLE_MAX_SEGMENT_SIZE = 6
        self.seed = seed
        self.grid = Grid(num_servers=4, k=2, n=4, happy=1, max_segment_size=16, seed=seed)
        self.nclients = 0
        self.w = WebGrid(grid=self.grid)
        self.tree = Tree(self.w)
        self.obs = Observer(self.grid, self.tree)
        self.secrets = self.tree.secrets()
        self.backup = os.path.join(self.grid.basedir, "backup")
        shutil.copytree(os.path.join(self.grid.basedir, "servers"), self.backup)
        self.base = self.obs.snapshot()
        self.restores = 0

    def restore(self):
        """Put every share file back and start a fresh gateway (new _Client, new node cache) on the same servers."""
        for sname, s in self.grid.servers.items():
            shutil.rmtree(s.ss.sharedir)
            shutil.copytree(os.path.join(self.backup, sname, "storage", "shares"), s.ss.sharedir)
        self.grid.pending = []
        self.nclients += 1
        self.w = WebGrid(grid=self.grid, client_index=self.nclients)
        # the fresh gateway also holds live rw nodes of every object, like the first one
        self.live = [self.w.client.create_node_from_uri((c["write"] or c["read"]).encode()) for c in self.tree.caps.values()]
        self.restores += 1
        assert self.obs.snapshot() == self.base

    # ---- request construction: the Spec's abstract request -> HTTP ----
    def http(self, rq):
        caps = self.tree.caps
        if rq["op"] == "GET_private":
            tok = rq["args"]["t"]
            real = self.w.client.get_auth_token().decode()
            hdr = {"no_token": None, "wrong_token": "tahoe-lafs " + real[:-1] + ("A" if real[-1] != "A" else "B"),
                   "right_token": "tahoe-lafs " + real, "right_token_wrong_scheme": "Bearer " + real}[tok]
            return "GET", "/private/logs/v1", ({"Authorization": hdr} if hdr else {}), None
        start = caps[rq["start"]["obj"]][rq["start"]["auth"]]
        url = "/uri/" + q(start) + "".join("/" + q(n) for n in rq["path"])
        op, a = rq["op"], rq.get("args", {})
        spare = caps["SPARE"]["read"]
        body, headers, method, query = None, {}, "GET", {}
        if op == "PUT_file":
            method, body = "PUT", b"new contents put by C41 %d" % rq["id"] + b"." * 60
        elif op == "PUT_file_sdmf":
            method, body, query = "PUT", b"new mutable contents %d" % rq["id"], {"format": "sdmf"}
        elif op == "PUT_file_offset":
            method, body, query = "PUT", b"XY", {"offset": "1"}
        elif op == "PUT_uri":
            method, body, query = "PUT", spare.encode(), {"t": "uri"}
        elif op == "PUT_mkdir":
            method, query = "PUT", {"t": "mkdir"}
        elif op == "POST_mkdir":
            method, query = "POST", {"t": "mkdir"}
        elif op == "DELETE":
            method = "DELETE"
        elif op == "POST_upload":
            method, query = "POST", {"t": "upload"}
            body, ct = multipart({}, {"file": ("up.bin", "uploaded by C41 %d" % rq["id"] + "." * 60)})
            headers["Content-Type"] = ct
        elif op == "POST_upload_sdmf":
            method, query = "POST", {"t": "upload", "format": "sdmf"}
            body, ct = multipart({}, {"file": ("up.bin", "uploaded mutable by C41 %d" % rq["id"])})
            headers["Content-Type"] = ct
        elif op == "POST_mkdir_name":
            method, query = "POST", {"t": "mkdir", "name": a["name"]}
        elif op == "POST_mkdir_children_name":
            method, query = "POST", {"t": "mkdir-with-children", "name": a["name"]}
            body = json.dumps({"k": ["filenode", {"ro_uri": spare}]}).encode()
        elif op == "POST_mkdir_immutable_name":
            method, query = "POST", {"t": "mkdir-immutable", "name": a["name"]}
            body = json.dumps({"k": ["filenode", {"ro_uri": caps["IMM"]["read"]}]}).encode()
        elif op == "POST_upload_name":
            method, query = "POST", {"t": "upload"}
            body, ct = multipart({"name": a["name"]}, {"file": ("up.bin", "uploaded by C41 %d" % rq["id"] + "." * 60)})
            headers["Content-Type"] = ct
        elif op == "POST_uri_name":
            method, query = "POST", {"t": "uri", "name": a["name"], "uri": spare}
        elif op in ("POST_delete_name", "POST_unlink_name"):
            method, query = "POST", {"t": "delete" if op == "POST_delete_name" else "unlink", "name": a["name"]}
        elif op == "POST_rename":
            method, query = "POST", {"t": "rename", "from_name": a["from_name"], "to_name": a["to_name"]}
        elif op == "POST_relink":
            td = caps[a["to_start"]["obj"]][a["to_start"]["auth"]] + "".join("/" + n for n in a["to_path"])
            method, query = "POST", {"t": "relink", "from_name": a["from_name"], "to_dir": td, "to_name": a["to_name"]}
        elif op == "POST_set_children":
            method, query = "POST", {"t": "set_children"}
            body = json.dumps({a["name"]: ["filenode", {"ro_uri": spare}]}).encode()
        # ---- reads ----
        elif op == "GET":
            method, query = "GET", ({"t": a["t"]} if a.get("t") else {})
        elif op == "POST_check":
            method, query = "POST", {"t": "check", "output": "json"}
        elif op == "POST_stream_manifest":
            method, query = "POST", {"t": "stream-manifest"}
        elif op == "POST_stream_deep_check":
            method, query = "POST", {"t": "stream-deep-check"}
        else:
            raise ValueError(op)
        if query:
            url += "?" + "&".join("%s=%s" % (k, q(v)) for k, v in query.items())
        return method, url, headers, body

    def leaks(self, text, allowed):
        """[[obj, level]] for every secret of the tree found in `text` above what the Spec allows for that object."""
        rank = {"none": 0, "verify": 0, "read": 1, "write": 2}
        found = []
        for obj, s in self.secrets.items():
            lvl = rank[allowed.get(obj, "none")]
            for level in ("write", "read"):
                if rank[level] > lvl and any(x in text for x in s[level]):
                    found.append([obj, level])
        return found

    def run_request(self, rq):
        method, url, headers, body = self.http(rq)
        before = self.obs.snapshot()
        if before != self.base:
            raise RuntimeError("grid not in the base state before request %r" % rq["id"])
        try:
            r = self.w.request(method, url, headers=headers or None, body=body)
            status, text, err = r.code, r.body.decode("latin-1"), r.error
            hdrtext = json.dumps(r.headers)
        except Exception as e:          # Hang etc.: an observation, judged by the check
            status, text, err, hdrtext = -1, "", "%s: %s" % (type(e).__name__, e), ""
        self.grid.drain(max_timer=1.0)
        after = self.obs.snapshot()
        changed, new = self.obs.diff(before, after)
        shown = url
        for obj, cs in self.tree.caps.items():
            for lvl, cap in cs.items():
                if cap:
                    shown = shown.replace(q(cap), "$%s.%s" % (obj, lvl))
        res = {"status": status, "changed": changed, "new_objects": len(new), "error": err,
               "leaks": self.leaks(text + hdrtext, rq.get("may_appear", {})), "body": text[:200],
               "http": "%s %s" % (method, shown)}
        if after != self.base:
            if not changed and all(k not in before for k in new):
                # only new (orphan) objects appeared: remove their share directories, the gateway state is unaffected
                for sname, s in self.grid.servers.items():
                    for rel in new:
                        shutil.rmtree(os.path.join(s.ss.sharedir, rel), ignore_errors=True)
                if self.obs.snapshot() != self.base:
                    self.restore()
            else:
                self.restore()
        return res


def run_chunk(arg):
    seed, requests = arg
    R = Runner(seed)
    results = {}
    for rq in requests:
        results[str(rq["id"])] = R.run_request(rq)
    n = R.restores
    objs = sorted(R.tree.caps)
    R.grid.close()
    return results, n, objs


def main():
    ap = argparse.ArgumentParser()
    ap.add_argument("--out"); ap.add_argument("--in", dest="inp"); ap.add_argument("--seed", type=int, default=0)
    ap.add_argument("--tier", default="quick"); ap.add_argument("--jobs", type=int, default=1)
    a = ap.parse_args()
    inp = json.load(open(a.inp))
    reqs = inp["requests"]
    jobs = max(1, a.jobs)
    # each worker: its own servers, tree and gateway; its share of the requests is one history
    chunks = [reqs[i::jobs] for i in range(jobs)]
    args = [(a.seed, c) for c in chunks if c]
    if len(args) == 1:
        outs = [run_chunk(args[0])]
    else:
        import multiprocessing
        with multiprocessing.get_context("fork").Pool(len(args)) as pool:
            outs = pool.map(run_chunk, args)
    results = {}
    for r, n, objs in outs:
        results.update(r)
    json.dump({"results": results, "restores": sum(o[1] for o in outs), "objects": outs[0][2]}, open(a.out, "w"))


if __name__ == "__main__":
    main()
