"""Tables shared by extras/cli_aliases/check.py and harness/cli_alias_driver.py: how the tokens and cap ids of
spec/frontends/CliNames.tla are written as text.  No allmydata imports (the check process has no allmydata)."""

# cap id -> (text, text of the read-only form).  Valid caps made once with allmydata.uri from fixed keys
# (DirectoryURI(WriteableSSKFileURI(bytes([i])*16, bytes([i+1])*32))); Q2 is a read-only directory cap.
CAPS = {
    "R0": ("URI:DIR2:aeaqcaibaeaqcaibaeaqcaibae:aibaeaqcaibaeaqcaibaeaqcaibaeaqcaibaeaqcaibaeaqcaiba",
           "URI:DIR2-RO:nvgh5vj2ekzzkim5fgtb4gey5y:aibaeaqcaibaeaqcaibaeaqcaibaeaqcaibaeaqcaibaeaqcaiba"),
    "R1": ("URI:DIR2:ambqgaydambqgaydambqgaydam:aqcaibaeaqcaibaeaqcaibaeaqcaibaeaqcaibaeaqcaibaeaqca",
           "URI:DIR2-RO:iosg2ayya4fhrlkfzsjqywrfaq:aqcaibaeaqcaibaeaqcaibaeaqcaibaeaqcaibaeaqcaibaeaqca"),
    "R2": ("URI:DIR2:aucqkbifaucqkbifaucqkbifau:aydambqgaydambqgaydambqgaydambqgaydambqgaydambqgayda",
           "URI:DIR2-RO:ru7htuf2ldt6ir2mewr3ziyrgu:aydambqgaydambqgaydambqgaydambqgaydambqgaydambqgayda"),
    "R3": ("URI:DIR2:a4dqobyha4dqobyha4dqobyha4:baeaqcaibaeaqcaibaeaqcaibaeaqcaibaeaqcaibaeaqcaibaea",
           "URI:DIR2-RO:s5hrhabj7xbzllnn76axc4c3wu:baeaqcaibaeaqcaibaeaqcaibaeaqcaibaeaqcaibaeaqcaibaea"),
    "K0": ("URI:DIR2:beeqscijbeeqscijbeeqscijbe:bifaucqkbifaucqkbifaucqkbifaucqkbifaucqkbifaucqkbifa",
           "URI:DIR2-RO:rzb235nnijtcy2rzfiyjxf4jaa:bifaucqkbifaucqkbifaucqkbifaucqkbifaucqkbifaucqkbifa"),
    "N1": ("URI:DIR2:bmfqwcylbmfqwcylbmfqwcylbm:bqgaydambqgaydambqgaydambqgaydambqgaydambqgaydambqga",
           "URI:DIR2-RO:pnfuq6bzmkntkpo3rhjz3e3gcy:bqgaydambqgaydambqgaydambqgaydambqgaydambqgaydambqga"),
    "N2": ("URI:DIR2:bugq2dinbugq2dinbugq2dinbu:byha4dqobyha4dqobyha4dqobyha4dqobyha4dqobyha4dqobyha",
           "URI:DIR2-RO:oiiavic4kehtiri7dboafj4ata:byha4dqobyha4dqobyha4dqobyha4dqobyha4dqobyha4dqobyha"),
    "N3": ("URI:DIR2:cukrkfivcukrkfivcukrkfivcu:cylbmfqwcylbmfqwcylbmfqwcylbmfqwcylbmfqwcylbmfqwcyla",
           "URI:DIR2-RO:73xq7gz3co6cre6cc2odjvuulu:cylbmfqwcylbmfqwcylbmfqwcylbmfqwcylbmfqwcylbmfqwcyla"),
    "Q2": ("URI:DIR2-RO:iqpkcncm7kt3xmckwilcnow6ga:caibaeaqcaibaeaqcaibaeaqcaibaeaqcaibaeaqcaibaeaqcaia",
           "URI:DIR2-RO:iqpkcncm7kt3xmckwilcnow6ga:caibaeaqcaibaeaqcaibaeaqcaibaeaqcaibaeaqcaibaeaqcaia"),
}
MUTABLE_FILE = "URI:SSK:ceirceirceirceirceirceirce:cijbeeqscijbeeqscijbeeqscijbeeqscijbeeqscijbeeqscija"
FILE_RW = "URI:SSK:cukrkfivcukrkfivcukrkfivcu:cylbmfqwcylbmfqwcylbmfqwcylbmfqwcylbmfqwcylbmfqwcyla"
FILE_RO = "URI:SSK-RO:73xq7gz3co6cre6cc2odjvuulu:cylbmfqwcylbmfqwcylbmfqwcylbmfqwcylbmfqwcylbmfqwcyla"
FILE_IMM = "URI:CHK:cmjrgeytcmjrgeytcmjrgeytcm:cqkbifaucqkbifaucqkbifaucqkbifaucqkbifaucqkbifaucqka:3:10:1234"
LOCAL_CONTENT = b"contents of the local file\n"
REMOTE_CONTENT = b"contents of the remote file\x00\xff\n"
NODE_URL = "http://127.0.0.1:3456"

TOK = {"a": "a", "e": "é", "t": "tahoe", "U": "URI", "K": CAPS["K0"][0], "M": MUTABLE_FILE,
       ":": ":", "/": "/", " ": " ", ".": ".", "#": "#"}


def seq(x):
    """A TLA+ sequence from JSON ([] or, for the empty one, possibly {})."""
    return list(x) if x else []


def text(tokens):
    return "".join(TOK[t] for t in seq(tokens))


def cap_text(cid, ro=False):
    return CAPS[cid][1 if ro else 0]


def root_text(root):
    """The cap a Spec root record stands for ('' for /uri itself)."""
    if root["t"] == "alias":
        return cap_text(root["cap"])
    if root["t"] == "lit":
        return text(root["lit"])
    return ""


def render_line(l):
    k = l["k"]
    if k == "entry":
        return " " * l["pre"] + text(l["name"]) + ":" + " " * l["mid"] + cap_text(l["cap"]) + " " * l["post"]
    if k == "centry":
        return "#" + text(l["name"]) + ": " + cap_text(l["cap"])
    if k == "blank":
        return ""
    if k == "spaces":
        return "   "
    if k == "comment":
        return "# a comment: with a colon"
    raise ValueError(k)


def render_file(F):
    """(text of private/aliases or None = no such file, text of private/root_dir.cap or None)."""
    lines = seq(F["lines"])
    if not lines and not F["nl"]:
        body = None
    else:
        body = "\n".join(render_line(l) for l in lines) + ("\n" if F["nl"] else "")
    root = None if F["root"] == "absent" else "\n" if F["root"] == "empty" else cap_text(F["root"]) + "\n"
    return body, root
