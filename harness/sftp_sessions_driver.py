"""C18 through the SFTP frontend: two sessions of one gateway on one directory, one logged in with the directory's
write cap (A), one with its read cap only (B).  Seeded histories interleave A's uploads of new files / in-place updates
of a mutable child (open, write, close) with B's attempts to change the directory (remove, rename, posix-rename, mkdir,
open for writing, setAttrs).  Recorded: one event per request with its status class, and the directory read back
through a fresh node at the end.  Verdicts: spec/frontends/TraceSftpSessions.tla."""
import argparse, json, os, random, shutil, tempfile

from vreactor import vr, settle  # noqa: F401  (must be first)
from twisted.internet import defer
from twisted.python.failure import Failure
from twisted.conch.ssh import filetransfer as ft
from grid import Grid, Hang
from allmydata.frontends import sftpd
from allmydata.immutable import upload
from allmydata.mutable.publish import MutableData
from allmydata.interfaces import SDMF_VERSION, MDMF_VERSION
from allmydata.util.consumer import download_to_data

NAMES = ["new1", "new2", "a", "m", "x"]


class SClient:
    convergence = b"sftp-sessions-convergence"

    def __init__(self, g):
        self.g = g

    def create_node_from_uri(self, writecap, readcap=None):
        return self.g.nodemaker.create_from_cap(writecap, readcap)


def status(r):
    if isinstance(r, Failure):
        if r.check(ft.SFTPError):
            return {ft.FX_PERMISSION_DENIED: "denied", ft.FX_NO_SUCH_FILE: "nofile", ft.FX_FAILURE: "failure",
                    ft.FX_OP_UNSUPPORTED: "unsupported", ft.FX_BAD_MESSAGE: "badmsg"}.get(r.value.code, "code%d" % r.value.code)
        return "raised_" + r.type.__name__
    return "ok"


class Hist:
    def __init__(self, rng, idx, workdir, big_m=False):
        self.rng = rng
        self.big_m = big_m
        sftpd._reload()
        sftpd.SIZE_THRESHOLD = rng.choice([1000, 4])
        self.g = g = Grid(os.path.join(workdir, "h%d" % idx), num_servers=1, k=1, n=1, happy=1, seed=idx)
        nm = g.nodemaker
        self.root = g.run(nm.create_new_mutable_directory())
        self.init = {}
        adata = bytes((7 * j + 3) % 251 for j in range(rng.choice([3, 60])))
        g.run(self.root.add_file("a", upload.Data(adata, SClient.convergence)))
        self.init["a"] = list(adata)
        mdata = bytes((11 * j + 5) % 251 for j in range(rng.choice([9, 14]) if not getattr(self, "big_m", False) else rng.choice([20, 31])))
        self.mnode = g.run(nm.create_mutable_file(MutableData(mdata), version=rng.choice([SDMF_VERSION, MDMF_VERSION])))
        g.run(self.root.set_node("m", self.mnode))
        self.init["m"] = list(mdata)
        ro_root = nm.create_from_cap(self.root.get_readonly_uri())
        self.A = sftpd.SFTPUserHandler(SClient(g), self.root, "alice")
        self.B = sftpd.SFTPUserHandler(SClient(g), ro_root, "bob")
        self.events = []
        self.handles = {}
        self.nh = 0

    def call(self, thunk):
        """issue a request and run the grid until it is answered; -> (status, result)"""
        out = []
        try:
            d = thunk()
        except Exception:
            d = defer.fail(Failure())
        d.addBoth(out.append)
        try:
            for _ in range(200000):
                if out:
                    break
                if not self.g.step():
                    break
        except Hang:
            pass
        settle()
        if not out:
            return "never_answered", None
        return status(out[0]), out[0]

    # ---- session A (write cap) ----
    def a_open(self, name, kind):
        self.nh += 1
        h = self.nh
        flags = ft.FXF_WRITE | ft.FXF_CREAT | (ft.FXF_TRUNC if kind == "new" else ft.FXF_READ)
        st, r = self.call(lambda: self.A.openFile(name.encode(), flags, {}))
        if st == "ok":
            self.handles[h] = r
        self.events.append({"ev": "AOpen", "h": h, "name": name, "kind": kind, "st": st})
        return h if st == "ok" else None

    def a_write(self, h, off, data):
        st, _ = self.call(lambda: self.handles[h].writeChunk(off, bytes(data)))
        self.events.append({"ev": "AWrite", "h": h, "off": off, "data": list(data), "st": st})

    def a_close(self, h):
        st, _ = self.call(lambda: self.handles[h].close())
        self.events.append({"ev": "AClose", "h": h, "st": st})
        del self.handles[h]

    # ---- session B (read cap only) ----
    def b_op(self, op, name, name2="x"):
        B = self.B
        if op == "remove":
            th = lambda: B.removeFile(name.encode())
        elif op == "rename":
            th = lambda: B.renameFile(name.encode(), name2.encode())
        elif op == "posix_rename":
            import struct
            def th():
                a, b = name.encode(), name2.encode()
                return B.extendedRequest(b"posix-rename@openssh.com", struct.pack(">L", len(a)) + a + struct.pack(">L", len(b)) + b)
        elif op == "mkdir":
            th = lambda: B.makeDirectory(name.encode(), {})
        elif op == "rmdir":
            th = lambda: B.removeDirectory(name.encode())
        elif op == "setattrs":
            th = lambda: B.setAttrs(name.encode(), {"permissions": 0o444})
        else:
            def th():
                d = B.openFile(name.encode(), ft.FXF_WRITE | ft.FXF_CREAT | ft.FXF_TRUNC, {})

                def opened(fh):
                    d2 = fh.writeChunk(0, b"written through the read-only session")
                    d2.addCallback(lambda ign: fh.close())
                    return d2
                d.addCallback(opened)
                return d
        st, _ = self.call(th)
        self.events.append({"ev": "BOp", "op": op, "name": name, "name2": name2, "st": st})

    # ---- pipelined requests of session A on one path (family c39): close is sent and the same path opened again at once ----
    def issue(self, thunk):
        out = []
        try:
            d = thunk()
        except Exception:
            d = defer.fail(Failure())
        d.addBoth(out.append)
        return out

    def wait(self, out):
        try:
            for _ in range(200000):
                if out:
                    break
                if not self.g.step():
                    break
        except Hang:
            pass
        settle()
        return status(out[0]) if out else "never_answered"

    def run_pipelined(self):
        """open m, write, send close and - without waiting for its answer - open m again, write, close: requests about one
        file take effect in the order in which they were sent, so the second handle starts from what the first committed"""
        rng = self.rng
        flags = ft.FXF_WRITE | ft.FXF_READ
        ev = self.events
        o1 = self.issue(lambda: self.A.openFile(b"m", flags, {}))
        e_open1 = {"ev": "AOpen", "h": 1, "name": "m", "kind": "mut", "st": self.wait(o1)}
        ev.append(e_open1)
        if e_open1["st"] != "ok":
            self.final()
            return
        h1 = o1[0]
        for _ in range(rng.randint(1, 2)):
            off, data = rng.choice([0, 2, 5]), [rng.randrange(1, 200) for _ in range(rng.randint(1, 4))]
            ev.append({"ev": "AWrite", "h": 1, "off": off, "data": data, "st": self.wait(self.issue(lambda: h1.writeChunk(off, bytes(data))))})
        c1 = self.issue(lambda: h1.close())                      # not waited for
        e_close1 = {"ev": "AClose", "h": 1, "st": "?"}
        ev.append(e_close1)
        o2 = self.issue(lambda: self.A.openFile(b"m", flags, {}))
        e_open2 = {"ev": "AOpen", "h": 2, "name": "m", "kind": "mut", "st": self.wait(o2)}
        ev.append(e_open2)
        e_close1["st"] = self.wait(c1)
        if e_open2["st"] == "ok":
            h2 = o2[0]
            off, data = rng.choice([1, 3, 8, 12]), [rng.randrange(1, 200) for _ in range(rng.randint(1, 4))]
            ev.append({"ev": "AWrite", "h": 2, "off": off, "data": data, "st": self.wait(self.issue(lambda: h2.writeChunk(off, bytes(data))))})
            ev.append({"ev": "AClose", "h": 2, "st": self.wait(self.issue(lambda: h2.close()))})
        self.final()

    def final(self):
        g = self.g
        root = g.make_nodemaker().create_from_cap(self.root.get_uri())
        children = g.run(root.list())
        listing = {}
        for n, (child, md) in children.items():
            if n not in NAMES:
                listing[n] = [-2]
                continue
            try:
                if child.is_mutable():
                    listing[n] = list(g.run(child.download_best_version()))
                else:
                    listing[n] = list(g.run(download_to_data(child)))
            except Exception as ex:
                listing[n] = [-3]
        self.events.append({"ev": "Final", "listing": listing})

    def run(self):
        rng = self.rng
        plan = [("new1", "new"), ("m", "mut")] + ([("new2", "new")] if rng.random() < 0.5 else [])
        rng.shuffle(plan)
        opened = []
        steps = 0
        bops = ["remove", "remove", "rename", "posix_rename", "setattrs", "mkdir", "rmdir", "openw"]
        while (plan or opened) and steps < 40:
            steps += 1
            x = rng.random()
            if plan and (x < 0.3 or not opened):
                name, kind = plan.pop()
                h = self.a_open(name, kind)
                if h is not None:
                    opened.append([h, name, rng.randint(1, 3)])
                continue
            if x < 0.6:
                # the read-only session aims at what A is writing right now, or at something else
                target = rng.choice(opened)[1] if (opened and rng.random() < 0.75) else rng.choice(NAMES)
                self.b_op(rng.choice(bops), target, rng.choice(["x", "new2", "a"]))
                continue
            ent = rng.choice(opened)
            if ent[2] > 0:
                ent[2] -= 1
                self.a_write(ent[0], rng.choice([0, 0, 3, 7, 12]), [rng.randrange(1, 200) for _ in range(rng.randint(1, 6))])
            else:
                self.a_close(ent[0])
                opened.remove(ent)
        for ent in list(opened):
            self.a_close(ent[0])
        self.final()
        return {"consts": {"names": NAMES, "init": self.init, "family": "c18"}, "events": self.events}

    def close(self):
        self.g.close()


def main():
    ap = argparse.ArgumentParser()
    ap.add_argument("--out"); ap.add_argument("--seed", type=int, default=0); ap.add_argument("--tier", default="quick")
    ap.add_argument("--in", dest="inp"); ap.add_argument("--n", type=int, default=40)
    ap.add_argument("--family", default="c18")
    a = ap.parse_args()
    sftpd.noisy = False
    work = tempfile.mkdtemp(prefix="sftpsess")
    traces = []
    try:
        for i in range(a.n):
            if a.family == "c39":
                from allmydata.mutable import publish as _pub
                _pub.DEFAULT_MUTABLE_MAX_SEGMENT_SIZE = 6          # the mutable child has several segments
            h = Hist(random.Random("sftp-sessions-%s-%d-%d" % (a.family, a.seed, i)), i, work, big_m=(a.family == "c39"))
            try:
                if a.family == "c39":
                    h.run_pipelined()
                    traces.append({"consts": {"names": NAMES, "init": h.init, "family": "c39"}, "events": h.events})
                    continue
                traces.append(h.run())
            except Exception as ex:       # an exception of the code under test outside a request: an observation
                h.events.append({"ev": "Crash", "what": "%s: %s" % (type(ex).__name__, str(ex)[:200])})
                traces.append({"consts": {"names": NAMES, "init": h.init, "family": a.family}, "events": h.events})
            finally:
                h.close()
    finally:
        shutil.rmtree(work, ignore_errors=True)
    json.dump(traces, open(a.out, "w"))


if __name__ == "__main__":
    main()
