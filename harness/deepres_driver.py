"""X-deep_check_results driver: the result objects of checking and traversing (allmydata.check_results, deep_stats.DeepStats,
dirnode.ManifestWalker / DeepChecker) and their JSON renderings (allmydata.web.check_results, web.directory) on the real code.

  hist    every GenDeepHistogram case: one immutable file node per size (the size is part of the cap), fed to a real DeepStats
          through add_node(); answer = get_results()["size-files-histogram"]
  agg     seeded sequences of per-object check / check-and-repair results (real CheckResults / CheckAndRepairResults objects)
          pushed through real DeepCheckResults.add_check / DeepCheckAndRepairResults.add_check_and_repair; observed through
          the node API (get_counters, get_all_results, get_corrupt_shares ...) and through the real web renderers
          (DeepCheckResultsRenderer / DeepCheckAndRepairResultsRenderer served by twisted.web, output=JSON)
  stats   seeded graphs (vocabulary of DeepTraverse.tla) of real directories holding file caps of chosen sizes (nothing reads
          the files) on a 1-server grid: start_deep_stats / build_manifest through the node API, t=start-deep-stats,
          t=start-manifest (JSON, text), t=start-deep-size, t=stream-manifest through harness/webgrid.py
  check   small seeded graphs of real directories, real CHK and mutable files (2-of-3 on 4 servers); share files deleted or
          damaged by the harness; start_deep_check / start_deep_check_and_repair through the node API, t=start-deep-check
          [&repair=true] + /operations/$handle?output=JSON, t=stream-deep-check[&repair=true], t=check&output=JSON
  probes  one short trace per input class on which the code is known to deviate from the documented behaviour

Output {"hist": [...], "traces": [...]}; traces are judged by spec/dir/TraceDeepResults.tla.  The driver never decides a
verdict: it executes, maps servers / storage indexes / caps / paths back to the Spec's vocabulary through the tables it
built, and records what the code answered (every exception of the code under test becomes an observation).
"""
from vreactor import vr, settle  # noqa: F401  (must be first)
import argparse, copy, hashlib, json, os, random, shutil, sys, traceback

import dir_driver as dd
from webgrid import WebGrid, q
from treq.testing import StubTreq
from treq import collect
from zope.interface import implementer

from allmydata import uri as uri_mod
from allmydata.interfaces import IDisplayableServer, IDirectoryNode, SDMF_VERSION, MDMF_VERSION
from allmydata.immutable import upload
from allmydata.mutable.publish import MutableData
from allmydata.mutable.layout import unpack_header
from allmydata.util import base32, hashutil
from allmydata.monitor import Monitor
from allmydata.deep_stats import DeepStats
from allmydata.check_results import CheckResults, CheckAndRepairResults, DeepCheckResults, DeepCheckAndRepairResults
from allmydata.web.check_results import DeepCheckResultsRenderer, DeepCheckAndRepairResultsRenderer

MUTABLE_CONTAINER_HEADER = 468       # storage/mutable.py MutableShareFile.DATA_OFFSET
IMMUTABLE_CONTAINER_HEADER = 12      # storage/immutable.py ShareFile: version, unused, number of leases


def text(x):
    return x.decode("utf-8", "replace") if isinstance(x, bytes) else x


def crash_event(e):
    return {"ev": "crash", "what": "%s: %s" % (type(e).__name__, str(e)[:200]),
            "where": traceback.format_exc().strip().splitlines()[-3].strip()[:200]}


# ================================================================ stats dictionaries -> the Spec's record
STAT_KEYS = {"dirs": "count-directories", "files": "count-files", "imm": "count-immutable-files", "lit": "count-literal-files",
             "mut": "count-mutable-files", "unk": "count-unknown", "maxkids": "largest-directory-children",
             "size_imm": "size-immutable-files", "size_lit": "size-literal-files", "size_dirs": "size-directories",
             "largest_dir": "largest-directory", "largest_imm": "largest-immutable-file", "api": "api-version"}


def num(x):
    return x if isinstance(x, int) and not isinstance(x, bool) and -1 <= x < 2 ** 31 else -1


def norm_stats(d):
    out = {k: num(d.get(v, -1)) for k, v in STAT_KEYS.items()} if isinstance(d, dict) else {k: -1 for k in STAT_KEYS}
    rows = d.get("size-files-histogram", []) if isinstance(d, dict) else []
    out["hist"] = [{"lo": num(r[0]), "hi": num(r[1]), "n": num(r[2])} for r in rows if isinstance(r, (list, tuple)) and len(r) == 3]
    out["hist_rows"] = len(rows)
    return out


NO_STATS = norm_stats({})


# ================================================================ hist: GenDeepHistogram cases on a real DeepStats
class _Origin:
    def get_storage_index(self):
        return b"\x00" * 16


def run_hist(cases, nodemaker):
    out = []
    for ci, case in enumerate(cases):
        try:
            ds = DeepStats(_Origin())
            for j, size in enumerate(case["sizes"]):
                # sizes up to 40 bytes alternate between literal and CHK files, larger ones are CHK files
                if size <= 40 and j % 2 == 1:
                    cap = uri_mod.LiteralFileURI(bytes((j + i) & 0xff for i in range(size))).to_string()
                else:
                    cap = uri_mod.CHKFileURI(dd.fake_key(b"hk%d-%d" % (ci, j)), dd.fake_key(b"hu%d-%d" % (ci, j), 32), 3, 10, size).to_string()
                ds.add_node(nodemaker.create_from_cap(cap), ["f%d" % j])
            res = ds.get_results()
            rows = res["size-files-histogram"]
            out.append({"case": ci, "st": "ok", "hist": [{"lo": num(r[0]), "hi": num(r[1]), "n": num(r[2])} for r in rows],
                        "files": num(res["count-files"])})
        except Exception as e:
            out.append({"case": ci, "st": type(e).__name__, "hist": [], "files": -1})
    return out


# ================================================================ agg: synthetic per-object results through the real aggregates
@implementer(IDisplayableServer)
class FakeServer:
    def __init__(self, i):
        self.i = i
        self.serverid = hashutil.tagged_hash(b"deepres-server", b"%d" % i)[:20]

    def get_nickname(self):
        return "srv%d" % self.i

    def get_name(self):
        return text(base32.b2a(self.serverid))[:8]

    def get_longname(self):
        return text(base32.b2a(self.serverid))

    def get_serverid(self):
        return self.serverid


SERVERS = [FakeServer(i) for i in range(4)]


def fetch(resource, path):
    """GET path from a twisted.web resource served in memory -> (code, body)"""
    stub = StubTreq(resource)
    out = []
    d = stub.get("http://127.0.0.1" + path)

    def _got(resp):
        chunks = []
        d2 = collect(resp, chunks.append)
        d2.addCallback(lambda ign: (resp.code, b"".join(chunks)))
        return d2
    d.addCallback(_got)
    d.addBoth(out.append)
    for _ in range(200):
        stub.flush()
        settle()
        vr.advance(0.001)
        if out:
            break
    if not out:
        raise RuntimeError("no answer from the renderer")
    if not isinstance(out[0], tuple):
        return 0, repr(out[0]).encode()
    return out[0]


def rand_hr(rng, maxnc=2):
    h, r = rng.choice([(True, True), (False, True), (False, False)])
    return {"h": h, "r": r, "nc": rng.choice([0, 0, 1, maxnc])}


def rand_rec(rng, wellformed):
    if rng.random() < 0.15:
        fine = {"h": True, "r": True, "nc": 0}
        return {"lit": True, "pre": fine, "att": False, "succ": False, "post": dict(fine)}
    pre = rand_hr(rng)
    if wellformed:
        att = (not pre["h"]) and rng.random() < 0.75
        post = rand_hr(rng) if att else dict(pre)
        if att and rng.random() < 0.5:
            post = {"h": True, "r": True, "nc": rng.choice([0, pre["nc"]])}
        succ = att and post["h"]
    else:
        att, succ, post = rng.random() < 0.5, rng.random() < 0.5, rand_hr(rng)
    return {"lit": False, "pre": pre, "att": att, "succ": succ, "post": post}


class AggCase:
    """one sequence of records pushed through the real classes"""
    def __init__(self, idx, recs, repair):
        self.idx, self.recs, self.repair = idx, recs, repair
        self.root_si = hashutil.tagged_hash(b"deepres-root", b"%d" % idx)[:16]
        self.loc = {}        # (longname, base32 si, shnum) -> {"i": record number, "k": ordinal, "post": bool}

    def si(self, i):
        return hashutil.tagged_hash(b"deepres-si", b"%d-%d" % (self.idx, i))[:16]

    def make_cr(self, i, hr, post):
        si = self.si(i)
        u = uri_mod.CHKFileURI(dd.fake_key(b"ak%d-%d" % (self.idx, i)), dd.fake_key(b"au%d-%d" % (self.idx, i), 32), 2, 3, 100 + i)
        good = 3 if hr["h"] else (2 if hr["r"] else 1)
        corrupt = []
        for kk in range(hr["nc"]):
            # post-repair results name other shares than pre-repair results (shnum 10+): the two lists are told apart
            srv, shnum = SERVERS[(i + kk) % 4], kk + (10 if post else 0)
            corrupt.append((srv, si, shnum))
            self.loc[(text(srv.get_longname()), text(base32.b2a(si)), shnum)] = {"i": i, "k": kk + 1, "post": post}
        return CheckResults(u, si, healthy=hr["h"], recoverable=hr["r"], count_happiness=good, count_shares_needed=2,
                            count_shares_expected=3, count_shares_good=good, count_good_share_hosts=good,
                            count_recoverable_versions=1 if hr["r"] else 0, count_unrecoverable_versions=0 if hr["r"] else 1,
                            servers_responding=list(SERVERS), sharemap={}, count_wrong_shares=0, list_corrupt_shares=corrupt,
                            count_corrupt_shares=len(corrupt), list_incompatible_shares=[], count_incompatible_shares=0,
                            summary="", report=[], share_problems=[], servermap=None)

    def locs(self, lst):
        out = []
        for x in lst:
            key = (text(x[0]), text(x[1]), x[2])
            m = self.loc.get(key)
            out.append({"i": m["i"], "k": m["k"], "post": m["post"]} if m else {"i": 0, "k": 0, "post": False})
        return out

    def entry(self, ent):
        """one (path, check-results) entry of list-unhealthy-files"""
        path, cr = ent
        res = cr.get("results", {}) if isinstance(cr, dict) else {}
        return {"path": [int(p[1:]) for p in path], "h": res.get("healthy") is True, "r": res.get("recoverable") is True,
                "nc": num(res.get("count-corrupt-shares", -1)), "listed": len(res.get("list-corrupt-shares", []))}

    def run(self):
        stats_in = {"count-files": 7 + self.idx, "marker": "stats-%d" % self.idx}
        agg = (DeepCheckAndRepairResults if self.repair else DeepCheckResults)(self.root_si)
        objs = {}
        for i, rec in enumerate(self.recs, 1):
            path = ["p%d" % i]
            if rec["lit"]:
                (agg.add_check_and_repair if self.repair else agg.add_check)(None, path)
                continue
            pre = self.make_cr(i, rec["pre"], False)
            if not self.repair:
                agg.add_check(pre, path)
                objs[i] = pre
                continue
            crr = CheckAndRepairResults(self.si(i))
            crr.pre_repair_results = pre
            same = (not rec["att"]) and rec["post"] == rec["pre"]
            crr.post_repair_results = pre if same else self.make_cr(i, rec["post"], True)
            crr.repair_attempted = rec["att"]
            crr.repair_successful = rec["succ"]
            agg.add_check_and_repair(crr, path)
            objs[i] = crr
        agg.update_stats(stats_in)
        c = agg.get_counters()
        g = lambda k: num(c.get(k, -1))
        api = {"paths": sorted([int(p[1:]) for p in path] for path in agg.get_all_results().keys()),
               "corrupt": self.locs([(s.get_longname(), base32.b2a(si), n) for (s, si, n) in agg.get_corrupt_shares()]),
               "by_si_ok": all(agg.get_results_for_storage_index(self.si(i)) is o for i, o in objs.items()),
               "root_ok": agg.get_root_storage_index_string() == base32.b2a(self.root_si),
               "stats_ok": agg.get_stats() == stats_in, "remaining": []}
        if self.repair:
            api["c"] = {"checked": g("count-objects-checked"), "healthy_pre": g("count-objects-healthy-pre-repair"),
                        "unhealthy_pre": g("count-objects-unhealthy-pre-repair"), "unrec_pre": g("count-objects-unrecoverable-pre-repair"),
                        "healthy_post": g("count-objects-healthy-post-repair"), "unhealthy_post": g("count-objects-unhealthy-post-repair"),
                        "unrec_post": g("count-objects-unrecoverable-post-repair"), "att": g("count-repairs-attempted"),
                        "succ": g("count-repairs-successful"), "unsucc": g("count-repairs-unsuccessful"),
                        "ncorrupt_pre": g("count-corrupt-shares-pre-repair"), "ncorrupt_post": g("count-corrupt-shares-post-repair")}
            api["remaining"] = self.locs([(s.get_longname(), base32.b2a(si), n) for (s, si, n) in agg.get_remaining_corrupt_shares()])
        else:
            api["c"] = {"checked": g("count-objects-checked"), "healthy": g("count-objects-healthy"),
                        "unhealthy": g("count-objects-unhealthy"), "unrec": g("count-objects-unrecoverable"),
                        "ncorrupt": g("count-corrupt-shares")}
        # the web rendering of the same object
        mon = Monitor()
        mon.set_status(agg)
        mon.finish(agg)
        renderer = (DeepCheckAndRepairResultsRenderer if self.repair else DeepCheckResultsRenderer)(None, mon)
        code, body = fetch(renderer, "/?output=JSON")
        web = {"code": code, "finished": False, "root_ok": False, "stats_ok": False, "corrupt": [], "remaining": [], "unhealthy": [],
               "c": {k: -1 for k in api["c"]}}
        if code == 200:
            j = json.loads(body)
            jg = lambda k: num(j.get(k, -1))
            web["finished"] = j.get("finished") is True
            web["root_ok"] = j.get("root-storage-index") == base32.b2a(self.root_si).decode()
            web["stats_ok"] = j.get("stats") == stats_in
            web["corrupt"] = self.locs(j.get("list-corrupt-shares", []))
            web["unhealthy"] = [self.entry(x) for x in j.get("list-unhealthy-files", [])]
            if self.repair:
                web["remaining"] = self.locs(j.get("list-remaining-corrupt-shares", []))
                web["c"] = {"checked": jg("count-objects-checked"), "healthy_pre": jg("count-objects-healthy-pre-repair"),
                            "unhealthy_pre": jg("count-objects-unhealthy-pre-repair"), "unrec_pre": -1,
                            "healthy_post": jg("count-objects-healthy-post-repair"), "unhealthy_post": jg("count-objects-unhealthy-post-repair"),
                            "unrec_post": -1, "att": jg("count-repairs-attempted"), "succ": jg("count-repairs-successful"),
                            "unsucc": jg("count-repairs-unsuccessful"), "ncorrupt_pre": jg("count-corrupt-shares-pre-repair"),
                            "ncorrupt_post": jg("count-corrupt-shares-post-repair")}
            else:
                web["c"] = {"checked": jg("count-objects-checked"), "healthy": jg("count-objects-healthy"),
                            "unhealthy": jg("count-objects-unhealthy"), "unrec": -1, "ncorrupt": jg("count-corrupt-shares")}
        # the documents of t=check / t=check&repair=true for every distributed object (the same functions render the stream units)
        docs = []
        hr_of = lambda cr: {"h": cr.get("results", {}).get("healthy") is True, "r": cr.get("results", {}).get("recoverable") is True,
                            "nc": num(cr.get("results", {}).get("count-corrupt-shares", -1)),
                            "listed": len(cr.get("results", {}).get("list-corrupt-shares", []))}
        blank = {"h": True, "r": True, "nc": 0, "listed": 0}
        for i, rec in enumerate(self.recs, 1):
            if rec["lit"]:
                continue
            # webapi.rst: "Detailed check results for non-healthy files and directories will be available under
            # /operations/$HANDLE/$STORAGEINDEX"
            code, body = fetch(renderer, "/%s?output=JSON" % base32.b2a(self.si(i)).decode())
            doc = {"i": i, "code": code, "lit": False, "si_ok": False, "att": False, "succ": False, "pre": dict(blank), "post": dict(blank)}
            if code == 200:
                j = json.loads(body)
                doc["lit"] = j.get("storage-index") == ""
                doc["si_ok"] = doc["lit"] or j.get("storage-index") == base32.b2a(self.si(i)).decode()
                if self.repair:
                    doc["att"] = j.get("repair-attempted") is True
                    doc["succ"] = j.get("repair-successful") is True
                    if not doc["lit"]:
                        doc["pre"], doc["post"] = hr_of(j.get("pre-repair-results", {})), hr_of(j.get("post-repair-results", {}))
                elif doc["lit"]:
                    doc["pre"] = dict(blank, h=j.get("results", {}).get("healthy") is True)
                    doc["post"] = dict(doc["pre"])
                else:
                    doc["pre"] = hr_of(j)
                    doc["post"] = dict(doc["pre"])
            docs.append(doc)
        L = [dict(r, path=[i]) for i, r in enumerate(self.recs, 1)]
        return {"ev": "agg", "repair": self.repair, "L": L, "api": api, "web": web, "docs": docs}


TRIVIAL_GRAPH = {"type": {"o1": "dir"}, "kids": {"o1": []}, "root": "o1", "K": 2, "N": 3}


def run_agg(n, rng):
    traces = []
    for idx in range(n):
        repair = idx % 3 != 0
        wellformed = idx % 2 == 0
        recs = [rand_rec(rng, wellformed) for _ in range(rng.choice([0, 1, 2, 3, 5, 8, 12]))]
        try:
            ev = AggCase(idx, recs, repair).run()
        except Exception as e:
            ev = crash_event(e)
        traces.append({"consts": dict(TRIVIAL_GRAPH), "events": [ev], "src": "agg", "family": "agg"})
    return traces


# ================================================================ graphs of real objects
def strip_alias(graph):
    """dir_driver.seeded_graph can link the backing file of a directory as a plain file (same shares, other verify-cap):
    that is C21's subject; here an object is its shares, so these objects are dropped"""
    for o in list(graph.get("alias", {})):
        graph["type"].pop(o)
        graph["kids"].pop(o)
        for ks in graph["kids"].values():
            ks[:] = [k for k in ks if k["to"] != o]
    graph["alias"] = {}
    return graph


def sizes_pool():
    """sizes at and around the histogram boundaries up to 10^9 (documented: 1, 3, 10, 31, 100, 316, ...)"""
    ups, p = [0], 1
    digits = [3, 31, 316, 3162, 31622, 316227, 3162277, 31622776, 316227766]
    for m in range(9):
        ups += [digits[m], p * 10]
        p *= 10
    pool = set()
    for u in ups:
        pool.update(x for x in (u - 1, u, u + 1, u + 2) if 0 <= x <= 10 ** 9)
    return sorted(pool)


POOL = sizes_pool()


class World:
    """one graph built from real objects on the WebGrid `w`; `real`: CHK and mutable files really exist"""
    def __init__(self, w, graph, rng, tag, real, K, N):
        self.w, self.g, self.c, self.nm = w, w.g, w.client, w.client.nodemaker
        self.graph, self.real, self.K, self.N = graph, real, K, N
        self.rng = rng
        types = graph["type"]
        self.caps, self.back, self.si, self.fsize = {}, {}, {}, {}
        self.flipped = {}            # share file path -> sha256 of the damaged file
        self.reader = self.g.make_nodemaker()        # the harness's own eyes (sizes of directories)
        g = self.g
        budget = 2 * 10 ** 9 - 10 ** 6
        pending = [o for o in types if types[o] in ("idir", "litdir")]
        in_litdir = {x["to"] for o in types if types[o] == "litdir" for x in graph["kids"][o]}
        fk = lambda o, t, n=16: dd.fake_key(b"%s-%s-%s" % (tag, o.encode(), t), n)
        for o, t in types.items():
            if t == "dir":
                node = g.run(self.nm.create_new_mutable_directory(version=rng.choice([SDMF_VERSION, MDMF_VERSION])))
                self.caps[o] = {"w": node.get_uri(), "r": node.get_readonly_uri()}
                self.si[o] = node.get_storage_index()
            elif t == "mfile" and real:
                node = g.run(self.c.create_mutable_file(MutableData(b"mutable file %s %s " % (tag, o.encode()) * rng.choice([1, 4])),
                                                        version=rng.choice([SDMF_VERSION, MDMF_VERSION])))
                self.caps[o] = {"w": node.get_uri(), "r": node.get_readonly_uri()}
                self.si[o] = node.get_storage_index()
            elif t == "mfile":
                wc = rng.choice([uri_mod.WriteableSSKFileURI, uri_mod.WriteableMDMFFileURI])(fk(o, b"wk"), fk(o, b"fp", 32))
                self.caps[o] = {"w": wc.to_string(), "r": wc.get_readonly().to_string()}
            elif t == "file" and real:
                size = rng.choice([56, 57, 100, 101, 150, 316, 317, 400])
                data = (b"immutable file %s %s / " % (tag, o.encode()) * 30)[:size]
                res = g.run(self.c.upload(upload.Data(data, convergence=b"deepres")))
                self.caps[o] = {"w": None, "r": res.get_uri()}
                self.si[o] = uri_mod.from_string(res.get_uri()).get_storage_index()
                self.fsize[o] = size
            elif t == "file":
                size = rng.choice(POOL)
                if size > budget:
                    size = rng.choice([x for x in POOL if x <= 1001])
                budget -= size
                self.caps[o] = {"w": None, "r": uri_mod.CHKFileURI(fk(o, b"k"), fk(o, b"u", 32), 3, 10, size).to_string()}
                self.fsize[o] = size
            elif t == "lit":
                # (a literal file held by a literal directory stays tiny, or the directory would not be a literal one)
                want = 0 if o in in_litdir else rng.choice([3, 4, 5, 10, 11, 12, 31, 32, 33, 40])
                data = (b"L" + o.encode() + b"." * 40)[:max(len(o) + 1, want)]
                self.caps[o] = {"w": None, "r": uri_mod.LiteralFileURI(data).to_string()}
                self.fsize[o] = len(data)
            elif t == "unk":
                self.caps[o] = {"w": None, "r": b"ro.x-tahoe-future-cap:" + o.encode()}
        while pending:
            progress = False
            for o in list(pending):
                ks = graph["kids"][o]
                if all(x["to"] in self.caps for x in ks):
                    children = {dd.gname(x["name"]): (self.nm.create_from_cap(None, self.caps[x["to"]]["r"]), {}) for x in ks}
                    if types[o] == "idir":      # pad the contents beyond the literal threshold, with a unique tag
                        children["pad"] = (self.nm.create_from_cap(None, uri_mod.LiteralFileURI(b"pad" + o.encode()).to_string()),
                                           {"pad": "x" * 60, "tag": tag.decode()})
                    node = g.run(self.nm.create_immutable_directory(children))
                    kind = node.get_uri().split(b":")[1]
                    if kind != (b"DIR2-CHK" if types[o] == "idir" else b"DIR2-LIT"):
                        raise RuntimeError("object %s came out as %r" % (o, kind))
                    self.caps[o] = {"w": None, "r": node.get_uri()}
                    if types[o] == "idir":
                        self.si[o] = node.get_storage_index()
                    pending.remove(o)
                    progress = True
            if not progress:
                raise RuntimeError("cyclic immutable directories in the graph")
        for o, c in self.caps.items():
            if c["w"]:
                self.back[c["w"]] = (o, "w")
            self.back.setdefault(c["r"], (o, "r"))
        for o, t in types.items():
            if t == "dir" and graph["kids"][o]:
                ents = {}
                for x in graph["kids"][o]:
                    c = self.caps[x["to"]]
                    ents[dd.gname(x["name"])] = (c["w"], c["r"]) if x["lvl"] == "w" else (None, c["r"])
                g.run(self.nm.create_from_cap(self.caps[o]["w"]).set_children(ents))
        n = len(types)
        for o in [x for x, t in list(types.items()) if t == "idir"]:
            n += 1
            po = "p%d" % n
            types[po] = "lit"
            graph["kids"][po] = []
            graph["kids"][o].append({"name": 99, "to": po, "lvl": "r"})
            cap = uri_mod.LiteralFileURI(b"pad" + o.encode()).to_string()
            self.caps[po] = {"w": None, "r": cap}
            self.back[cap] = (po, "r")
            self.fsize[po] = len(b"pad" + o.encode())
        self.si_back = {base32.b2a(si).decode(): o for o, si in self.si.items()}
        self.srv_back = {text(s.get_longname()): name for name, s in self.g.servers.items()}
        self.distributed = sorted(o for o in self.si if real or types[o] in ("dir", "idir"))

    # ---- the Spec's constants
    def consts(self):
        return {"type": self.graph["type"], "kids": self.graph["kids"], "root": self.graph["root"], "K": self.K, "N": self.N}

    # ---- ground truth: what is on the servers' disks
    def truth(self, after):
        T = {}
        for o in self.distributed:
            good, badn, bad = set(), set(), []
            for srv, d in sorted(self.g.shares(self.si[o]).items()):
                for shnum, p in sorted(d.items()):
                    with open(p, "rb") as f:
                        dig = hashlib.sha256(f.read()).hexdigest()
                    if self.flipped.get(p) == dig:
                        bad.append({"srv": srv, "sh": shnum})
                        badn.add(shnum)
                    else:
                        good.add(shnum)
            T[o] = {"gn": len(good), "bn": len(badn - good), "bad": bad}
        size = {}
        for o, t in self.graph["type"].items():
            if t in ("dir", "idir", "litdir"):
                fcap = uri_mod.from_string(self.caps[o]["r"]).get_filenode_cap().to_string()
                data = self.g.run(self.reader.create_from_cap(fcap).download_best_version())
                size[o] = len(data)
            else:
                size[o] = self.fsize.get(o, 0)
        return {"ev": "truth", "after": after, "T": T, "size": size}

    def share_files(self, o):
        return [(srv, shnum, p) for srv, d in sorted(self.g.shares(self.si[o]).items()) for shnum, p in sorted(d.items())]

    def delete_shares(self, o, n):
        files = [x for x in self.share_files(o) if x[2] not in self.flipped]
        self.rng.shuffle(files)
        for srv, shnum, p in files[:n]:
            os.remove(p)

    def corrupt_share(self, o):
        """flip one bit of the block data of one intact share file of o (only a verifying check reads it)"""
        files = [x for x in self.share_files(o) if x[2] not in self.flipped]
        if not files:
            return
        srv, shnum, p = self.rng.choice(files)
        with open(p, "rb") as f:
            raw = bytearray(f.read())
        if self.graph["type"][o] in ("file", "idir"):
            from allmydata.immutable.layout import ReadBucketProxy
            rbp = ReadBucketProxy(None, None, b"")
            body = bytes(raw[IMMUTABLE_CONTAINER_HEADER:])
            offs = dict(rbp._parse_offsets(body[:0x44]))
            a, b = IMMUTABLE_CONTAINER_HEADER + offs["data"], IMMUTABLE_CONTAINER_HEADER + offs["plaintext_hash_tree"]
        else:
            data = bytes(raw[MUTABLE_CONTAINER_HEADER:])
            if data[0] == 0:          # SDMF: the block lies between the offsets share_data and enc_privkey
                o_ = unpack_header(data)[-1]
                a, b = MUTABLE_CONTAINER_HEADER + o_["share_data"], MUTABLE_CONTAINER_HEADER + o_["enc_privkey"]
            else:                     # MDMF: offsets share_data / block_hash_tree of the header; the 16-byte salt of segment 0 is skipped
                import struct
                o_sd, o_bht = struct.unpack(">QQ", data[99:115])
                a, b = MUTABLE_CONTAINER_HEADER + o_sd + 16, MUTABLE_CONTAINER_HEADER + min(o_bht, o_sd + 16 + 4)
        if b <= a:
            return          # an empty object has no block data: nothing a verifying check would have to read
        pos = self.rng.randrange(a, b)
        raw[pos] ^= 1 << self.rng.randrange(8)
        with open(p, "wb") as f:
            f.write(bytes(raw))
        self.flipped[p] = hashlib.sha256(bytes(raw)).hexdigest()

    # ---- helpers for the observations
    def rootnode(self, via):
        c = self.caps[self.graph["root"]]
        return self.c.create_node_from_uri(c["w"] if via == "w" else None, None if via == "w" else c["r"])

    def rootcap(self, via):
        c = self.caps[self.graph["root"]]
        return (c["w"] if via == "w" else c["r"]).decode()

    def name_int(self, s):
        return 99 if s == "pad" else int(s)

    def path_int(self, path):
        try:
            return [self.name_int(p) for p in path]
        except ValueError:
            return [0]

    def obj_of_cap(self, cap):
        if isinstance(cap, str):
            cap = cap.encode()
        return self.back.get(cap, ("?" + repr(cap)[:40], "?"))

    def locs(self, lst):
        out = []
        for x in lst:
            out.append({"obj": self.si_back.get(text(x[1]), "?"), "srv": self.srv_back.get(text(x[0]), "?"), "sh": num(x[2])})
        return out

    def operation(self, via, t, handle, args=""):
        """start a slow operation through the web API and let it run to its end"""
        r = self.w.request("POST", "/uri/%s?t=%s&ophandle=%s%s" % (q(self.rootcap(via)), t, handle, args))
        if r.code not in (200, 302, 303):
            raise RuntimeError("start %s answered %d %r" % (t, r.code, r.body[:200]))
        self.g.drain(max_timer=1.0)

    # ---- check-results -> the Spec's record
    @staticmethod
    def cr_json(cr):
        """the dictionary of t=check&output=JSON -> [h, r, nc, good, k, n]"""
        res = cr.get("results", {}) if isinstance(cr, dict) else {}
        return {"h": res.get("healthy") is True, "r": res.get("recoverable") is True, "nc": num(res.get("count-corrupt-shares", -1)),
                "good": num(res.get("count-shares-good", -1)), "k": num(res.get("count-shares-needed", -1)),
                "n": num(res.get("count-shares-expected", -1)), "listed": len(res.get("list-corrupt-shares", []))}

    @staticmethod
    def cr_obj(cr):
        return {"h": bool(cr.is_healthy()), "r": bool(cr.is_recoverable()), "nc": len(cr.get_corrupt_shares()),
                "good": num(cr.get_share_counter_good()), "k": num(cr.get_encoding_needed()), "n": num(cr.get_encoding_expected()),
                "listed": len(cr.get_corrupt_shares())}

    NOREC = {"h": True, "r": True, "nc": 0, "good": 0, "k": 0, "n": 0, "listed": 0}

    # ---- observations: deep-stats, manifest, deep-size
    def obs_stats(self, via, route, handle):
        e = {"ev": "stats", "via": via, "route": route, "st": "ok", "finished": True, "stats": NO_STATS}
        try:
            if route == "api":
                e["stats"] = norm_stats(self.g.run(self.rootnode(via).start_deep_stats().when_done()))
            else:
                self.operation(via, "start-deep-stats", handle)
                r = self.w.request("GET", "/operations/%s?output=JSON" % handle)
                j = json.loads(r.body)
                e["finished"] = j.get("finished") is True
                e["stats"] = norm_stats(j)
        except Exception as ex:
            e["st"] = type(ex).__name__
        return e

    def obs_deepsize(self, via, handle):
        e = {"ev": "deepsize", "via": via, "st": "ok", "finished": False, "size": -1}
        try:
            self.operation(via, "start-deep-size", handle)
            r = self.w.request("GET", "/operations/%s?output=text" % handle)
            lines = r.body.decode().split("\n")
            e["finished"] = lines[0] == "finished: yes"
            for ln in lines[1:]:
                if ln.startswith("size: "):
                    e["size"] = num(int(ln[6:]))
        except Exception as ex:
            e["st"] = type(ex).__name__
        return e

    def vis_of(self, pairs):
        vis = []
        for path, cap in pairs:
            obj, lvl = self.obj_of_cap(cap)
            vis.append({"path": self.path_int(path), "obj": obj, "lvl": lvl, "type": "", "vc": False, "rc": False, "rck": "", "si": False})
        return vis

    def obs_manifest(self, via, route, handle):
        e = {"ev": "manifest", "via": via, "route": route, "st": "ok", "finished": True, "origin_ok": True, "vis": [], "nvc": -1, "nsi": -1,
             "has_counts": False, "has_stats": False, "has_units": False, "stats": NO_STATS, "keys": []}
        root_si = base32.b2a(self.si[self.graph["root"]]).decode()
        try:
            if route == "api":
                res = self.g.run(self.rootnode(via).build_manifest().when_done())
                e["vis"] = self.vis_of(res["manifest"])
                e.update({"nvc": len(res["verifycaps"]), "nsi": len(res["storage-index"]), "has_counts": True, "has_stats": True,
                          "stats": norm_stats(res["stats"])})
            elif route == "web_json":
                self.operation(via, "start-manifest", handle)
                j = json.loads(self.w.request("GET", "/operations/%s?output=JSON" % handle).body)
                e["keys"] = sorted(j.keys())
                e["finished"] = j.get("finished") is True
                e["origin_ok"] = j.get("origin_si", j.get("origin")) == root_si
                e["vis"] = self.vis_of(j.get("manifest", []))
                e.update({"nvc": len(set(j.get("verifycaps", []))), "nsi": len(set(j.get("storage-index", []))), "has_counts": True,
                          "has_stats": True, "stats": norm_stats(j.get("stats"))})
            elif route == "web_text":
                self.operation(via, "start-manifest", handle)
                lines = self.w.request("GET", "/operations/%s?output=text" % handle).body.decode().split("\n")
                e["finished"] = lines[0] == "finished: yes"
                pairs = []
                for ln in lines[1:]:
                    if ln:
                        p, _, cap = ln.rpartition(" ")
                        pairs.append((p.split("/") if p else [], cap))
                e["vis"] = self.vis_of(pairs)
            elif route == "stream":
                r = self.w.request("POST", "/uri/%s?t=stream-manifest" % q(self.rootcap(via)))
                units = [json.loads(ln) for ln in r.body.decode().split("\n") if ln.strip()]
                e["has_units"] = True
                for u in units:
                    if u.get("type") == "stats":
                        e["has_stats"] = True
                        e["stats"] = norm_stats(u.get("stats"))
                        continue
                    obj, lvl = self.obj_of_cap(u.get("cap", ""))
                    rc = u.get("repaircap") or ""
                    caps = self.caps.get(obj, {})
                    rck = ("none" if not rc else "w" if caps.get("w") and rc.encode() == caps["w"] else
                           "v" if rc == u.get("verifycap") else "r" if rc.encode() == caps.get("r") else "other")
                    e["vis"].append({"path": self.path_int(u.get("path", ["?"])), "obj": obj, "lvl": lvl, "type": u.get("type", ""),
                                     "vc": bool(u.get("verifycap")), "rc": bool(rc), "rck": rck, "si": bool(u.get("storage-index"))})
            else:
                raise ValueError(route)
        except Exception as ex:
            e["st"] = type(ex).__name__
        return e

    # ---- observations: deep-check
    def blank_check(self, ev, via, verify, route):
        return {"ev": ev, "via": via, "verify": verify, "route": route, "st": "ok", "what": "", "finished": True, "root_ok": True,
                "has_counters": False, "has_unrec": False, "has_results": False, "has_unhealthy": False, "has_corrupt": False,
                "has_stats": False, "nunits": -1, "c": {}, "results": [], "unhealthy": [], "corrupt": [], "remaining": [], "stats": NO_STATS}

    CKEYS = {"checked": "count-objects-checked", "healthy": "count-objects-healthy", "unhealthy": "count-objects-unhealthy",
             "unrec": "count-objects-unrecoverable", "ncorrupt": "count-corrupt-shares"}
    RKEYS = {"checked": "count-objects-checked", "healthy_pre": "count-objects-healthy-pre-repair",
             "unhealthy_pre": "count-objects-unhealthy-pre-repair", "unrec_pre": "count-objects-unrecoverable-pre-repair",
             "healthy_post": "count-objects-healthy-post-repair", "unhealthy_post": "count-objects-unhealthy-post-repair",
             "unrec_post": "count-objects-unrecoverable-post-repair", "att": "count-repairs-attempted",
             "succ": "count-repairs-successful", "unsucc": "count-repairs-unsuccessful",
             "ncorrupt_pre": "count-corrupt-shares-pre-repair", "ncorrupt_post": "count-corrupt-shares-post-repair"}

    def obs_deepcheck(self, via, verify, route, handle, repair=False):
        e = self.blank_check("deeprepair" if repair else "deepcheck", via, verify, route)
        keys = self.RKEYS if repair else self.CKEYS
        e["c"] = {k: -1 for k in keys}
        root_si = base32.b2a(self.si[self.graph["root"]])
        vq = ("&verify=true" if verify else "") + ("&repair=true" if repair else "")
        try:
            if route == "api":
                root = self.rootnode(via)
                mon = root.start_deep_check_and_repair(verify=verify) if repair else root.start_deep_check(verify=verify)
                res = self.g.run(mon.when_done())
                c = res.get_counters()
                e["c"] = {k: num(c.get(v, -1)) for k, v in keys.items()}
                e.update({"has_counters": True, "has_unrec": True, "has_results": True, "has_corrupt": True, "has_stats": True})
                e["root_ok"] = res.get_root_storage_index_string() == root_si
                for path, r in sorted(res.get_all_results().items()):
                    obj = self.si_back.get(base32.b2a(r.get_storage_index()).decode(), "?")
                    if repair:
                        e["results"].append({"path": self.path_int(path), "obj": obj, "pre": self.cr_obj(r.get_pre_repair_results()),
                                             "att": bool(r.get_repair_attempted()), "succ": bool(r.get_repair_successful()),
                                             "post": self.cr_obj(r.get_post_repair_results())})
                    else:
                        e["results"].append(dict(self.cr_obj(r), path=self.path_int(path), obj=obj))
                e["corrupt"] = self.locs([(s.get_longname(), base32.b2a(si), n) for (s, si, n) in res.get_corrupt_shares()])
                if repair:
                    e["remaining"] = self.locs([(s.get_longname(), base32.b2a(si), n) for (s, si, n) in res.get_remaining_corrupt_shares()])
                e["stats"] = norm_stats(res.get_stats())
            elif route == "web":
                self.operation(via, "start-deep-check", handle, vq + "&output=JSON")
                r = self.w.request("GET", "/operations/%s?output=JSON" % handle)
                if r.code != 200:
                    e["st"], e["what"] = "http%d" % r.code, r.body.decode("utf-8", "replace")[:300]
                    return e
                j = json.loads(r.body)
                e["finished"] = j.get("finished") is True
                e["root_ok"] = j.get("root-storage-index") == root_si.decode()
                e["c"] = {k: num(j.get(v, -1)) for k, v in keys.items()}
                e.update({"has_counters": True, "has_unhealthy": True, "has_corrupt": True, "has_stats": True})
                for path, cr in j.get("list-unhealthy-files", []):
                    si = cr.get("storage-index", "") if isinstance(cr, dict) else ""
                    e["unhealthy"].append(dict(self.cr_json(cr), path=self.path_int(path), obj=self.si_back.get(si, "?")))
                e["corrupt"] = self.locs(j.get("list-corrupt-shares", []))
                e["remaining"] = self.locs(j.get("list-remaining-corrupt-shares", []))
                e["stats"] = norm_stats(j.get("stats"))
            elif route == "stream":
                r = self.w.request("POST", "/uri/%s?t=stream-deep-check%s" % (q(self.rootcap(via)), vq))
                e["has_results"] = True
                e["nunits"] = 0
                for ln in r.body.decode("utf-8", "replace").split("\n"):
                    if not ln.strip():
                        continue
                    if ln.startswith("ERROR:"):
                        e["st"], e["what"] = "stream-error", ln[:300]
                        break
                    u = json.loads(ln)
                    if u.get("type") == "stats":
                        e["has_stats"] = True
                        e["stats"] = norm_stats(u.get("stats"))
                        continue
                    e["nunits"] += 1
                    if not u.get("storage-index"):
                        continue
                    obj = self.si_back.get(u["storage-index"], "?")
                    if repair:
                        cr = u.get("check-and-repair-results", {})
                        e["results"].append({"path": self.path_int(u.get("path", ["?"])), "obj": obj, "pre": self.cr_json(cr.get("pre-repair-results")),
                                             "att": cr.get("repair-attempted") is True, "succ": cr.get("repair-successful") is True,
                                             "post": self.cr_json(cr.get("post-repair-results"))})
                    else:
                        e["results"].append(dict(self.cr_json(u.get("check-results")), path=self.path_int(u.get("path", ["?"])), obj=obj))
            else:
                raise ValueError(route)
        except Exception as ex:
            e["st"], e["what"] = type(ex).__name__, str(ex)[:300]
        return e

    def obs_webcheck(self, o, lvl, verify):
        c = self.caps[o]
        cap = c["w"] if (lvl == "w" and c["w"]) else c["r"]
        e = {"ev": "webcheck", "obj": o, "lvl": lvl, "verify": verify, "st": "ok", "lit": False, "si_ok": True, "rec": dict(self.NOREC)}
        try:
            r = self.w.request("POST", "/uri/%s?t=check&output=JSON%s" % (q(cap.decode()), "&verify=true" if verify else ""))
            if r.code != 200:
                e["st"] = "http%d" % r.code
                return e
            j = json.loads(r.body)
            e["lit"] = j.get("storage-index") == "" and set(j.get("results", {}).keys()) == {"healthy"}
            if not e["lit"]:
                e["si_ok"] = self.si_back.get(j.get("storage-index", ""), "?") == o
                e["rec"] = self.cr_json(j)
            else:
                e["rec"] = dict(self.NOREC, h=j["results"]["healthy"] is True)
        except Exception as ex:
            e["st"] = type(ex).__name__
        return e


# ---------------------------------------------------------------- scenario scripts (inputs only)
def stats_trace(idx, rng, seed, workdir):
    graph = strip_alias(dd.seeded_graph(rng, rng.choice([5, 8, 12, 16, 24])))
    w = WebGrid(workdir=workdir, num_servers=1, k=1, n=1, happy=1, seed=seed)
    events = []
    try:
        world = World(w, graph, rng, b"s%d" % idx, real=False, K=1, N=1)
        consts = world.consts()
        events.append(world.truth("build"))
        menu = [("stats", "api"), ("stats", "web"), ("manifest", "api"), ("manifest", "web_json"), ("manifest", "web_text"),
                ("manifest", "stream"), ("deepsize", "")]
        picks = [menu[(idx + j * 4) % len(menu)] for j in range(3)] + [rng.choice(menu)]
        for n_, (what, route) in enumerate(picks):
            via = "w" if rng.random() < 0.7 else "r"
            h = "s%d-%d" % (idx, n_)
            if what == "stats":
                events.append(world.obs_stats(via, route, h))
            elif what == "manifest":
                events.append(world.obs_manifest(via, route, h))
            else:
                events.append(world.obs_deepsize(via, h))
    except Exception as e:
        events.append(crash_event(e))
        consts = {"type": graph["type"], "kids": graph["kids"], "root": "o1", "K": 1, "N": 1}
    finally:
        w.close()
    return {"consts": consts, "events": events, "src": "seeded", "family": "stats"}


def small_graph(rng):
    """4-9 objects, every kind, in the vocabulary of DeepTraverse.tla (dir_driver.seeded_graph)"""
    return strip_alias(dd.seeded_graph(rng, rng.choice([4, 5, 6, 7, 9])))


def check_trace(idx, rng, seed, workdir, script=None, graph=None, src="seeded"):
    graph = copy.deepcopy(graph) if graph else small_graph(rng)
    graph.setdefault("root", "o1")
    graph.setdefault("alias", {})
    K, N = 2, 3
    w = WebGrid(workdir=workdir, num_servers=4, k=K, n=N, happy=1, max_segment_size=64, seed=seed)
    events = []
    try:
        world = World(w, graph, rng, b"c%d" % idx, real=True, K=K, N=N)
        consts = world.consts()
        types = graph["type"]
        events.append(world.truth("build"))
        if script is None:
            script = check_script(idx, rng, types, world.distributed)
        hn = 0
        for step in script:
            hn += 1
            h = "c%d-%d" % (idx, hn)
            op = step["op"]
            if op == "delete":
                world.delete_shares(step["obj"], step["n"])
            elif op == "corrupt":
                world.corrupt_share(step["obj"])
            elif op == "truth":
                events.append(world.truth(step["after"]))
            elif op == "deepcheck":
                events.append(world.obs_deepcheck(step["via"], step["verify"], step["route"], h))
            elif op == "deeprepair":
                events.append(world.obs_deepcheck(step["via"], step["verify"], step["route"], h, repair=True))
            elif op == "webcheck":
                events.append(world.obs_webcheck(step["obj"], step["lvl"], step["verify"]))
            elif op == "manifest_keys":
                e = world.obs_manifest("w", "web_json", h)
                events.append({"ev": "manifest_keys", "st": e["st"], "keys": e["keys"]})
            elif op == "stats_doc":
                e = world.obs_stats("w", "web", h)
                events.append({"ev": "stats_doc", "via": "w", "st": e["st"], "largest_dir": e["stats"]["largest_dir"]})
            else:
                raise ValueError(op)
    except Exception as e:
        events.append(crash_event(e))
        consts = {"type": graph["type"], "kids": graph["kids"], "root": "o1", "K": K, "N": N}
    finally:
        w.close()
    return {"consts": consts, "events": events, "src": src, "family": "check"}


def check_script(idx, rng, types, distributed):
    """what to damage and what to ask.  Classes the generator stays away from (each has its probe): an immutable file that
    is unrecoverable when a deep repair runs; a damaged share of a mutable object when a verifying repair runs."""
    verify = idx % 2 == 1
    repair = idx % 3 != 2
    steps = []
    files = [o for o in distributed if types[o] == "file"]
    mfiles = [o for o in distributed if types[o] == "mfile"]
    dirs = [o for o in distributed if types[o] in ("dir", "idir")]
    damaged = False
    for o in distributed:
        x = rng.random()
        t = types[o]
        if t in ("dir", "idir"):
            if x < 0.3:
                steps.append({"op": "delete", "obj": o, "n": 1})
                damaged = True
            elif x < 0.4 and (t == "idir" or not (repair and verify)):
                steps.append({"op": "corrupt", "obj": o})
                damaged = True
        elif t == "file":
            # with a repair ahead an immutable file keeps K intact shares (N - K = 1: one share deleted or damaged)
            if x < 0.3:
                steps.append({"op": "delete", "obj": o, "n": 1})
            elif x < 0.45:
                steps.append({"op": "delete", "obj": o, "n": rng.choice([2, 3]) if not repair else 1})
            elif x < 0.7:
                steps.append({"op": "corrupt", "obj": o})
                if not repair and rng.random() < 0.4:
                    steps.append({"op": rng.choice(["delete", "corrupt"]), "obj": o, "n": 1})
            damaged = damaged or x < 0.7
        elif t == "mfile":
            if x < 0.3:
                steps.append({"op": "delete", "obj": o, "n": 1})
            elif x < 0.45:
                steps.append({"op": "delete", "obj": o, "n": rng.choice([2, 3])})
            elif x < 0.65 and not (repair and verify):
                steps.append({"op": "corrupt", "obj": o})
            damaged = damaged or x < 0.45
    if not damaged and distributed:
        o = rng.choice(files + mfiles + dirs)
        steps.append({"op": "delete", "obj": o, "n": 1})
    steps.append({"op": "truth", "after": "damage"})
    via = lambda: "w" if rng.random() < 0.75 else "r"
    routes = ["api", "web", "stream"]
    steps.append({"op": "deepcheck", "via": via(), "verify": verify, "route": routes[idx % 3]})
    steps.append({"op": "deepcheck", "via": via(), "verify": verify, "route": routes[(idx + 1) % 3]})
    for o in rng.sample(sorted(types), min(2, len(types))):
        if types[o] != "unk":
            steps.append({"op": "webcheck", "obj": o, "lvl": rng.choice(["w", "r"]), "verify": verify})
    if repair:
        steps.append({"op": "deeprepair", "via": via(), "verify": verify, "route": routes[(idx // 3) % 3]})
        steps.append({"op": "truth", "after": "repair"})
        steps.append({"op": "deepcheck", "via": "w", "verify": verify, "route": routes[(idx + 2) % 3]})
    return steps


G_PROBE = {"type": {"o1": "dir", "o2": "file", "o3": "mfile", "o4": "lit", "o5": "dir", "o6": "file"}, "root": "o1",
           "kids": {"o1": [{"name": 1, "to": "o2", "lvl": "r"}, {"name": 2, "to": "o3", "lvl": "w"}, {"name": 3, "to": "o4", "lvl": "r"},
                           {"name": 4, "to": "o5", "lvl": "w"}],
                    "o2": [], "o3": [], "o4": [], "o5": [{"name": 1, "to": "o6", "lvl": "r"}], "o6": []}}

PROBES = {
    # webapi.rst t=stream-deep-check&repair=true: "If a file or directory repair fails, the traversal will continue, and the
    # repair failure will be indicated in the JSON data (in the "repair-successful" key)"
    "repair_unrecoverable_immutable_api": [{"op": "delete", "obj": "o2", "n": 2}, {"op": "truth", "after": "damage"},
                                           {"op": "deeprepair", "via": "w", "verify": False, "route": "api"}],
    "repair_unrecoverable_immutable_web": [{"op": "delete", "obj": "o2", "n": 2}, {"op": "truth", "after": "damage"},
                                           {"op": "deeprepair", "via": "w", "verify": False, "route": "web"}],
    "repair_unrecoverable_immutable_stream": [{"op": "delete", "obj": "o2", "n": 2}, {"op": "truth", "after": "damage"},
                                              {"op": "deeprepair", "via": "w", "verify": False, "route": "stream"}],
    # webapi.rst: "list-remaining-corrupt-shares: like list-corrupt-shares, but mutable shares that were successfully repaired
    # are not included"
    "repaired_mutable_share_remains_api": [{"op": "corrupt", "obj": "o3"}, {"op": "truth", "after": "damage"},
                                           {"op": "deeprepair", "via": "w", "verify": True, "route": "api"}],
    "repaired_mutable_share_remains_web": [{"op": "corrupt", "obj": "o3"}, {"op": "truth", "after": "damage"},
                                           {"op": "deeprepair", "via": "w", "verify": True, "route": "web"}],
    # webapi.rst t=start-manifest: the JSON dictionary has the six keys finished, origin_si, manifest, verifycaps, storage-index, stats
    "manifest_keys": [{"op": "manifest_keys"}],
    # webapi.rst t=start-deep-stats: "largest-directory: number of children in the largest directory"
    "stats_largest_directory": [{"op": "stats_doc"}],
}


def main():
    ap = argparse.ArgumentParser()
    ap.add_argument("--out", required=True)
    ap.add_argument("--in", dest="inp")
    ap.add_argument("--seed", type=int, default=0)
    ap.add_argument("--tier", default="quick")
    ap.add_argument("--agg", type=int, default=0)
    ap.add_argument("--stats", type=int, default=0)
    ap.add_argument("--check", type=int, default=0)
    ap.add_argument("--probes", type=int, default=1)
    args = ap.parse_args()
    work = os.path.join(os.getcwd(), "deepresdrv_%d" % os.getpid())
    os.makedirs(work, exist_ok=True)
    inp = json.load(open(args.inp)) if args.inp else {}
    out = {"hist": [], "traces": []}
    try:
        if inp.get("cases"):
            w = WebGrid(workdir=os.path.join(work, "hist"), num_servers=1, k=1, n=1, happy=1, seed=args.seed)
            try:
                out["hist"] = run_hist(inp["cases"], w.client.nodemaker)
            finally:
                w.close()
        out["traces"] += run_agg(args.agg, random.Random("agg-%d" % args.seed))
        rng = random.Random("stats-%d" % args.seed)
        for i in range(args.stats):
            wd = os.path.join(work, "s%d" % i)
            out["traces"].append(stats_trace(i, rng, args.seed, wd))
            shutil.rmtree(wd, ignore_errors=True)
        rng = random.Random("check-%d" % args.seed)
        for i in range(args.check):
            wd = os.path.join(work, "c%d" % i)
            out["traces"].append(check_trace(i, rng, args.seed, wd))
            shutil.rmtree(wd, ignore_errors=True)
        if args.probes:
            rng = random.Random("probe-%d" % args.seed)
            for i, (name, script) in enumerate(sorted(PROBES.items())):
                wd = os.path.join(work, "p%d" % i)
                out["traces"].append(check_trace(1000 + i, rng, args.seed, wd, script=script, graph=G_PROBE, src="probe:" + name))
                shutil.rmtree(wd, ignore_errors=True)
    finally:
        shutil.rmtree(work, ignore_errors=True)
    with open(args.out, "w") as f:
        json.dump(out, f)


if __name__ == "__main__":
    main()
