"""Virtual reactor: a twisted Clock installed as *the* reactor before any
allmydata module is imported, so every timer (callLater, foolscap eventual(),
bucket-writer timeouts, DYHB overdue timers, crawler slices) hangs off virtual
time that only passes when the harness says so.

Usage (first import of a driver):   from vreactor import vr
"""
import os, sys, random

from twisted.internet import task
from twisted.internet import main as _main


class VReactor(task.Clock):
    running = True

    def callFromThread(self, f, *a, **kw):
        return self.callLater(0, f, *a, **kw)

    def callWhenRunning(self, f, *a, **kw):
        return self.callLater(0, f, *a, **kw)

    def callInThread(self, f, *a, **kw):
        f(*a, **kw)

    def addSystemEventTrigger(self, *a, **kw):
        return object()

    def removeSystemEventTrigger(self, *a, **kw):
        pass

    def getThreadPool(self):
        raise RuntimeError("no thread pool on the virtual reactor")

    def stop(self):
        pass

    def pump0(self, limit=100000):
        """Run everything that is due now (eventual() queue, callLater(0))."""
        n = 0
        while True:
            due = [c for c in self.getDelayedCalls() if c.getTime() <= self.seconds()]
            if not due:
                break
            self.advance(0)
            n += 1
            if n > limit:
                raise RuntimeError("pump0 does not settle")
        return n

    def next_timer(self):
        calls = self.getDelayedCalls()
        if not calls:
            return None
        return min(c.getTime() for c in calls) - self.seconds()


if "twisted.internet.reactor" in sys.modules:
    vr = sys.modules["twisted.internet.reactor"]
    if not isinstance(vr, VReactor):
        raise RuntimeError("a real reactor was installed before vreactor")
else:
    vr = VReactor()
    _main.installReactor(vr)

import allmydata.util.cputhreadpool as _ctp  # noqa: E402
_ctp._DISABLED = True
CPU_DELAY = [0.0]

if os.environ.get("VERIF_ASYNC_CPU"):
    # In production defer_to_thread() completes in a later reactor turn, so two operations started back to back on
    # one object interleave around it (e.g. the two segment decodes of an in-place MDMF update).  With the pool merely
    # disabled the function runs inline and that interleaving never happens.  Opt-in (set VERIF_ASYNC_CPU=1 before
    # importing vreactor): the work still runs in the reactor thread, deterministically, but one virtual-clock turn later.
    from twisted.internet import defer as _defer

    # CPU_DELAY[0] = virtual seconds the "thread" takes.  0: the next reactor turn.  A few milliseconds: longer than what
    # settle() runs through, so a SimGrid delivers the network messages that are in flight before the work completes
    # (answers that arrive while a segment is being decoded).  Drivers may change it between scenarios.

    async def _defer_to_thread_later(f, *args, **kwargs):
        d = _defer.Deferred()
        vr.callLater(CPU_DELAY[0], d.callback, None)
        await d
        return f(*args, **kwargs)

    _ctp.defer_to_thread = _defer_to_thread_later

# twisted.web pull producers / cooperative tasks run on the virtual clock too
from twisted.internet import task as _task  # noqa: E402
_task._theCooperator = _task.Cooperator(scheduler=lambda c: vr.callLater(1e-6, c))


def settle(maxsteps=100000):
    """Advance through zero/near-zero delays until nothing is due within 1 ms."""
    n = 0
    while True:
        nt = vr.next_timer()
        if nt is None or nt > 0.001:
            return n
        vr.advance(max(nt, 0))
        n += 1
        if n > maxsteps:
            raise RuntimeError("settle does not terminate")


def result_of(d):
    """Synchronously extract the result of an already-fired Deferred (after settle())."""
    out = []
    d.addBoth(out.append)
    settle()
    if not out:
        raise RuntimeError("deferred has not fired")
    return out[0]
