"""Drive a real IntroducerService and several real IntroducerClients, wired
together by controllable fake foolscap connections, through seeded histories of
publish / subscribe / connect / disconnect / kill+restart / introducer restart /
foreign (replayed, forged, unsigned) publishes, and record one event per step
for spec/net/TraceIntroducerService.tla (extra introducer_service).

The real code runs unmodified.  Replaced is only foolscap, at the Tub /
RemoteReference boundary, following foolscap's documented behaviour:
  * Tub.connectTo(furl, cb) returns a Reconnector that calls cb(rref) for every
    connection it establishes; Tub.getReference(furl) is one connection attempt.
    Both are decided by the scenario (Start ok / not ok, Connect).
  * a connection is two FIFO queues (foolscap delivers the calls made over one
    connection in order); rref.callRemote parks the call in its queue and returns
    a Deferred; the scenario delivers the head of some queue (C2S / S2C); the
    answer travels back with the delivery.  A Referenceable passed as an argument
    arrives as a RemoteReference, the same object for the same Referenceable over
    one connection.  callRemote on a dead reference fails with DeadReferenceError.
  * losing a connection drops both queues (their Deferreds fail) and runs the
    notifyOnDisconnect handlers of both ends.
  * the sequencer of a node and its cache file outlive the IntroducerClient
    object (client.py _sequencer keeps the number in a file); the nonce is a
    function of the sequence number, so an announcement is a function of
    (node, service, seqnum, body).

Observation: the server through get_announcements() / get_subscribers() (and
_debug_counts when it exists), a client through its subscribe_to callbacks,
connected_to_introducer() and its cache file, the wire through the fake
connections.  Signatures are judged by the driver with ed25519 directly.
"""
from vreactor import vr, settle  # noqa: F401  (must be first)
import argparse, json, os, random, shutil, tempfile
from collections import deque

from twisted.internet import defer
from twisted.internet.address import IPv4Address
from twisted.python.failure import Failure
from twisted.python.filepath import FilePath
from twisted.python import log as tw_log
from foolscap.api import Referenceable, DeadReferenceError

import yaml
from allmydata.crypto import ed25519
from allmydata.util import base32
from allmydata.introducer.common import sign_to_foolscap
from allmydata.introducer.client import IntroducerClient
from allmydata.introducer.server import IntroducerService

SERVICES = ["storage", "other"]
BODIES = ["a", "b", "c"]
FURL = "pb://62ubehyunnyhzs7r6vdonnm2hpi52w6y@tcp:127.0.0.1:1/swissnum"
IFURL = "pb://fakeintroducertubid@tcp:127.0.0.1:2/introducer"
COUNTS = ["inbound_message", "inbound_duplicate", "inbound_no_seqnum", "inbound_old_replay", "inbound_update",
          "outbound_message", "outbound_announcements", "inbound_subscribe"]

ERRORS = []
tw_log.addObserver(lambda ev: ERRORS.append(ev) if ev.get("isError") else None)


def keypair(rng):
    raw = bytes(rng.getrandbits(8) for _ in range(32))
    sk, vk = ed25519.signing_keypair_from_string(b"priv-v0-" + base32.b2a(raw))
    key_s = ed25519.string_from_verifying_key(vk)[len(b"pub-"):]
    return sk, vk, key_s


def abs_seq(ann):
    if not isinstance(ann, dict) or "seqnum" not in ann:
        return {"k": "none", "n": 0}
    v = ann["seqnum"]
    if isinstance(v, int) and not isinstance(v, bool) and 0 <= v < 2 ** 30:
        return {"k": "int", "n": v}
    return {"k": "nonint", "n": 0}


def drec(it):
    return {"svc": it["svc"], "key": it["key"], "seq": it["seq"], "body": it["body"]}


def dkey(d):
    return (d["svc"], d["key"], d["seq"]["k"], d["seq"]["n"], d["body"])


# --------------------------------------------------------------------------- the fake foolscap
class Conn:
    """one connection between a node and one incarnation of the introducer"""
    n = 0

    def __init__(self, world, node):
        Conn.n += 1
        self.id = Conn.n
        self.world, self.node = world, node
        self.alive = True
        self.c2s = deque()       # (method, args, kwargs, Deferred, abstract)
        self.s2c = deque()
        self.watch = {"server": [], "client": []}    # handlers registered by the holder on that side
        self.proxies = {"server": {}, "client": {}}  # id(target) -> Ref held on that side

    def ref(self, holder, target):
        p = self.proxies[holder]
        if id(target) not in p:
            p[id(target)] = Ref(self, holder, target)
        return p[id(target)]

    def lose(self):
        if not self.alive:
            return
        self.alive = False
        for q in (self.c2s, self.s2c):
            while q:
                m = q.popleft()
                m[3].errback(Failure(DeadReferenceError("connection lost", None, None)))
        for side in ("server", "client"):
            ws, self.watch[side] = self.watch[side], []
            for cb, a, kw in ws:
                cb(*a, **kw)
        settle()


class Ref:
    """what foolscap's RemoteReference offers to the code under test"""
    def __init__(self, conn, holder, target):
        self.conn, self.holder, self.target = conn, holder, target

    def callRemote(self, name, *args, **kwargs):
        d = defer.Deferred()
        if not self.conn.alive:
            d.errback(Failure(DeadReferenceError("dead reference", None, None)))
            return d
        other = "client" if self.holder == "server" else "server"
        args = tuple(self.conn.ref(other, a) if isinstance(a, Referenceable) else a for a in args)
        w = self.conn.world
        if self.holder == "client":
            if name == "publish_v2":
                ab = {"m": "publish", "item": w.abstract(args[0])}
            elif name == "subscribe_v2":
                ab = {"m": "subscribe", "svc": args[1].decode("ascii") if isinstance(args[1], bytes) else str(args[1])}
            elif name == "get_version":
                ab = {"m": "get_version"}
            else:
                ab = {"m": "other:" + name}
            self.conn.c2s.append((name, args, kwargs, d, ab, self.target))
            w.sent.setdefault(self.conn.node.name, []).append(ab)
        else:
            if name == "announce_v2":
                ab = sorted((drec(w.abstract(t)) for t in args[0]), key=dkey)
            else:
                ab = [{"svc": "?", "key": "?", "seq": {"k": "none", "n": 0}, "body": "other:" + name}]
            self.conn.s2c.append((name, args, kwargs, d, ab, self.target))
            w.fwd.setdefault(self.conn.node.name, []).append(ab)
        return d

    def notifyOnDisconnect(self, cb, *a, **kw):
        m = (cb, a, kw)
        if not self.conn.alive:
            cb(*a, **kw)
        else:
            self.conn.watch[self.holder].append(m)
        return m

    def dontNotifyOnDisconnect(self, m):
        if m in self.conn.watch[self.holder]:
            self.conn.watch[self.holder].remove(m)

    def getRemoteTubID(self):
        return "tub-" + self.conn.node.name

    def getPeer(self):
        return IPv4Address("TCP", "127.0.0.1", 1000 + self.conn.id)

    def getLocationHints(self):
        return []

    def getDataLastReceivedAt(self):
        return None

    def isConnected(self):
        return self.conn.alive


class Reconnector:
    def __init__(self, cb):
        self.cb = cb
        self.active = True

    def stopConnecting(self):
        self.active = False

    def reset(self):
        pass

    def getReconnectionInfo(self):
        from foolscap.reconnector import ReconnectionInfo
        return ReconnectionInfo()


class FakeTub:
    def __init__(self):
        self.rc = None
        self.first = None

    def connectTo(self, furl, cb, *a, **kw):
        self.rc = Reconnector(cb)
        return self.rc

    def getReference(self, furl, *a, **kw):
        self.first = defer.Deferred()
        return self.first


# --------------------------------------------------------------------------- the world
class Node:
    def __init__(self, world, name):
        self.world, self.name = world, name
        self.seq = 0                 # the "announcement-seqnum" file
        self.cachepath = os.path.join(world.dir, "introducer_%s_cache.yaml" % name)
        self.conn = None
        self.running = False
        self.new_client()

    def sequencer(self):
        self.seq += 1
        return self.seq, "nonce-%d" % self.seq

    def new_client(self):
        self.tub = FakeTub()
        self.ic = IntroducerClient(self.tub, IFURL, self.name, "ver", "oldest", self.sequencer, FilePath(self.cachepath))
        self.running = False
        self.conn = None
        self.lsubs = []


class World:
    def __init__(self, rng, workdir, nodes, extra_keys=()):
        self.rng = rng
        self.dir = tempfile.mkdtemp(prefix="isvc", dir=workdir)
        self.keys, self.by_key_s, self.vks = {}, {}, {}
        self.nodes = {}
        for n in nodes:
            self.nodes[n] = Node(self, n)
        for k in ["k_" + n for n in nodes] + list(extra_keys) + ["kx"]:
            sk, vk, key_s = keypair(rng)
            self.keys[k] = (sk, key_s)
            self.vks[k] = vk
            self.by_key_s[key_s] = k
        self.server = IntroducerService()
        self.events = []
        self.out, self.sent, self.fwd = {}, {}, {}
        self.genuine = []           # (abstract item, tuple) of everything validly signed that was seen on the wire
        self.seen = set()
        self.cache_memo = {}

    # ---- abstraction of a wire tuple ------------------------------------
    def abstract(self, ann_t):
        try:
            msg, sig, claimed = ann_t
        except Exception:
            return {"svc": "?", "key": "unknown", "origin": "none", "wellformed": False, "seq": {"k": "none", "n": 0}, "body": "?"}
        try:
            ann = json.loads(msg.decode("utf-8"))
            if not isinstance(ann, dict):
                ann = {}
        except Exception:
            ann = {}
        key = self.by_key_s.get(claimed, "unknown")
        wellformed, sigb = True, b""
        try:
            if not (isinstance(sig, bytes) and sig.startswith(b"v0-") and isinstance(claimed, bytes) and claimed.startswith(b"v0-")):
                raise ValueError
            sigb = base32.a2b(sig[3:])
            ed25519.verifying_key_from_string(b"pub-" + claimed)
        except Exception:
            wellformed = False
        origin = "none"
        if wellformed:
            for k in [key] + sorted(x for x in self.vks if x != key):
                if k in self.vks:
                    try:
                        ed25519.verify_signature(self.vks[k], sigb, msg)
                        origin = k
                        break
                    except Exception:
                        pass
        it = {"svc": str(ann.get("service-name", "?")), "key": key, "origin": origin, "wellformed": wellformed,
              "seq": abs_seq(ann), "body": str(ann.get("body", "?"))}
        if wellformed and origin == key and key != "unknown":
            k = (ann_t[0], ann_t[1], ann_t[2])
            if k not in self.seen:
                self.seen.add(k)
                self.genuine.append((dict(it), k))
        return it

    # ---- observation ----------------------------------------------------
    def callback(self, node, svc):
        late = svc in node.lsubs        # not the first local subscriber of this service on this node

        def cb(key_s, ann, node=node, svc=svc):
            if late and id(cb) in getattr(self, "late_done", ()):
                return
            d = {"svc": str(ann.get("service-name", "?")) if isinstance(ann, dict) else "?",
                 "key": self.by_key_s.get(key_s, "unknown"), "seq": abs_seq(ann),
                 "body": str(ann.get("body", "?")) if isinstance(ann, dict) else "?", "cb": svc}
            if late:
                d["late"] = True
            self.out.setdefault(node.name, []).append(d)
        return cb

    def read_cache(self, node):
        try:
            with open(node.cachepath, "rb") as f:
                raw = f.read()
        except EnvironmentError:
            return []
        if raw in self.cache_memo:          # parsing YAML is the expensive part of an observation
            return self.cache_memo[raw]
        out = []
        for e in yaml.safe_load(raw) or []:
            ann = e.get("ann", {})
            ks = e.get("key_s", "")
            ks = ks.encode("ascii") if isinstance(ks, str) else ks
            out.append({"svc": str(ann.get("service-name", "?")), "key": self.by_key_s.get(ks, "unknown"),
                        "seq": abs_seq(ann), "body": str(ann.get("body", "?"))})
        out = sorted(out, key=dkey)
        self.cache_memo[raw] = out
        return out

    def observe(self, raised=""):
        anns = []
        for ad in self.server.get_announcements():
            svc, key_s = ad.index
            anns.append({"svc": str(svc), "key": self.by_key_s.get(key_s, "unknown"), "seq": abs_seq(ad.announcement),
                         "body": str(ad.announcement.get("body", "?"))})
        subs = sorted([str(sd.service_name), str(sd.nickname)] for sd in self.server.get_subscribers())
        dc = getattr(self.server, "_debug_counts", None)
        counts = {"present": isinstance(dc, dict) and all(k in dc for k in COUNTS)}
        for k in COUNTS:
            counts[k] = int(dc[k]) if counts["present"] else 0
        obs = {"anns": sorted(anns, key=dkey), "subs": subs, "counts": counts,
               "conn": {n: bool(nd.ic.connected_to_introducer()) for n, nd in self.nodes.items()},
               "cache": {n: self.read_cache(nd) for n, nd in self.nodes.items()},
               "out": {n: self.out.get(n, []) for n in self.nodes},
               "sent": {n: self.sent.get(n, []) for n in self.nodes},
               "fwd": {n: self.fwd.get(n, []) for n in self.nodes},
               "pending": {n: (len(nd.conn.c2s) + len(nd.conn.s2c)) if nd.conn else 0 for n, nd in self.nodes.items()},
               "errors": len(ERRORS), "raised": raised}
        return obs

    def begin(self):
        self.out, self.sent, self.fwd = {}, {}, {}
        del ERRORS[:]

    def record(self, ev, raised=""):
        settle()
        ev["obs"] = self.observe(raised)
        self.events.append(ev)

    def guarded(self, f, *a, **kw):
        try:
            f(*a, **kw)
            return ""
        except Exception as e:       # noqa: BLE001 - recorded, judged by the Spec
            return type(e).__name__

    # ---- the steps ------------------------------------------------------
    def publish(self, n, svc, body, key=None):
        node = self.nodes[n]
        key = key or "k_" + n
        self.begin()
        ann = {"body": body}
        if svc == "storage":
            ann["anonymous-storage-FURL"] = FURL
        r = self.guarded(node.ic.publish, svc, ann, self.keys[key][0])
        self.record({"ev": "Publish", "c": n, "svc": svc, "key": key, "body": body, "seq": node.seq}, r)

    def subscribe(self, n, svc):
        """subscribe_to.  The first local subscriber of a service on a node listens for ever; a further one (a part of
        the node that asks late) reports only what it is told at once, so that every announcement is observed once.
        (subscribe_to hands the backlog to *all* subscribers of the service, the earlier ones included: duplicates a
        subscriber "must be prepared to tolerate" - the first subscriber is not listened to during that call.)"""
        node = self.nodes[n]
        self.begin()
        cb = self.callback(node, svc)
        if svc in node.lsubs:
            r = self.guarded(node.ic.subscribe_to, svc, cb)
            mine = [d for d in self.out.get(n, []) if d.get("late")]
            self.out[n] = [{k: v for k, v in d.items() if k != "late"} for d in mine]
            self.late_done = getattr(self, "late_done", set()) | {id(cb)}
        else:
            r = self.guarded(node.ic.subscribe_to, svc, cb)
            node.lsubs.append(svc)
        self.record({"ev": "Subscribe", "c": n, "svc": svc}, r)

    def _connect(self, node):
        node.conn = Conn(self, node)
        return node.conn.ref("client", self.server)

    def start(self, n, ok):
        node = self.nodes[n]
        self.begin()
        r = self.guarded(node.ic.startService)
        node.running = True
        if not r:
            if ok:
                rref = self._connect(node)
                r = self.guarded(node.tub.rc.cb, rref)
                node.tub.first.callback(rref)
            else:
                node.tub.first.errback(Failure(ConnectionRefusedError("introducer unreachable")))
        self.record({"ev": "Start", "c": n, "ok": ok}, r)

    def connect(self, n):
        node = self.nodes[n]
        self.begin()
        rref = self._connect(node)
        r = self.guarded(node.tub.rc.cb, rref)
        self.record({"ev": "Connect", "c": n}, r)

    def deliver(self, conn, q):
        name, args, kwargs, d, ab, target = q.popleft()
        try:
            res = getattr(target, "remote_" + name)(*args, **kwargs)
        except Exception:            # noqa: BLE001 - the caller gets the failure, as over foolscap
            res = Failure()
        if isinstance(res, defer.Deferred):
            res.chainDeferred(d)
        elif isinstance(res, Failure):
            d.errback(res)
        else:
            d.callback(res)
        return ab

    def c2s(self, n):
        node = self.nodes[n]
        self.begin()
        ab = self.deliver(node.conn, node.conn.c2s)
        self.record({"ev": "C2S", "c": n, "msg": ab})

    def s2c(self, n):
        node = self.nodes[n]
        self.begin()
        ab = self.deliver(node.conn, node.conn.s2c)
        self.record({"ev": "S2C", "c": n, "batch": ab})

    def raw_subscribe(self, n, svc):
        """a client that asks twice: "I will ignore duplicate subscriptions" """
        node = self.nodes[n]
        self.begin()
        d = node.conn.ref("client", self.server).callRemote("subscribe_v2", node.ic, svc.encode("ascii"), {b"version": 0, b"nickname": n})
        d.addErrback(lambda f: None)
        self.record({"ev": "RawSubscribe", "c": n, "svc": svc})

    def disconnect(self, n):
        node = self.nodes[n]
        self.begin()
        node.conn.lose()
        node.conn = None
        self.record({"ev": "Disconnect", "c": n})

    def kill(self, n):
        """the node's process dies; a new one is created on the same base directory (not yet started)"""
        node = self.nodes[n]
        self.begin()
        if node.conn is not None:
            node.tub.rc.active = False
            node.conn.watch["client"] = []      # the process is gone: nobody to notify on that side
            node.conn.lose()
        node.new_client()
        self.record({"ev": "Kill", "c": n})

    def server_restart(self):
        self.begin()
        for node in self.nodes.values():
            if node.conn is not None:
                node.conn.watch["server"] = []
                node.conn.lose()
                node.conn = None
        self.server = IntroducerService()
        self.record({"ev": "ServerRestart"})

    def inject(self, item, ann_t):
        """somebody else (not one of the nodes) publishes directly"""
        self.begin()
        r = self.guarded(self.server.remote_publish_v2, ann_t, None)
        self.record({"ev": "Inject", "item": item}, r)

    def quiescent(self):
        self.begin()
        self.record({"ev": "Quiescent"})

    def drain(self, limit=400):
        for _ in range(limit):
            qs = [(n, "c2s") for n, nd in self.nodes.items() if nd.conn and nd.conn.c2s] + \
                 [(n, "s2c") for n, nd in self.nodes.items() if nd.conn and nd.conn.s2c]
            if not qs:
                return
            n, q = self.rng.choice(qs)
            (self.c2s if q == "c2s" else self.s2c)(n)
        raise RuntimeError("drain does not terminate")

    # ---- foreign items ---------------------------------------------------
    def foreign_item(self):
        """what an outsider could publish: a replay of anything validly signed that was ever on the wire, or an item of
        its own key kx aimed at what the introducer holds for kx (older / same / newer seqnum, none, a string; same or
        other content), possibly unsigned, claimed for a node's key, or changed after signing"""
        rng = self.rng
        if self.genuine and rng.random() < 0.4:
            held_idx = set((str(ad.index[0]), self.by_key_s.get(ad.index[1], "unknown")) for ad in self.server.get_announcements())
            aimed = [(a, t) for a, t in self.genuine if (a["svc"], a["key"]) in held_idx]
            a, t = rng.choice(aimed if aimed and rng.random() < 0.7 else self.genuine)
            return dict(a), t
        svc = rng.choice(SERVICES)
        kx_held = [str(ad.index[0]) for ad in self.server.get_announcements() if ad.index[1] == self.keys["kx"][1]]
        if kx_held and rng.random() < 0.7:
            svc = rng.choice(kx_held)
        held = [ad.announcement for ad in self.server.get_announcements()
                if ad.index == (svc, self.keys["kx"][1])]
        body = rng.choice(BODIES)
        kind = rng.choice(["int", "int", "int", "int", "none", "nonint"])
        if held and isinstance(held[0].get("seqnum"), int):
            seq = max(0, held[0]["seqnum"] + rng.choice([-1, 0, 0, 1, 1, 2]))
            if rng.random() < 0.4:
                body = str(held[0].get("body", body))
            elif rng.random() < 0.4:       # the same seqnum for other content
                kind, seq = "int", held[0]["seqnum"]
                body = rng.choice([b for b in BODIES if b != held[0].get("body")])
        else:
            seq = rng.randint(0, 3)
        ann = {"service-name": svc, "body": body, "nickname": "foreign", "my-version": "v"}
        if svc == "storage":
            ann["anonymous-storage-FURL"] = FURL
        if kind == "int":
            ann["seqnum"] = seq
        elif kind == "nonint":
            ann["seqnum"] = "seven"
        sk, key_s = self.keys["kx"]
        msg, sig, claimed = sign_to_foolscap(ann, sk)
        a = {"svc": svc, "key": "kx", "origin": "kx", "wellformed": True, "seq": abs_seq(ann), "body": body}
        r = rng.random()
        if r < 0.7:
            return self.abstract((msg, sig, claimed)), (msg, sig, claimed)
        if r < 0.8:
            return dict(a, origin="none", wellformed=False), (msg, None, None)     # unsigned (v1 style)
        if r < 0.9:
            victim = rng.choice(sorted(k for k in self.keys if k != "kx"))
            return dict(a, key=victim), (msg, sig, self.keys[victim][1])           # claimed for somebody else's key
        msg2 = msg + b" "
        return dict(a, origin="none"), (msg2, sig, claimed)                        # tampered after signing

    def trace(self, cls, remembered):
        keys = sorted(self.keys)
        return {"consts": {"clients": sorted(self.nodes), "services": SERVICES, "keys": keys,
                           "remembered": remembered, "cls": cls},
                "events": self.events}

    def close(self):
        shutil.rmtree(self.dir, ignore_errors=True)


# --------------------------------------------------------------------------- scenarios
def scenario_grid(rng, workdir, nevents):
    """2 publishers and 2 subscribers (a node may be both), everything random"""
    names = ["n1", "n2", "n3", "n4"]
    w = World(rng, workdir, names)
    pubs = {"n1": ["storage"] if rng.random() < 0.6 else ["storage", "other"], "n2": [rng.choice(SERVICES)]}
    subs = {"n3": ["storage"] if rng.random() < 0.5 else ["storage", "other"], "n4": [rng.choice(SERVICES)]}
    if rng.random() < 0.4:
        subs["n1"] = ["storage"]          # a storage node that is a client too
    calm = rng.random() < 0.35            # no faults: pure publish / subscribe / deliver
    for _ in range(nevents):
        ch = []
        for n, nd in w.nodes.items():
            if nd.conn and nd.conn.c2s:
                ch.append((10, ("c2s", n)))
            if nd.conn and nd.conn.s2c:
                ch.append((10, ("s2c", n)))
            if n in pubs:
                ch.append((2.5 if nd.seq < 3 else 0.6, ("publish", n)))
            for svc in subs.get(n, []):
                ch.append((6 if svc not in nd.lsubs else 0.7, ("subscribe", n, svc)))
            if not nd.running:
                ch.append((5, ("start", n)))
            elif nd.conn is None:
                ch.append((5, ("connect", n)))
            elif not calm:
                ch.append((0.6, ("disconnect", n)))
                if nd.ic.connected_to_introducer() and nd.lsubs:
                    ch.append((0.8, ("rawsub", n)))
            if not calm:
                # a subscriber that has something in its cache is the interesting one to restart
                ch.append((1.2 if w.read_cache(nd) and nd.running else 0.3, ("kill", n)))
        if not calm:
            ch.append((0.8, ("srvrestart",)))
            ch.append((4.0, ("inject",)))
            for n in subs:
                if w.read_cache(w.nodes[n]):
                    ch.append((0.8, ("offline", n)))
        ch.append((1.5, ("quiesce",)))
        act = rng.choices([c[1] for c in ch], weights=[c[0] for c in ch])[0]
        step(w, rng, act, pubs, subs)
    # the end: everybody up and connected, everything delivered
    for n, nd in w.nodes.items():
        if not nd.running:
            w.start(n, True)
        elif nd.conn is None:
            w.connect(n)
    w.drain()
    w.quiescent()
    return w


def step(w, rng, act, pubs, subs):
    k = act[0]
    if k == "c2s":
        w.c2s(act[1])
    elif k == "s2c":
        w.s2c(act[1])
    elif k == "publish":
        w.publish(act[1], rng.choice(pubs[act[1]]), rng.choice(BODIES))
    elif k == "subscribe":
        w.subscribe(act[1], act[2])
    elif k == "start":
        nd = w.nodes[act[1]]
        w.start(act[1], rng.random() < (0.4 if w.read_cache(nd) else 0.7))
    elif k == "connect":
        w.connect(act[1])
    elif k == "disconnect":
        w.disconnect(act[1])
    elif k == "rawsub":
        w.raw_subscribe(act[1], rng.choice(w.nodes[act[1]].lsubs))
    elif k == "kill":
        w.kill(act[1])
    elif k == "srvrestart":
        w.server_restart()
    elif k == "inject":
        a, t = w.foreign_item()
        w.inject(a, t)
    elif k == "quiesce":
        w.drain()
        w.quiescent()
    elif k == "offline":
        # a subscriber restarts while the introducer is unreachable: the node subscribes, then starts
        n = act[1]
        w.kill(n)
        for svc in subs[n]:
            w.subscribe(n, svc)
        w.start(n, False)


def scenario_cache(rng, workdir, variant):
    """a subscriber that restarts while the introducer is unreachable and lives on its cache"""
    w = World(rng, workdir, ["n1", "n2", "n3"])
    for n in ("n1", "n2"):
        w.publish(n, "storage", rng.choice(BODIES))
        w.start(n, True)
    w.subscribe("n3", "storage")
    w.start("n3", True)
    w.drain()
    w.quiescent()
    if variant == "replay" or rng.random() < 0.5:
        w.publish("n1", "storage", rng.choice(BODIES))
        w.drain()
    w.kill("n3")
    if variant == "late":
        # the new process learns from its cache first, somebody subscribes afterwards
        w.start("n3", False)
        w.subscribe("n3", "storage")
    elif variant == "shrink":
        # the introducer comes back empty, only one server re-announces; then the client restarts offline again
        w.subscribe("n3", "storage")
        w.start("n3", False)
        w.server_restart()
        w.connect("n1")
        w.connect("n3")
        w.drain()
        w.quiescent()
        w.kill("n3")
        w.subscribe("n3", "storage")
        w.start("n3", False)
    else:
        # replay of an older announcement through a restarted introducer after an offline start
        w.subscribe("n3", "storage")
        w.start("n3", False)
        w.server_restart()
        old = [(a, t) for a, t in w.genuine if a["key"] == "k_n1"]
        if old:         # (nothing of n1 was ever seen on the wire: the Quiescent steps have said so)
            a, t = min(old, key=lambda x: x[0]["seq"]["n"])
            w.inject(dict(a), t)
        w.connect("n3")
        w.drain()
    w.quiescent()
    return w


def scenario_restart_replay(rng, workdir):
    """the introducer restarts and is fed old announcements before the publisher is back: a subscriber that kept
    running does not go backwards, and one that joins afterwards ends up with the same set"""
    w = World(rng, workdir, ["n1", "n2", "n3"])
    w.subscribe("n3", "storage")
    w.start("n3", True)
    w.publish("n1", "storage", rng.choice(BODIES))
    w.start("n1", True)
    w.drain()
    for _ in range(rng.choice([1, 2])):
        w.publish("n1", "storage", rng.choice(BODIES))
        w.drain()
    w.quiescent()
    w.server_restart()
    old = sorted([(a, t) for a, t in w.genuine if a["key"] == "k_n1"], key=lambda x: x[0]["seq"]["n"])
    for a, t in old[:-1][:rng.choice([1, 2])]:
        w.inject(dict(a), t)
    w.connect("n3")
    w.drain()
    w.quiescent()
    w.connect("n1")
    w.drain()
    w.quiescent()
    w.subscribe("n2", "storage")
    w.start("n2", True)
    w.drain()
    w.quiescent()
    return w


def scenario_twokeys(rng, workdir):
    """one node offers two services under two different keys"""
    w = World(rng, workdir, ["n1", "n3"], extra_keys=["k_n1b"])
    w.subscribe("n3", "storage")
    w.subscribe("n3", "other")
    w.start("n3", True)
    w.start("n1", True)
    w.drain()
    w.publish("n1", "storage", rng.choice(BODIES), "k_n1")
    if rng.random() < 0.5:
        w.drain()
    w.publish("n1", "other", rng.choice(BODIES), "k_n1b")
    w.drain()
    w.quiescent()
    return w


def probe_remembered(workdir):
    """does an IntroducerClient that started from its cache remember what it loaded (a later local subscriber is told)?
    Both answers are accepted in the main scenarios; the Spec is told which one the code under test gives."""
    w = World(random.Random(1), workdir, ["n1", "n3"])
    try:
        w.publish("n1", "storage", "a")
        w.start("n1", True)
        w.subscribe("n3", "storage")
        w.start("n3", True)
        w.drain()
        w.kill("n3")
        w.start("n3", False)
        w.subscribe("n3", "storage")
        return len(w.events[-1]["obs"]["out"]["n3"]) > 0
    finally:
        w.close()


def main():
    ap = argparse.ArgumentParser()
    ap.add_argument("--out")
    ap.add_argument("--seed", type=int, default=0)
    ap.add_argument("--tier", default="quick")
    ap.add_argument("--in", dest="inp")
    ap.add_argument("--grid", type=int, default=40)
    ap.add_argument("--events", type=int, default=45)
    ap.add_argument("--cache", type=int, default=4)
    ap.add_argument("--twokeys", type=int, default=2)
    a = ap.parse_args()
    workdir = os.getcwd()
    remembered = probe_remembered(workdir)
    traces = []

    def run(cls, i, f, rem):
        rng = random.Random("X-introducer_service/%s/%d/%d" % (cls, a.seed, i))
        w = f(rng)
        try:
            traces.append(w.trace(cls, rem))
        finally:
            w.close()

    for i in range(a.grid):
        run("grid", i, lambda rng: scenario_grid(rng, workdir, a.events), remembered)
    for i in range(a.cache):
        for variant in ("late", "shrink", "replay"):
            run("cache_" + variant, i, lambda rng: scenario_cache(rng, workdir, variant), True)
    for i in range(a.twokeys):
        run("twokeys", i, lambda rng: scenario_twokeys(rng, workdir), remembered)
        run("restart_replay", i, lambda rng: scenario_restart_replay(rng, workdir), remembered)
    with open(a.out, "w") as f:
        json.dump({"remembered": remembered, "traces": traces}, f)


if __name__ == "__main__":
    main()
