"""Driver of the real immutable downloader (allmydata.immutable.downloader.*) for C46, C02, C03.

One scenario = one trace:
  * upload a small file on a SimGrid (real Uploader/Encoder, small max_segment_size), optionally through a
    *tampering encoder* (the data handed to the codec for one segment differs from the ciphertext that was hashed:
    every block validates, the decoded segment fails the ciphertext hash tree),
  * rearrange share files between servers (several shares per server, duplicates, servers without shares),
  * damage share files by layout field located through the real offset table, truncate, delete, flip random
    bytes, substitute shares of another file / of another encoding with the same key, mark instances "lying"
    (the file alternates between a damaged and the pristine content while the download runs),
  * give servers fault modes (get_buckets raises, reads raise, disconnect, calls lost, answers held back until
    the DYHB overdue timers fired, removed from the broker),
  * issue 1..4 reads (sequential, concurrent, after a failure, at quiescence) on one or two nodes, under a seeded
    random delivery order, firing timers when nothing else can happen,
  * log   Read(r,node,off,len)  Deliver(r,off,len,matches)  ReadResult(r,res)  Quiescent(unresolved,outstanding)
    and the ground truth in consts.

The verdict is computed by TLC (spec/immutable/TraceDownload.tla); this file only drives the code, compares
delivered bytes with the plaintext (`matches`) and classifies share files against their pristine copies.
"""
import os as _os
_os.environ.setdefault("VERIF_ASYNC_CPU", "1")   # segment decoding finishes in a later reactor turn, as in production
import vreactor  # noqa: E402  (must be first)
from vreactor import vr, settle  # noqa: E402
import argparse, json, os, random, shutil, struct, sys, tempfile

from twisted.internet import defer
from twisted.python.failure import Failure
from zope.interface import implementer
from twisted.internet.interfaces import IConsumer
from foolscap.api import DeadReferenceError, RemoteException

from grid import Grid, IntentionalError
from allmydata.immutable import upload, encode
from allmydata.immutable.layout import make_write_bucket_proxy
from allmydata.hashtree import IncompleteHashTree
from allmydata.storage.common import storage_index_to_dir
from allmydata.util import mathutil
from allmydata import uri as uri_mod

CONTAINER_HDR = 0xc          # ShareFile v1 header: version, (unused) length, lease count
HASH = 32
LIVELOCK_REPEATS = 400


# ------------------------------------------------------------------------------------------------
# share layout (located through the real offset table, cross-checked against allmydata.immutable.layout)
class Layout:
    def __init__(self, sharedata, k, n, size, segsize):
        (ver,) = struct.unpack(">L", sharedata[:4])
        assert ver in (1, 2), ver
        self.ver = ver
        self.w = 4 if ver == 1 else 8                       # width of the size / offset fields
        self.hdr = 0x24 if ver == 1 else 0x44
        f = struct.unpack(">LLLLLLLLL", sharedata[:0x24]) if ver == 1 else struct.unpack(">LQQQQQQQQ", sharedata[:0x44])
        self.block_size_field, self.data_size_field = f[1], f[2]
        names = ["data", "plaintext_hash_tree", "crypttext_hash_tree", "block_hashes", "share_hashes", "uri_extension"]
        self.off = dict(zip(names, f[3:]))
        self.numsegs = mathutil.div_ceil(size, segsize)
        self.block_size = segsize // k
        tail = size % segsize or segsize
        self.tail_block_size = mathutil.next_multiple(tail, k) // k
        # cross-check with the code's own layout computation
        ht = IncompleteHashTree(n)
        nsh = len(ht.needed_hashes(0, include_leaf=True))
        from allmydata.immutable import layout as _layout
        _layout.FORCE_V2 = (ver == 2)
        try:
            wbp = make_write_bucket_proxy(None, None, mathutil.div_ceil(size, k), self.block_size, self.numsegs, nsh, 0)
        finally:
            _layout.FORCE_V2 = False
        assert wbp._offsets == self.off, (wbp._offsets, self.off)
        (self.ueb_len,) = struct.unpack(">L" if ver == 1 else ">Q", sharedata[self.off["uri_extension"]:self.off["uri_extension"] + self.w])
        self.end = self.off["uri_extension"] + self.w + self.ueb_len

    def block_range(self, seg):
        start = self.off["data"] + seg * self.block_size
        ln = self.tail_block_size if seg == self.numsegs - 1 else self.block_size
        return start, ln

    def fields(self):
        """name -> (start, length) in share-data coordinates; only regions the downloader reads."""
        o = self.off
        d = {"version": (0, 4)}
        for i, nm in enumerate(["off_data", "off_plaintext", "off_crypttext", "off_blockhashes", "off_sharehashes", "off_ueb"]):
            d[nm] = ((0x0c + 4 * i, 4) if self.ver == 1 else (0x14 + 8 * i, 8))
        for s in range(self.numsegs):
            d["block%d" % s] = self.block_range(s)
        d["crypttext_hash_tree"] = (o["crypttext_hash_tree"], o["block_hashes"] - o["crypttext_hash_tree"])
        d["block_hashes"] = (o["block_hashes"], o["share_hashes"] - o["block_hashes"])
        d["share_hashes"] = (o["share_hashes"], o["uri_extension"] - o["share_hashes"])
        d["ueb_len"] = (o["uri_extension"], self.w)
        d["ueb_body"] = (o["uri_extension"] + self.w, self.ueb_len)
        return {k: v for k, v in d.items() if v[1] > 0}


USED_FIELDS = ["version", "off_data", "off_crypttext", "off_blockhashes", "off_sharehashes", "off_ueb",
               "crypttext_hash_tree", "block_hashes", "share_hashes", "ueb_len", "ueb_body"]



def randomize_guess(rng, real=None, allow_lt=False):
    """Vary the segment size a fresh download node guesses before it has the UEB (exact, larger, and - for the
    C02 profile only - smaller than the real one; see immutable_driver.randomize_guess)."""
    from allmydata.immutable.downloader.node import DownloadNode
    if not real:
        DownloadNode.default_max_segment_size = 128 * 1024
        return
    opts = [real, real, real * 3, 128 * 1024] + ([max(1, (real + 1) // 2), max(1, real // 4)] if allow_lt else [])
    DownloadNode.default_max_segment_size = rng.choice(opts)


def read_file(p):
    with open(p, "rb") as f:
        return f.read()


def write_file(p, b):
    with open(p, "wb") as f:
        f.write(b)


# ------------------------------------------------------------------------------------------------
@implementer(IConsumer)
class RecConsumer:
    def __init__(self, sc, rid, off):
        self.sc, self.rid, self.pos = sc, rid, off
        self.producer = None

    def registerProducer(self, p, streaming):
        self.producer = p

    def unregisterProducer(self):
        self.producer = None

    def write(self, data):
        ok = (self.sc.plaintext[self.pos:self.pos + len(data)] == data)
        self.sc.events.append({"ev": "Deliver", "r": self.rid, "off": self.pos, "len": len(data), "matches": bool(ok)})
        self.pos += len(data)


class Upload:
    pass


def do_upload(workdir, data, k, n, nservers, segsize, seed, key=None, tamper_seg=None):
    """Upload `data` on a fresh grid; returns Upload(cap, shares {shnum: file bytes}, params)."""
    g = Grid(workdir, num_servers=nservers, k=k, n=n, happy=1, max_segment_size=segsize, seed=seed)
    u = upload.Data(data, convergence=b"conv")
    if key is not None:
        u._key = key
    orig = encode.Encoder._gather_data
    calls = [0]

    def tampering(self, num_chunks, input_chunk_size, hasher, allow_short=False):
        d = orig(self, num_chunks, input_chunk_size, hasher, allow_short)
        segnum = calls[0]
        calls[0] += 1
        if segnum == tamper_seg:
            def _flip(pieces):
                p0 = bytes([pieces[0][0] ^ 0x55]) + pieces[0][1:]
                return [p0] + list(pieces[1:])
            d.addCallback(_flip)
        return d

    if tamper_seg is not None:
        encode.Encoder._gather_data = tampering
    try:
        # every fifth file is stored in the 64-bit share layout (v2, what files beyond 4 GiB get): the downloader, which
        # guesses the layout from the cap before it has seen a share, must read both
        from allmydata.immutable import layout as _layout
        _layout.FORCE_V2 = (seed % 5 == 2)
        try:
            res = g.run(g.uploader.upload(u))
        finally:
            _layout.FORCE_V2 = False
    finally:
        encode.Encoder._gather_data = orig
    up = Upload()
    up.grid = g
    up.cap = res.get_uri()
    up.u = uri_mod.from_string(up.cap)
    up.si = up.u.get_storage_index()
    up.shares = {}
    for srv, d in g.shares(up.si).items():
        for shnum, path in d.items():
            up.shares[shnum] = read_file(path)
    assert len(up.shares) == n, (sorted(up.shares), n)
    return up


# ------------------------------------------------------------------------------------------------
class Scenario:
    def __init__(self, rng, profile, workdir, idx):
        self.rng, self.profile, self.workdir, self.idx = rng, profile, workdir, idx
        self.events = []

    # ---------- construction ----------
    def build(self):
        rng = self.rng
        prof = self.profile
        k = rng.choice([1, 2, 2, 2, 3])
        n = rng.randint(k, min(k + 3, 5))
        if prof == "c03" and rng.random() < 0.5:
            n = max(n, k + 1)
        S = rng.randint(1, n + 3)
        # files of <= 55 bytes are LIT caps (no shares): sizes 56..140, 1..4 segments
        size = rng.randint(56, 140)
        want = rng.choice([1, 2, 2, 3, 3, 4])
        segsize = mathutil.next_multiple(mathutil.div_ceil(size, want), k)
        numsegs = mathutil.div_ceil(size, segsize)
        # "decode gap" scenarios (profile c03, every tenth): 2-of-3, one share per server, 2..3 segments, no damage; the
        # share-discovery answer of one server arrives while segment 0 is being decoded (slow CPU pool), and after segment 0
        # has been delivered one of the two servers used so far loses its connection: k good shares stay reachable
        self.gap = (prof == "c03" and self.idx % 10 == 9)
        if self.gap:
            k, n, S = 2, 3, 3
            want = rng.choice([2, 3])
            segsize = mathutil.next_multiple(mathutil.div_ceil(size, want), k)
            numsegs = mathutil.div_ceil(size, segsize)
        self.k, self.n, self.S, self.segsize, self.size, self.numsegs = k, n, S, segsize, size, numsegs
        self.plaintext = bytes(rng.getrandbits(8) for _ in range(size))
        # inconsistent encoding (tampering encoder)
        p_tamper = {"c46": 0.45, "c02": 0.2, "c03": 0.0}[prof]
        self.tamper_seg = rng.randrange(numsegs) if rng.random() < p_tamper else None
        up = do_upload(os.path.join(self.workdir, "up"), self.plaintext, k, n, max(S, 1), segsize, self.idx,
                       tamper_seg=self.tamper_seg)
        self.up = up
        self.g = g = up.grid
        self.pristine = dict(up.shares)                    # shnum -> file bytes
        self.layouts = {sh: Layout(b[CONTAINER_HDR:], k, n, size, segsize) for sh, b in self.pristine.items()}
        lay0 = self.layouts[0]
        assert lay0.numsegs == numsegs
        self.sidir = storage_index_to_dir(up.si)
        # genuine block bytes per (shnum, seg)
        self.blocks = {}
        for sh, b in self.pristine.items():
            for seg in range(numsegs):
                st, ln = self.layouts[sh].block_range(seg)
                self.blocks[(sh, seg)] = b[CONTAINER_HDR + st: CONTAINER_HDR + st + ln]
        self._other_file = None
        self._other_enc = None
        self.place()
        if self.gap:
            names = sorted(self.g.servers)
            for i in list(self.inst):                       # spread placement, whatever place() chose
                if os.path.exists(self.path(*i)):
                    os.unlink(self.path(*i))
            self.inst = [(names[sh], sh) for sh in range(self.n)]
            for (srv, sh) in self.inst:
                os.makedirs(os.path.dirname(self.path(srv, sh)), exist_ok=True)
                write_file(self.path(srv, sh), self.pristine[sh])
            self.content = {i: self.pristine[i[1]] for i in self.inst}
            self.damaged, self.liars = {}, {}
            self.reset_everheld()
            # (not server_faults(): it removes servers from the grid)
            self.mode = {s2: "ok" for s2 in names}
            self.late = set()
            self.nth = {s2: 1 for s2 in names}
            self.calls = {s2: 0 for s2 in names}
            self.lost = []
            self.fail_lost = True
            order = list(names)
            rng.shuffle(order)
            self.gap_server, self.gap_victim, self.gap_killed = order[0], order[1], False
            self.reads = [{"id": "r0", "node": "n0", "off": 0, "len": self.size, "trig": "now", "steps": 1}]
            if rng.random() < 0.5:
                self.reads.append({"id": "r1", "node": "n0", "off": 0, "len": self.size, "trig": "quiescent", "steps": 1})
            return
        self.damage()
        self.server_faults()
        self.plan_reads()

    def path(self, srv, sh):
        return os.path.join(self.g.servers[srv].ss.sharedir, self.sidir, "%d" % sh)

    def place(self):
        """Choose the placement: remove every uploaded share file, then write the chosen instances."""
        rng, g = self.rng, self.g
        for srv, d in g.shares(self.up.si).items():
            for sh, p in d.items():
                os.unlink(p)
        names = sorted(g.servers)
        inst = set()
        mode = rng.choice(["spread", "spread", "clump", "dups", "random"])
        shn = list(range(self.n))
        if mode == "spread":
            for sh in shn:
                inst.add((names[sh % len(names)], sh))
        elif mode == "clump":
            few = rng.sample(names, min(len(names), rng.randint(1, 2)))
            for sh in shn:
                inst.add((rng.choice(few), sh))
        elif mode == "dups":
            for sh in shn:
                for srv in rng.sample(names, min(len(names), rng.randint(1, 3))):
                    inst.add((srv, sh))
        else:
            for sh in shn:
                if rng.random() < 0.85:
                    inst.add((rng.choice(names), sh))
        for (srv, sh) in inst:
            os.makedirs(os.path.dirname(self.path(srv, sh)), exist_ok=True)
            write_file(self.path(srv, sh), self.pristine[sh])
        self.inst = sorted(inst)
        self.content = {i: self.pristine[i[1]] for i in self.inst}      # current file content (None = deleted)
        self.everheld = {i: [self.pristine[i[1]]] for i in self.inst}   # every content the file ever had
        self.damaged = {}                                               # instance -> list of damage labels
        self.liars = {}                                                 # instance -> alternative content

    def other_file(self):
        if self._other_file is None:
            data = bytes(self.rng.getrandbits(8) for _ in range(self.size))
            self._other_file = do_upload(os.path.join(self.workdir, "other"), data, self.k, self.n, 1, self.segsize, 1000 + self.idx)
            self._other_file.grid.close()
        return self._other_file

    def other_encoding(self):
        """Same plaintext and same key (hence same storage index), different segment size or N."""
        if self._other_enc is None:
            key = self.up.u.key
            if self.rng.random() < 0.5 or self.k == 1 and self.segsize == 1:
                n2, seg2 = self.n + 1, self.segsize
            else:
                n2, seg2 = self.n, self.segsize + self.k
            o = do_upload(os.path.join(self.workdir, "enc"), self.plaintext, self.k, n2, 1, seg2, 2000 + self.idx, key=key)
            assert o.si == self.up.si
            o.grid.close()
            self._other_enc = o
        return self._other_enc

    def set_content(self, i, b, label):
        self.content[i] = b
        if b is None:
            if os.path.exists(self.path(*i)):
                os.unlink(self.path(*i))
        else:
            write_file(self.path(*i), b)
            self.everheld[i].append(b)
        self.damaged.setdefault(i, []).append(label)

    def damage_one(self, i, b):
        """Return (new content or None, label) for one damage operation on content b of instance i."""
        rng = self.rng
        sh = i[1]
        lay = self.layouts[sh]
        fields = lay.fields()
        op = rng.choice(["field", "field", "field", "field", "block", "block", "delete", "truncate", "flip", "otherfile",
                         "otherenc", "unusedfield", "container"] + (["tiny"] if self.profile == "c46" else []))
        if self.profile == "c46" and rng.random() < 0.06:
            op = "tiny"
        if op == "tiny":
            # the share data (file minus 12-byte container header minus one 72-byte lease) becomes shorter than the
            # share's own offset table (0x24 bytes), possibly shorter than the version field or empty
            cut = CONTAINER_HDR + 72 + rng.choice([0, 1, 3, 4, 13, 35])
            return b[:cut], "tiny@%d" % cut
        if op == "delete":
            return None, "delete"
        if op == "truncate":
            cut = rng.randint(0, len(b) - 1)
            return b[:cut], "truncate@%d" % cut
        if op == "flip":
            ba = bytearray(b)
            for _ in range(rng.randint(1, 3)):
                pos = rng.randrange(CONTAINER_HDR, CONTAINER_HDR + lay.end)
                if pos < len(ba):
                    ba[pos] ^= 1 << rng.randrange(8)
            return bytes(ba), "flip"
        if op == "otherfile":
            return self.other_file().shares[sh], "otherfile"
        if op == "otherenc":
            o = self.other_encoding()
            return o.shares[sh if sh in o.shares else 0], "otherenc"
        if op == "container":
            ba = bytearray(b)
            ba[rng.randrange(0, 4)] ^= 0xff
            return bytes(ba), "container"
        if op == "block":
            nm = "block%d" % rng.randrange(lay.numsegs)
        elif op == "unusedfield":
            nm = "off_plaintext"
        else:
            nm = rng.choice([f for f in USED_FIELDS if f in fields])
        st, ln = fields[nm]
        ba = bytearray(b)
        how = rng.choice(["bit", "bit", "byte", "zero", "plus"])
        pos = CONTAINER_HDR + st + rng.randrange(ln)
        if pos >= len(ba):
            return b[:CONTAINER_HDR + st], "truncate@%s" % nm
        if how == "bit":
            ba[pos] ^= 1 << rng.randrange(8)
        elif how == "byte":
            ba[pos] = (ba[pos] + rng.randint(1, 255)) % 256
        elif how == "zero":
            for p in range(CONTAINER_HDR + st, min(len(ba), CONTAINER_HDR + st + ln)):
                ba[p] = 0
        else:
            # offsets / lengths: add a small amount to the big-endian integer
            if ln == 4:
                (v,) = struct.unpack(">L", bytes(ba[CONTAINER_HDR + st:CONTAINER_HDR + st + 4]))
                v = (v + rng.choice([1, 2, 32, 34, 1000, 2 ** 31])) % 2 ** 32
                ba[CONTAINER_HDR + st:CONTAINER_HDR + st + 4] = struct.pack(">L", v)
            else:
                ba[pos] ^= 0x80
        if bytes(ba) == b:
            ba[pos] ^= 1
        return bytes(ba), nm

    def damage(self):
        rng = self.rng
        if not self.inst:
            self.reset_everheld()
            return
        frac = rng.choice([0.0, 0.2, 0.4, 0.6, 0.8, 1.0])
        if self.profile == "c02":
            frac = rng.choice([0.4, 0.6, 0.8, 1.0, 1.0])
        victims = [i for i in self.inst if rng.random() < frac]
        # "wholesale substitution" scenarios: every instance replaced by the other file / the other encoding
        if self.profile == "c02" and rng.random() < 0.15:
            # colluding servers: every (or all but one) instance carries the blocks and hash chains of ANOTHER file of
            # the same shape, but the genuine URI extension block, so each forged share passes the UEB check and is
            # rejected only at the share-hash / block-hash level - again and again, on the same validation trees
            keep = rng.sample(self.inst, min(len(self.inst), rng.choice([0, 0, 1])))
            for i in self.inst:
                if i in keep:
                    continue
                sh = i[1]
                o = self.other_file()
                if sh not in o.shares or self.content[i] is None:
                    continue
                lay = self.layouts[sh]
                ob = bytearray(o.shares[sh])
                mine = self.content[i]
                a = CONTAINER_HDR + lay.off["uri_extension"]
                z = CONTAINER_HDR + lay.end
                if len(ob) >= z and len(mine) >= z:
                    ob[a:z] = mine[a:z]
                    self.set_content(i, bytes(ob), "otherfile_genuine_ueb")
            self.reset_everheld()
            return
        if self.profile == "c02" and rng.random() < 0.3:
            which = rng.choice(["otherfile", "otherenc"])
            keep = rng.sample(self.inst, min(len(self.inst), rng.choice([0, 0, 1])))
            for i in self.inst:
                if i in keep:
                    continue
                o = self.other_file() if which == "otherfile" else self.other_encoding()
                self.set_content(i, o.shares[i[1] if i[1] in o.shares else 0], which)
            self.reset_everheld()
            return
        for i in victims:
            b = self.content[i]
            for _ in range(rng.choice([1, 1, 1, 2])):
                if b is None:
                    break
                nb, label = self.damage_one(i, b)
                if rng.random() < 0.12 and nb is not None and i not in self.liars:
                    # lying server: alternates between damaged and previous content during the download
                    self.liars[i] = (b, nb)
                    self.set_content(i, nb, "lying:" + label)
                else:
                    self.set_content(i, nb, label)
                b = nb
        self.reset_everheld()

    def reset_everheld(self):
        """What each share file can show the downloader: its content at the start of the download (plus the
        alternative content of a lying instance)."""
        self.everheld = {i: ([self.content[i]] if self.content[i] is not None else []) for i in self.inst}
        for i, (a, b) in self.liars.items():
            for c in (a, b):
                if c is not None and c not in self.everheld[i]:
                    self.everheld[i].append(c)

    def server_faults(self):
        rng = self.rng
        names = sorted(self.g.servers)
        self.mode = {s: "ok" for s in names}
        pf = rng.choice([0.0, 0.0, 0.2, 0.4, 0.7])
        for s in names:
            if rng.random() < pf:
                self.mode[s] = rng.choice(["dyhb_raise", "read_raise", "read_raise_some", "disconnect", "lose", "lose_forever",
                                           "removed", "flaky"])
        # a damaged container header makes get_buckets raise for the whole server: that server does not answer
        for i, labels in self.damaged.items():
            if any("container" in l for l in labels) or (self.content[i] is not None and len(self.content[i]) < CONTAINER_HDR):
                if self.mode[i[0]] == "ok":
                    self.mode[i[0]] = "container"
        for s in names:
            if self.mode[s] == "removed":
                self.g.remove_server(s)
        self.late = {s for s in names if rng.random() < 0.2}      # answers held back until timers fired
        self.nth = {s: rng.randint(1, 6) for s in names}          # disconnect / lose at the nth call
        self.calls = {s: 0 for s in names}
        self.lost = []                                            # Pending objects that were "lost"
        self.fail_lost = True

    def plan_reads(self):
        rng = self.rng
        nreads = rng.choice([1, 2, 2, 3, 3, 4])
        if self.profile == "c46":
            nreads = rng.choice([2, 3, 3, 4])
        self.reads = []
        for r in range(nreads):
            kind = rng.choice(["whole", "whole", "range", "range", "seg", "beyond"])
            if kind == "whole":
                off, ln = 0, self.size
            elif kind == "range":
                off = rng.randrange(self.size)
                ln = rng.randint(1, self.size - off)
            elif kind == "seg":
                s = rng.randrange(self.numsegs)
                off = s * self.segsize
                ln = min(self.segsize, self.size - off)
            else:
                off = rng.randint(0, self.size + 2)
                ln = rng.randint(0, self.size + 3)
            node = 0 if (r == 0 or rng.random() < 0.8) else 1
            trig = rng.choice(["now", "now", "steps", "after", "quiescent", "quiescent"]) if r > 0 else "now"
            if self.profile == "c46" and r > 0 and rng.random() < 0.3:
                trig, kind = "now", "seg"          # concurrent reads that want different segments of the same node
                s = rng.randrange(self.numsegs)
                off = s * self.segsize
                ln = min(self.segsize, self.size - off)
            self.reads.append({"id": "r%d" % r, "node": "n%d" % node, "off": off, "len": ln, "trig": trig,
                               "steps": rng.randint(1, 12)})
        if self.profile == "c02" and self.size >= 2:
            # chained reads (an open file handle read piecewise): a read that ends at P, then - once everything has
            # settled - two overlapping reads that both start at P on the same node.  Own generator: the scenarios of
            # the main stream stay what they were.
            r2 = random.Random("chain-%d-%d-%d" % (self.idx, self.size, len(self.reads)))
            if r2.random() < 0.3:
                P = r2.randint(1, self.size - 1)
                if r2.random() < 0.3 and self.numsegs > 1:
                    P = r2.randrange(1, self.numsegs) * self.segsize
                nid = len(self.reads)
                for j, (off, ln, trig) in enumerate([(0, P, "quiescent"),
                                                     (P, r2.randint(1, self.size - P), "quiescent"),
                                                     (P, r2.randint(1, self.size - P), r2.choice(["now", "now", "steps"]))]):
                    self.reads.append({"id": "r%d" % (nid + j), "node": "n0", "off": off, "len": ln, "trig": trig,
                                       "steps": r2.randint(1, 6)})
        if self.profile == "c46" and len(self.reads) >= 2 and rng.random() < 0.3:
            # a reader that goes away (its consumer calls stopProducing, as a closed HTTP connection does) while other
            # readers of the same node are waiting: the others must still be served
            victim = rng.choice(self.reads[:-1]) if rng.random() < 0.8 else rng.choice(self.reads)
            victim["stop_after"] = rng.choice([0, 0, 1, 2, 4, 9])

    # ---------- ground truth ----------
    def ground_truth(self):
        faulty = {s for s, m in self.mode.items() if m != "ok"}
        strict = []
        for i in self.inst:
            if i[0] in faulty or i in self.liars:
                continue
            c = self.content[i]
            if c is not None and c == self.pristine[i[1]]:
                strict.append([i[0], "sh%d" % i[1]])
        usable = []
        for seg in range(self.numsegs):
            u = set()
            for i in self.inst:
                if self.mode[i[0]] == "removed":
                    continue
                blk = self.blocks[(i[1], seg)]
                if any(blk in c for c in self.everheld[i]):
                    u.add("sh%d" % i[1])
            usable.append(sorted(u))
        return strict, usable

    # ---------- execution ----------
    def start_read(self, spec):
        node = self.nodes.get(spec["node"])
        if node is None:
            randomize_guess(self.rng, getattr(self, "segsize", None), allow_lt=(self.profile == "c02"))
            node = self.nodes[spec["node"]] = self.g.nodemaker.create_from_cap(self.up.cap)
        self.events.append({"ev": "Read", "r": spec["id"], "node": spec["node"], "off": spec["off"], "len": spec["len"]})
        cons = RecConsumer(self, spec["id"], spec["off"])
        self.pending_reads.add(spec["id"])
        if "stop_after" in spec:
            self.stoppers.append([spec["stop_after"], spec["id"], cons])
        try:
            d = node.read(cons, spec["off"], spec["len"])
        except Exception as e:      # synchronous failure of read() is a result, too
            d = defer.fail(Failure(e))

        def _done(res, rid=spec["id"]):
            if isinstance(res, Failure):
                cls = res.type.__name__
                if res.check(RemoteException):
                    cls = "RemoteException"
                self.events.append({"ev": "ReadResult", "r": rid, "res": cls, "msg": str(res.value)[:200]})
            else:
                self.events.append({"ev": "ReadResult", "r": rid, "res": "ok", "msg": ""})
            self.pending_reads.discard(rid)
            self.resolved_order.append(rid)
        d.addBoth(_done)

    def fault_for(self, p):
        """Fault to inject when delivering pending call p (by the mode of its server)."""
        s = p.server
        if s not in self.mode:
            return None
        m = self.mode[s]
        self.calls[s] += 1
        c = self.calls[s]
        meth = p.methname
        if m == "dyhb_raise" and meth == "get_buckets":
            return "raise"
        if m == "read_raise" and meth == "read":
            return "raise"
        if m == "read_raise_some" and meth == "read" and self.rng.random() < 0.5:
            return "raise"
        if m == "flaky" and self.rng.random() < 0.3:
            return self.rng.choice(["raise", "disconnect"])
        if m == "disconnect" and c >= self.nth[s]:
            return "disconnect"
        if m in ("lose", "lose_forever") and c == self.nth[s]:
            return "lose"
        return None

    def lie(self):
        """Lying servers: flip every lying instance between its two contents."""
        for i, (a, b) in self.liars.items():
            cur = self.content[i]
            new = a if cur == b else b
            if new is None:
                continue
            write_file(self.path(*i), new)
            self.content[i] = new
            if new not in self.everheld[i]:
                self.everheld[i].append(new)

    def env_step(self):
        """One environment step; False when nothing is enabled (quiescent)."""
        g, rng = self.g, self.rng
        settle()
        pend = g.pending
        ready = [j for j, p in enumerate(pend) if p.server not in self.late]
        held = [j for j, p in enumerate(pend) if p.server in self.late]
        nt = vr.next_timer()
        choice = None
        if getattr(self, "gap", False):
            in_gap = nt is not None and 0.001 < nt <= 0.0051            # a decode is running on the (slow) CPU pool
            slow = [j for j, p in enumerate(pend) if p.server == self.gap_server and p.methname == "get_buckets"]
            if slow and in_gap:
                ready, held = slow, []
            elif slow:
                ready, held = [j for j in ready if j not in slow], slow
            if not self.gap_killed and any(e["ev"] == "Deliver" for e in self.events):
                self.gap_killed = True
                self.mode[self.gap_victim] = "disconnect"
                self.nth[self.gap_victim] = 0
        if ready and not (nt is not None and rng.random() < 0.03):
            choice = rng.choice(ready)
        elif nt is not None:
            vr.advance(nt)
            settle()
            return True
        elif held:
            choice = rng.choice(held)
        elif self.lost and self.fail_lost:
            # the connection of a lost call finally drops: the call fails
            p = self.lost.pop(rng.randrange(len(self.lost)))
            p.ref.fire_disconnect()
            p.d.errback(Failure(DeadReferenceError("connection lost (injected, late)")))
            settle()
            return True
        else:
            return False
        p = pend[choice]
        fault = self.fault_for(p)
        if self.liars and rng.random() < 0.5:
            self.lie()
        if fault == "lose":
            self.lost.append(p)
        sig = (p.server, p.methname, repr(p.args), id(p.ref.original))
        if len(self.events) != self.last_nev:
            self.seen, self.repeat = {}, 0
        if sig in self.seen and fault is None:
            self.repeat += 1
        else:
            self.repeat = 0
        self.seen.setdefault(sig, [0, p])[0] += 1
        self.last_nev = len(self.events)
        g.deliver(choice, fault)
        settle()
        return True

    def livelock_cause(self):
        """Classify the calls that repeat for ever (for the structural key of the finding)."""
        loops = [p for (cnt, p) in self.seen.values() if cnt >= 20]
        if not loops:
            return "unclassified"
        if any(p.methname != "read" for p in loops):
            return "repeated_" + sorted({p.methname for p in loops if p.methname != "read"})[0]
        try:
            for p in loops:
                sf = p.ref.original._bucket_reader._share_file
                if sf._lease_offset - sf._data_offset >= 0x24:
                    return "repeated_read"
        except Exception:
            return "repeated_read"
        return "share_shorter_than_offset_table"

    def run(self):
        rng = self.rng
        self.nodes = {}
        self.pending_reads = set()
        self.resolved_order = []
        self.fail_lost = not any(m == "lose_forever" for m in self.mode.values())
        self.g.log_calls = False
        self.seen, self.last_nev, self.repeat = {}, 0, 0
        todo = list(self.reads)
        steps = 0
        countdown = None
        self.stoppers = []
        self.start_read(todo.pop(0))
        nres = 0
        while True:
            # trigger of the next read
            if todo:
                t = todo[0]
                if t["trig"] == "now":
                    self.start_read(todo.pop(0))
                    continue
                if t["trig"] == "steps":
                    if countdown is None:
                        countdown = t["steps"]
                    if countdown <= 0:
                        countdown = None
                        self.start_read(todo.pop(0))
                        continue
                if t["trig"] == "after" and len(self.resolved_order) > nres:
                    nres = len(self.resolved_order)
                    self.start_read(todo.pop(0))
                    continue
            due = [st for st in self.stoppers if st[0] <= 0 and not any(t2.get("trig") == "now" for t2 in todo[:1])]
            for st in due:
                self.stoppers.remove(st)
                if st[1] in self.pending_reads and st[2].producer is not None:
                    self.events.append({"ev": "Stop", "r": st[1]})
                    st[2].producer.stopProducing()
            if self.env_step():
                steps += 1
                for st in self.stoppers:
                    st[0] -= 1
                if countdown is not None:
                    countdown -= 1
                if self.repeat >= LIVELOCK_REPEATS:
                    # LIVELOCK_REPEATS deliveries in a row, each a remote call (same object, method, arguments) that
                    # was already answered since the last read event: the client is in an endless request loop
                    self.events.append({"ev": "Livelock", "unresolved": sorted(self.pending_reads),
                                        "cause": self.livelock_cause(), "repeats": self.repeat})
                    break
                if steps > 50000:
                    raise RuntimeError("scenario does not terminate")
                continue
            # quiescent
            self.events.append({"ev": "Quiescent", "unresolved": sorted(self.pending_reads), "outstanding": len(self.lost)})
            if self.pending_reads and not self.lost:
                break        # hung: nothing more can happen on this node
            if not todo:
                break
            nres = len(self.resolved_order)
            countdown = None
            self.start_read(todo.pop(0))
        strict, usable = self.ground_truth()
        consts = {"k": self.k, "n": self.n, "numsegs": self.numsegs, "segsize": self.segsize, "size": self.size,
                  "strict": strict, "usable": usable,
                  "badsegs": [] if self.tamper_seg is None else [self.tamper_seg],
                  "servers": len(self.g.servers), "instances": [[s, "sh%d" % sh] for (s, sh) in self.inst],
                  "modes": {s: m for s, m in self.mode.items()}, "late": sorted(self.late),
                  "damage": {"%s/sh%d" % i: l for i, l in sorted(self.damaged.items())},
                  "liars": ["%s/sh%d" % i for i in sorted(self.liars)], "steps": steps}
        self.g.close()
        return {"consts": consts, "events": self.events}


def main():
    ap = argparse.ArgumentParser()
    ap.add_argument("--out", required=True)
    ap.add_argument("--seed", type=int, default=0)
    ap.add_argument("--tier", default="quick")
    ap.add_argument("--in", dest="inp")
    ap.add_argument("--profile", default="c03")
    ap.add_argument("--n", type=int, default=100)
    ap.add_argument("--only", type=int, default=-1)
    a = ap.parse_args()
    traces = []
    # share files live on tmpfs when available (building a grid is ~7x faster there than on the disk)
    shm = "/dev/shm" if os.path.isdir("/dev/shm") and os.access("/dev/shm", os.W_OK) else None
    base = tempfile.mkdtemp(prefix="dl_drv_", dir=shm)
    try:
        for idx in range(a.n):
            if a.only >= 0 and idx != a.only:
                continue
            rng = random.Random("%s/%d/%d" % (a.profile, a.seed, idx))
            wd = os.path.join(base, "sc%d" % idx)
            sc = Scenario(rng, a.profile, wd, idx)
            vreactor.CPU_DELAY[0] = 0.0
            sc.build()
            # every third scenario has a slow CPU pool: the network answers in flight are delivered while a segment is
            # being decoded (otherwise the decode completes in the next reactor turn)
            slow = idx % 3 == 2 or getattr(sc, "gap", False)
            vreactor.CPU_DELAY[0] = 0.005 if slow else 0.0
            tr = sc.run()
            vreactor.CPU_DELAY[0] = 0.0
            tr["consts"]["scenario"] = idx
            tr["consts"]["slow_cpu"] = slow
            tr["consts"]["decode_gap"] = bool(getattr(sc, "gap", False))
            traces.append(tr)
            shutil.rmtree(wd, ignore_errors=True)
            for c in list(vr.getDelayedCalls()):
                c.cancel()
    finally:
        shutil.rmtree(base, ignore_errors=True)
    with open(a.out, "w") as f:
        json.dump(traces, f)


if __name__ == "__main__":
    main()
