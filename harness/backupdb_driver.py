"""Drive a real allmydata.scripts.backupdb.BackupDB_v2 through seeded histories
and record one event per BackupDB.tla operator (for TraceBackupDB.tla).

The database is a real sqlite file opened with backupdb.get_backupdb(); local
files are real files whose size (truncate) and mtime (os.utime) are set on disk.
Three things are interposed in the module under test, because the history must
control them: `os.stat` (the real result with st_ctime replaced by the scripted
change time - ctime cannot be set on disk), `time.time` (a clock in whole days)
and `random.random` (the scripted draw for should_check).

Caps are bytes, as `tahoe backup` passes them.  After every call the four tables
are dumped (paths mapped back to the short file names, times to days, directory
hashes to the contents for which the code computed them).  Nothing is judged here.
"""
import argparse, json, os, random, shutil, sqlite3, stat, sys, tempfile

from allmydata.scripts import backupdb

DAY = 24 * 60 * 60


class FakeTime:
    def __init__(self):
        self.days = 1000

    def time(self):
        return float(self.days * DAY)


class FakeRandom:
    def __init__(self):
        self.pm = 500

    def random(self):
        return self.pm / 1000.0


class OsProxy:
    """`os` as seen by backupdb: stat() reports the scripted ctime."""
    def __init__(self, ctimes):
        self.ctimes = ctimes
        self.path = os.path

    def stat(self, path):
        s = os.stat(path)
        l = list(s[:10])
        l[stat.ST_CTIME] = self.ctimes[os.path.abspath(path)]
        return os.stat_result(tuple(l))

    def __getattr__(self, name):
        return getattr(os, name)


class Run:
    def __init__(self, rng, workdir):
        self.rng = rng
        self.dir = tempfile.mkdtemp(prefix="bdb", dir=workdir)
        self.fdir = os.path.join(self.dir, "files")
        os.mkdir(self.fdir)
        self.dbfile = os.path.join(self.dir, "backupdb.sqlite")
        self.clock = FakeTime()
        self.rnd = FakeRandom()
        self.ctimes = {}
        backupdb.time = self.clock
        backupdb.random = self.rnd
        backupdb.os = OsProxy(self.ctimes)
        self.bdb = backupdb.get_backupdb(self.dbfile)
        assert self.bdb is not None
        self.bdb.connection.execute("PRAGMA synchronous=OFF")      # speed only: no fsync per commit
        self.names = ["f0", "f1", "f2"]
        self.content = {}          # name -> content id (decides the cap an upload yields)
        self.events = []
        self.fres = {}             # rid -> FileResult
        self.dres = {}             # did -> (DirectoryResult, contents)
        self.hash2contents = {}
        self.nr = 0
        self.filecaps = []         # caps handed to did_upload so far
        self.dircaps = 0
        self.broken = False        # a call raised: the history ends there

    # what the files are called on disk.  In every third history f1 and f2 are siblings whose names differ only in their
    # Unicode normalisation form (distinct files on this filesystem, e.g. a tree copied from macOS): the database must
    # keep them apart like any two files
    disk_names = {}

    def apath(self, name):
        return os.path.join(self.fdir, self.disk_names.get(name, name))

    # -- the local files
    def set_file(self, name, size=None, mtime=None, ctime=None, content=None):
        p = self.apath(name)
        if not os.path.exists(p):
            open(p, "wb").close()
            self.ctimes[os.path.abspath(p)] = 2000
            self.content[name] = 0
            os.utime(p, (1000, 1000))
        if mtime is None:
            mtime = int(os.stat(p).st_mtime)        # truncate must not disturb the scripted mtime
        if size is not None:
            with open(p, "r+b") as f:
                f.truncate(size)
        os.utime(p, (mtime, mtime))
        if ctime is not None:
            self.ctimes[os.path.abspath(p)] = ctime
        if content is not None:
            self.content[name] = content

    def rename(self, a, b):
        pa, pb = self.apath(a), self.apath(b)
        if not os.path.exists(pa):
            return False
        st = os.stat(pa)
        os.rename(pa, pb)
        os.utime(pb, (int(st.st_mtime), int(st.st_mtime)))
        self.ctimes[os.path.abspath(pb)] = self.ctimes.pop(os.path.abspath(pa)) + 1   # a rename changes ctime
        self.content[b] = self.content.pop(a)
        return True

    # -- observation
    def obs(self):
        con = sqlite3.connect(self.dbfile)
        c = con.cursor()
        files = []
        for (path, size, mtime, ctime, fileid) in c.execute("SELECT path,size,mtime,ctime,fileid FROM local_files"):
            rel = os.path.relpath(path, self.fdir)
            rel = {v: k for k, v in self.disk_names.items()}.get(rel, rel)
            files.append({"path": rel, "size": size, "mtime": mtime, "ctime": ctime, "fileid": fileid})
        caps = [{"id": i, "cap": self.s(cap)} for (i, cap) in c.execute("SELECT fileid,filecap FROM caps")]
        lu = [{"id": i, "up": self.d(u), "chk": self.d(k)} for (i, u, k) in c.execute("SELECT fileid,last_uploaded,last_checked FROM last_upload")]
        dirs = []
        for (h, cap, u, k) in c.execute("SELECT dirhash,dircap,last_uploaded,last_checked FROM directories"):
            h = h.decode() if isinstance(h, bytes) else h
            dirs.append({"key": self.hash2contents.get(h, [["?unknown-hash", h]]), "cap": self.s(cap), "up": self.d(u), "chk": self.d(k)})
        try:
            seq = list(c.execute("SELECT seq FROM sqlite_sequence WHERE name='caps'"))
            nextid = (seq[0][0] + 1) if seq else 1
        except sqlite3.OperationalError:
            nextid = -1                      # the caps table has no AUTOINCREMENT bookkeeping
        con.close()
        return {"files": files, "caps": caps, "lu": lu, "dirs": dirs, "nextid": nextid}

    @staticmethod
    def s(x):
        return x.decode() if isinstance(x, bytes) else x

    @staticmethod
    def d(t):
        return int(t // DAY) if t == int(t) and int(t) % DAY == 0 else -1

    def call(self, fn, *a, **kw):
        """One call of the code under test; an exception is recorded, not judged."""
        try:
            return fn(*a, **kw), ""
        except Exception as ex:
            self.broken = True
            return None, type(ex).__name__

    def record(self, ev, raised=""):
        ev["raised"] = raised
        ev["now"] = self.clock.days
        ev["obs"] = self.obs()
        self.events.append(ev)

    # -- the calls
    def check_file(self, name, use_ts, relative):
        p = self.apath(name)
        s = os.stat(p)
        st = {"size": s.st_size, "mtime": int(s.st_mtime), "ctime": self.ctimes[os.path.abspath(p)]}
        self.rnd.pm = self.rng.choice([0, 100, 333, 500, 900, 999])
        arg = os.path.relpath(p, os.getcwd()) if relative else p
        r, x = self.call(self.bdb.check_file, arg, use_timestamps=use_ts)
        self.nr += 1
        self.fres[self.nr] = r
        cap = r.was_uploaded() if r else None
        self.record({"ev": "CheckFile", "rid": self.nr, "path": name, "st": st, "use_ts": use_ts, "rnd": self.rnd.pm,
                     "res": {"cap": self.s(cap) if cap else "", "should": bool(r.should_check()) if r else False}}, x)
        return self.nr, r

    def did_upload(self, rid, cap):
        _, x = self.call(self.fres[rid].did_upload, cap.encode())
        self.filecaps.append(cap)
        self.record({"ev": "DidUpload", "rid": rid, "cap": cap}, x)

    def did_check_healthy(self, rid):
        _, x = self.call(self.fres[rid].did_check_healthy, {"results": {"healthy": True}})
        self.record({"ev": "DidCheckHealthy", "rid": rid}, x)

    def check_dir(self, contents):
        self.rnd.pm = self.rng.choice([0, 100, 333, 500, 900, 999])
        r, x = self.call(self.bdb.check_directory, {n: c.encode() for (n, c) in contents})
        self.nr += 1
        self.dres[self.nr] = r
        if r:
            self.hash2contents.setdefault(self.s(r.dirhash), [list(y) for y in sorted(contents)])
        cap = r.was_created() if r else None
        self.record({"ev": "CheckDir", "did": self.nr, "contents": [list(y) for y in sorted(contents)], "rnd": self.rnd.pm,
                     "res": {"cap": self.s(cap) if cap else "", "should": bool(r.should_check()) if r else False}}, x)
        return self.nr, r

    def did_create(self, did, cap):
        _, x = self.call(self.dres[did].did_create, cap.encode())
        self.record({"ev": "DidCreate", "did": did, "cap": cap}, x)

    def did_check_dir_healthy(self, did):
        _, x = self.call(self.dres[did].did_check_healthy, {"results": {"healthy": True}})
        self.record({"ev": "DidCheckDirHealthy", "did": did}, x)

    def forget(self, which, cap):
        con = sqlite3.connect(self.dbfile)
        if which == "cap":
            con.execute("DELETE FROM caps WHERE filecap=?", (cap.encode(),))
        else:
            con.execute("DELETE FROM last_upload WHERE fileid IN (SELECT fileid FROM caps WHERE filecap=?)", (cap.encode(),))
        con.commit()
        con.close()
        self.record({"ev": "Forget", "which": which, "cap": cap})

    def reopen(self):
        self.bdb.connection.close()
        self.bdb = backupdb.get_backupdb(self.dbfile)
        self.bdb.connection.execute("PRAGMA synchronous=OFF")
        # results handed out earlier keep pointing at the old object; give them the new one, as a
        # new run of the tool would only ever use results of its own database object
        for r in list(self.fres.values()) + list(self.dres.values()):
            r.bdb = self.bdb
        self.record({"ev": "Reopen"})


def history(rng, workdir, nevents, unicode_siblings=False):
    r = Run(rng, workdir)
    if unicode_siblings:
        r.disk_names = {"f1": "caf\u00e9.txt", "f2": "cafe\u0301.txt"}
    os.chdir(r.dir)
    for n in r.names[:2]:
        r.set_file(n, size=rng.randint(0, 2), mtime=1000 + rng.randint(0, 1), ctime=2000 + rng.randint(0, 1), content=rng.randint(0, 2))
    dirnames = ["a", "b", "é"]
    while len(r.events) < nevents and not r.broken:
        x = rng.random()
        live = [n for n in r.names if os.path.exists(r.apath(n))]
        if x < 0.22:
            # a local change: any subset of size / mtime / ctime / content
            n = rng.choice(r.names)
            kw = {}
            if rng.random() < 0.5:
                kw["size"] = rng.randint(0, 2)
            if rng.random() < 0.5:
                kw["mtime"] = 1000 + rng.randint(0, 2)
            if rng.random() < 0.5:
                kw["ctime"] = 2000 + rng.randint(0, 2)
            if rng.random() < 0.5:
                kw["content"] = rng.randint(0, 2)
            r.set_file(n, **kw)
        elif x < 0.27 and len(live) >= 1:
            a = rng.choice(live)
            b = rng.choice([n for n in r.names if n != a])
            r.rename(a, b)
        elif x < 0.62 and live:
            # what the tool does with one file
            n = rng.choice(live)
            rid, res = r.check_file(n, use_ts=(rng.random() < 0.85), relative=(rng.random() < 0.3))
            y = rng.random()
            if r.broken:
                break
            if not res.was_uploaded():
                if y < 0.8:
                    r.did_upload(rid, "URI:CHK:c%d" % r.content[n])
            elif res.should_check():
                if y < 0.5:
                    r.did_check_healthy(rid)
                elif y < 0.9:
                    r.did_upload(rid, "URI:CHK:c%d" % rng.randint(0, 3))      # unhealthy: uploaded again
            elif y < 0.1:
                r.did_check_healthy(rid)
        elif x < 0.68 and r.fres:
            # a result used late (the file may have changed since)
            rid = rng.choice(sorted(r.fres))
            res = r.fres[rid]
            if res.was_uploaded() and rng.random() < 0.4:
                r.did_check_healthy(rid)
            else:
                r.did_upload(rid, "URI:CHK:c%d" % rng.randint(0, 3))
        elif x < 0.84:
            k = rng.randint(0, 3)
            names = rng.sample(dirnames, min(k, len(dirnames)))
            contents = [(nm, "URI:CHK:c%d" % rng.randint(0, 2)) for nm in names]
            did, res = r.check_dir(contents)
            y = rng.random()
            if r.broken:
                break
            if not res.was_created():
                if y < 0.8:
                    r.dircaps += 1
                    r.did_create(did, "URI:DIR2-CHK:d%d" % rng.randint(0, 2))
            elif res.should_check():
                if y < 0.5:
                    r.did_check_dir_healthy(did)
                elif y < 0.9:
                    r.did_create(did, "URI:DIR2-CHK:d%d" % rng.randint(0, 3))
            elif y < 0.1:
                r.did_check_dir_healthy(did)
        elif x < 0.92:
            r.clock.days += rng.choice([0, 1, 10, 20, 29, 30, 31, 45, 59, 60, 61, -5])
        elif x < 0.96 and r.filecaps:
            r.forget(rng.choice(["cap", "upload"]), rng.choice(r.filecaps))
        elif x < 0.98:
            r.reopen()
    tr = {"consts": {"files": r.names}, "events": r.events}
    r.bdb.connection.close()
    os.chdir(workdir)
    shutil.rmtree(r.dir, ignore_errors=True)
    return tr


def main():
    ap = argparse.ArgumentParser()
    ap.add_argument("--out")
    ap.add_argument("--seed", type=int, default=0)
    ap.add_argument("--tier", default="quick")
    ap.add_argument("--n", type=int, default=100)
    ap.add_argument("--events", type=int, default=30)
    a = ap.parse_args()
    a.out = os.path.abspath(a.out)
    rng = random.Random(7919 * a.seed + 42)
    work = tempfile.mkdtemp(prefix="bdbdrv", dir=os.getcwd())
    traces = [history(rng, work, a.events, unicode_siblings=(i % 3 == 1)) for i in range(a.n)]
    shutil.rmtree(work, ignore_errors=True)
    json.dump(traces, open(a.out, "w"))


if __name__ == "__main__":
    main()
