"""Driver for C13: concurrent whole-node operations of ONE client on one mutable
file / directory cap, on a SimGrid with seeded delivery order and injected
failures.  MutableFileNode._do_serialized is wrapped class-wide (in this process
only) and every call on the watched cap string is recorded as
Request / Start / Finish / Return events (spec/mutable/TraceSerializer.tla).

Every operation obtains its node with nodemaker.create_from_cap(cap) -- the
property is about nodes obtained through the same capability string.

Output: list of traces {"consts": {...}, "events": [...]}.
"""
import os as _os
_os.environ.setdefault("VERIF_ASYNC_CPU", "1")   # CPU-bound steps finish one reactor turn later, as in production
from vreactor import vr, settle
import argparse, json, os, random, shutil, sys, tempfile

from twisted.python.failure import Failure
from grid import Grid, Hang
import allmydata.mutable.publish as publish_mod
from allmydata.mutable.filenode import MutableFileNode
from allmydata.mutable.publish import MutableData
from allmydata.mutable.common import MODE_WRITE, UncoordinatedWriteError
from allmydata.interfaces import SDMF_VERSION, MDMF_VERSION
from allmydata.dirnode import Adder, Deleter, DirectoryNode, normalize
from allmydata.util import base32


class Recorder:
    def __init__(self):
        self.on = False
        self.watch = None      # cap string of the watched MutableFileNode
        self.kind = None
        self.events = []
        self.nops = 0
        self.running = []      # started, not finished (op ids)
        self.plan = {}         # op id -> fault plan
        self.faults = {}       # op id -> number of faults injected while it ran
        self.delivered = {}    # op id -> calls delivered while it ran
        self.smaps = {}        # id(servermap) -> op id of the smap op
        self.free_smaps = []   # servermap objects not yet used by an upload
        self.cancels = []      # [steps left, Deferred] of requests whose requester goes away
        self.childid = {}      # cap string of a child -> abstract id
        self.nsub = 0
        self.decoder = None    # DirectoryNode used to unpack directory contents
        self.planner = None

    def child_id(self, node, create=False):
        u = node.get_uri()
        if u not in self.childid:
            if not create:
                return 99
            self.nsub += 1
            self.childid[u] = 50 + self.nsub
        return self.childid[u]

    def abstract(self, data):
        if self.kind == "file":
            return list(data)
        children = self.decoder._unpack_contents(data)
        return {str(name): self.child_id(child) for name, (child, md) in children.items()}

    def empty(self):
        return [] if self.kind == "file" else {}


REC = Recorder()
_orig_do_serialized = MutableFileNode._do_serialized


def describe(cb, args):
    name = getattr(cb, "__name__", "?")
    if name == "_download_best_version":
        return {"kind": "read"}
    if name == "_get_servermap":
        return {"kind": "smap"}
    if name == "_overwrite":
        return {"kind": "over", "data": list(args[0]._filehandle.getvalue())}
    if name == "_upload":
        return {"kind": "upload", "data": list(args[0]._filehandle.getvalue()), "smap": REC.smaps.get(id(args[1]), 0)}
    if name == "_modify":
        m = args[0]
        owner = getattr(m, "__self__", None)
        if isinstance(owner, Adder):
            return {"kind": "set", "ow": owner.overwrite is True,
                    "entries": {str(normalize(n)): REC.child_id(child, create=True) for n, (child, md) in owner.entries.items()}}
        if isinstance(owner, Deleter):
            return {"kind": "del", "name": str(owner.name)}
        fn, tok = m.vf
        return {"kind": "mod", "fn": fn, "tok": tok}
    return {"kind": "unknown:" + name}


def _wrapped_do_serialized(self, cb, *args, **kwargs):
    if not REC.on or self.get_uri() != REC.watch:
        return _orig_do_serialized(self, cb, *args, **kwargs)
    REC.nops += 1
    op = REC.nops
    ev = {"ev": "Request", "op": op}
    ev.update(describe(cb, args))
    REC.events.append(ev)
    REC.plan[op] = REC.planner(ev) if REC.planner else ("none",)
    REC.faults[op] = 0
    REC.delivered[op] = 0

    def cb2(*a, **kw):
        REC.events.append({"ev": "Start", "op": op})
        REC.running.append(op)
        from twisted.internet import defer
        d = defer.maybeDeferred(cb, *a, **kw)      # a synchronous exception is a failed operation too

        def fin(r):
            if op in REC.running:
                REC.running.remove(op)
            st = "err" if isinstance(r, Failure) else "ok"
            res = REC.empty()
            if st == "ok" and ev["kind"] == "read":
                res = REC.abstract(r)
            if st == "ok" and ev["kind"] == "smap":
                REC.smaps[id(r)] = op
                REC.free_smaps.append((r, self))    # keep the node alive with its servermap (it knows the pubkey)
            e = {"ev": "Finish", "op": op, "st": st, "res": res, "faulty": REC.faults[op] > 0}
            if st == "err":
                e["error"] = r.type.__name__
            REC.events.append(e)
            return r
        d.addBoth(fin)
        return d
    cb2.__name__ = getattr(cb, "__name__", "cb")
    d = _orig_do_serialized(self, cb2, *args, **kwargs)

    def ret(r):
        REC.events.append({"ev": "Return", "op": op, "st": "err" if isinstance(r, Failure) else "ok"})
        return r
    d.addBoth(ret)
    return d


MutableFileNode._do_serialized = _wrapped_do_serialized


def litcap(v):
    return b"URI:LIT:" + base32.b2a(b"c%d" % v)


def fault_policy(rng, si):
    """Delivery order: uniformly random; faults only on calls for the watched storage index while
    an operation is running, according to the plan of that operation."""
    def pol(g):
        if not g.pending:
            return ("timer",)
        i = rng.randrange(len(g.pending))
        p = g.pending[i]
        fault = None
        if REC.running and p.ref.kind == "server" and p.args and p.args[0] == si:
            op = REC.running[-1]
            plan = REC.plan.get(op, ("none",))
            k = REC.delivered[op]
            REC.delivered[op] = k + 1
            if plan[0] == "reads" and p.methname == "slot_readv":
                fault = "raise"
            elif plan[0] == "writes" and p.methname == "slot_testv_and_readv_and_writev":
                fault = "raise"
            elif plan[0] == "one" and k == plan[1]:
                fault = plan[2]
            if fault:
                REC.faults[op] += 1
        return ("call", i, fault)
    return pol


def make_planner(rng, pfault):
    def planner(ev):
        x = rng.random()
        if x >= pfault:
            return ("none",)
        y = rng.random()
        if y < 0.2:
            return ("reads",)
        if y < 0.4:
            return ("writes",)
        return ("one", rng.randrange(0, 14), rng.choice(["raise", "disconnect"]))
    return planner


def gen_calls(rng, kind, n):
    calls = []
    at = 0
    for i in range(n):
        tok = i + 1
        if kind == "file":
            c = rng.choice(["read", "over", "append", "append", "raise", "noop", "smap", "upload", "collide", "collide"])
            call = {"api": c, "tok": tok}
        else:
            c = rng.choice(["list", "set_node", "set_node", "set_node_noow", "delete", "delete", "set_children", "mkdir"])
            call = {"api": c, "tok": tok, "name": rng.choice(["a", "b", "c"]), "name2": rng.choice(["a", "b", "c"])}
        # most requests arrive while earlier operations are still in progress
        at += rng.choice([0, 0, 0, 1, 2, 3, 5, 8, 13, 30])
        call["at"] = at
        if rng.random() < 0.12:
            call["cancel"] = rng.choice([1, 2, 4, 8, 15])      # steps after the request until its Deferred is cancelled
        calls.append(call)
    return calls


def issue(g, call, getnode):
    """Invoke one API call on a node freshly obtained from the cap string."""
    node = getnode()
    api, tok = call["api"], call["tok"]
    ops_before = REC.nops
    if api == "read":
        d = node.download_best_version()
    elif api == "over":
        d = node.overwrite(MutableData(bytes([tok, tok])))
    elif api in ("append", "raise", "noop", "collide"):
        def modifier(old, servermap, first_time, api=api, tok=tok):
            if api == "raise":
                raise ValueError("modifier failed on purpose")
            if api == "collide" and first_time:
                # the documented way for a modifier to report a write collision it noticed itself: modify() backs
                # off, refreshes the servermap and applies the modifier again -- all of it inside the one operation
                raise UncoordinatedWriteError("collision noticed by the modifier")
            if api == "noop":
                return old
            if old.endswith(bytes([tok])):
                return old          # the delta was already applied (retry after UncoordinatedWriteError)
            return old + bytes([tok])
        modifier.vf = ({"append": "append", "raise": "raise", "noop": "noop", "collide": "append"}[api], tok)
        d = node.modify(modifier)
    elif api == "smap":
        d = node.get_servermap(MODE_WRITE)
    elif api == "upload":
        if REC.free_smaps:
            sm, keepalive = REC.free_smaps.pop(0)
            d = node.upload(MutableData(bytes([tok, tok, tok])), sm)
        else:
            call["api"] = "over(no servermap for upload)"
            d = node.overwrite(MutableData(bytes([tok, tok])))
    elif api == "list":
        d = node.list()
    elif api in ("set_node", "set_node_noow"):
        child = g.nodemaker.create_from_cap(litcap(tok))
        d = node.set_node(call["name"], child, overwrite=(api == "set_node"))
    elif api == "delete":
        d = node.delete(call["name"])
    elif api == "set_children":
        entries = {call["name"]: (None, litcap(tok))}
        entries[call["name2"]] = (None, litcap(tok))
        d = node.set_children(entries)
    elif api == "mkdir":
        d = node.create_subdirectory(call["name"])
    else:
        raise ValueError(api)
    d.addErrback(lambda f: None)
    if call.get("cancel"):
        # the requester goes away (a web client that drops its connection cancels the Deferred it was given): that must not
        # end, shorten or overlap the operation - the node keeps working through its queue in order
        if api != "mkdir":          # (its operation on the watched node is requested later, after the child was created)
            REC.cancels.append([call["cancel"], d, list(range(ops_before + 1, REC.nops + 1))])
    return d


def scenario(seed, idx, nmax, pfault, workroot):
    rng = random.Random("%d/%d" % (seed, idx))
    random.seed(rng.random())          # BackoffAgent uses the global generator
    kind = "file" if idx % 2 == 0 else "dir"
    fmt = rng.choice([SDMF_VERSION, MDMF_VERSION])
    wd = os.path.join(workroot, "g%d" % idx)
    g = Grid(wd, num_servers=5, k=2, n=4, happy=2, seed=idx)
    global REC
    REC.__init__()
    REC.kind = kind
    for v in range(0, 40):
        REC.childid[litcap(v)] = v
    try:
        if kind == "file":
            n0 = g.run(g.nodemaker.create_mutable_file(MutableData(bytes([0])), version=fmt))
            cap = n0.get_uri()
            REC.watch = cap
            init = [0]
            si = n0.get_storage_index()
        else:
            n0 = g.run(g.nodemaker.create_new_mutable_directory({"b": (g.nodemaker.create_from_cap(litcap(0)), {})}, version=fmt))
            cap = n0.get_uri()
            REC.watch = n0._node.get_uri()
            init = {"b": 0}
            si = n0.get_storage_index()
            REC.decoder = g.make_nodemaker().create_from_cap(cap)
        rocap = n0.get_readonly_uri()
        del n0
        # the same capability reaches create_from_cap over two routes in a real client: directly by cap string
        # (create_node_from_uri) and as (rw_uri, ro_uri) while unpacking the parent directory; both must
        # give the one node object (and the one serializer) of that capability
        routes = [lambda: g.nodemaker.create_from_cap(cap), lambda: g.nodemaker.create_from_cap(cap, rocap)]
        getnode = lambda: rng.choice(routes)()
        calls = gen_calls(rng, kind, rng.randint(2, nmax))
        REC.planner = make_planner(rng, pfault)
        g.policy = fault_policy(rng, si)
        REC.on = True
        step = 0
        todo = list(calls)
        hang = ""
        while True:
            while todo and todo[0]["at"] <= step:
                issue(g, todo.pop(0), getnode)
            progressed = g.step()
            step += 1
            for c in list(REC.cancels):
                c[0] -= 1
                if c[0] <= 0:
                    REC.cancels.remove(c)
                    if not c[1].called:
                        REC.events.append({"ev": "Cancel", "ops": c[2]})
                        c[1].cancel()
            if not progressed:
                if todo:
                    todo[0]["at"] = step
                    continue
                break
            if step > 100000:
                hang = "no quiescence after %d steps" % step
                break
        REC.events.append({"ev": "Quiesce"})
        REC.on = False
        # final contents through an independent client-side object, without faults
        g.policy = "fifo"
        g.pending = []
        final = {"ev": "Final", "readable": True, "c": REC.empty()}
        try:
            nm2 = g.make_nodemaker()
            n2 = nm2.create_from_cap(cap)
            if kind == "file":
                final["c"] = list(g.run(n2.download_best_version()))
            else:
                children = g.run(n2.list())
                final["c"] = {str(name): REC.child_id(child) for name, (child, md) in children.items()}
        except Exception as e:   # Hang or a download error: the Spec decides what that means
            final["readable"] = False
            final["error"] = "%s: %s" % (type(e).__name__, e)
        REC.events.append(final)
        consts = {"kind": kind, "init": init, "format": "MDMF" if fmt == MDMF_VERSION else "SDMF", "scenario": idx,
                  "calls": calls, "plans": {str(k): list(v) for k, v in REC.plan.items()}, "note": hang}
        return {"consts": consts, "events": REC.events}
    finally:
        REC.on = False
        g.close()
        shutil.rmtree(wd, ignore_errors=True)


def main():
    ap = argparse.ArgumentParser()
    ap.add_argument("--out", required=True)
    ap.add_argument("--seed", type=int, default=0)
    ap.add_argument("--tier", default="quick")
    ap.add_argument("--in", dest="inp")
    ap.add_argument("--n", type=int, default=100)
    ap.add_argument("--maxops", type=int, default=4)
    ap.add_argument("--pfault", type=float, default=0.35)
    ap.add_argument("--only", type=int, default=-1)
    a = ap.parse_args()
    workroot = tempfile.mkdtemp(prefix="c13drv")
    traces = []
    try:
        idxs = [a.only] if a.only >= 0 else range(a.n)
        for idx in idxs:
            traces.append(scenario(a.seed, idx, a.maxops, a.pfault, workroot))
    finally:
        shutil.rmtree(workroot, ignore_errors=True)
    with open(a.out, "w") as f:
        json.dump(traces, f)


if __name__ == "__main__":
    main()
