"""Driver for C10 / C11 / C14 (mutable reads, version ordering, check and repair).

Builds real SDMF and MDMF files on a SimGrid, publishes several versions with the
real publisher, snapshots the share data of every version, fabricates shares with
another RSA key (full forgeries, re-signed stale data, bumped seqnums, another
file's shares), and then constructs layouts on the real storage servers: shares of
chosen versions on chosen servers, fields tampered with at the offsets of the real
share layout, shares deleted, servers taken away.  On every layout it runs the real
download_best_version / check / repair / overwrite and records
  * the ground truth it built (Layout events: per slot the version and tamper class),
  * every servermap update of the code under test (hook on ServermapUpdater.update),
  * the results of the operations.
The traces are judged by TLC (spec/mutable/TraceMutableFile.tla); this file computes
no verdicts.
"""
from vreactor import vr, settle  # noqa: F401  (must be first)
import argparse, json, os, random, shutil, struct, sys, hashlib

from grid import Grid, Hang
from twisted.python.failure import Failure
import allmydata.mutable.publish as pubmod
from allmydata.mutable.publish import MutableData
from allmydata.mutable.filenode import MutableFileNode
from allmydata.mutable.common import derive_mutable_keys
from allmydata.mutable import servermap as smod
from allmydata.mutable.repairer import MustForceRepairError
from allmydata.interfaces import SDMF_VERSION, MDMF_VERSION
from allmydata.monitor import Monitor
from allmydata.storage.mutable import MutableShareFile
from allmydata.storage.common import storage_index_to_dir
from allmydata.crypto import rsa

SEGSIZE = 6
UNKNOWN_VID = 999
UNKNOWN_CONTENT = 9999


class Livelock(Exception):
    pass


# --------------------------------------------------------------------------- share layout
def fields(data, fmt):
    """field name -> (start, end) inside the share data, from the real offset table"""
    f = {}
    if fmt == "SDMF":
        (ver, seq, rh, iv, k, n, segsize, datalen, o_sig, o_shc, o_bht, o_sd, o_epk, o_eof) = struct.unpack(
            ">BQ32s16s BBQQ LLLLQQ", data[:107])
        f.update(verbyte=(0, 1), seq=(1, 9), roothash=(9, 41), iv=(41, 57), k=(57, 58), n=(58, 59), segsize=(59, 67),
                 datalen=(67, 75), off_signature=(75, 79), off_share_data=(87, 91),
                 pubkey=(107, o_sig), signature=(o_sig, o_shc), shc=(o_shc, o_bht), bht=(o_bht, o_sd),
                 share_data=(o_sd, o_epk), encprivkey=(o_epk, o_eof))
        f["_prefix"] = (0, 75)
        f["_salt"] = None
    else:
        (ver, seq, rh, k, n, segsize, datalen, o_epk, o_shc, o_sig, o_vk, o_vkend, o_sd, o_bht, o_eof) = struct.unpack(
            ">BQ32sBBQQ QQQQQQQQ", data[:123])
        f.update(verbyte=(0, 1), seq=(1, 9), roothash=(9, 41), k=(41, 42), n=(42, 43), segsize=(43, 51), datalen=(51, 59),
                 off_signature=(75, 83), off_share_data=(99, 107),
                 encprivkey=(o_epk, o_shc), shc=(o_shc, o_sig), signature=(o_sig, o_vk), pubkey=(o_vk, o_vkend),
                 share_data=(o_sd, o_bht), bht=(o_bht, o_eof))
        f["_prefix"] = (0, 59)
    return f


def header_id(data, fmt):
    """(seq, roothash) read from the raw bytes, independent of the reader code"""
    if data is None or len(data) < 41:
        return None
    return (struct.unpack(">Q", data[1:9])[0], bytes(data[9:41]))


def canon(data, fmt):
    """share data up to the EOF offset of its own offset table: the SDMF writer does not truncate, so a
    share written over a longer one keeps unreachable trailing bytes"""
    try:
        if fmt == "SDMF":
            eof = struct.unpack(">Q", data[99:107])[0]
        else:
            eof = struct.unpack(">Q", data[115:123])[0]
    except struct.error:
        return data
    return data[:eof] if 123 <= eof <= len(data) else data


def flip(data, a, b, rng):
    pos = rng.randrange(a, b)
    return data[:pos] + bytes([data[pos] ^ (1 << rng.randrange(8))]) + data[pos + 1:]


# tamper kind -> (class in the Spec, formats)
TAMPERS = {
    "seq": "prefixbad", "roothash": "prefixbad", "iv": "prefixbad", "k": "prefixbad", "n": "prefixbad",
    "segsize": "prefixbad", "datalen": "prefixbad", "verbyte": "prefixbad", "k_zero": "prefixbad",
    # (no tampering with the signature offset: RSA-PSS signatures are randomised and one whose first byte is zero
    #  still verifies when read one byte late, so the outcome would not be a function of the layout)
    "pubkey": "softbad", "signature": "softbad",
    "block": "bodybad", "salt": "bodybad", "bht": "bodybad", "truncate_body": "bodybad",
    "shc_hash": "chainbad", "shc_index": "chainbad",
    "encprivkey": "privbad",
    "off_share_data": "offsbad",
}


def tamper(data, fmt, kind, rng):
    f = fields(data, fmt)
    if kind in ("seq", "roothash", "k", "n", "segsize", "datalen", "pubkey", "signature", "bht", "encprivkey"):
        a, b = f[kind]
        if b <= a:
            return None
        return flip(data, a, b, rng)
    if kind == "iv":
        if fmt != "SDMF":
            return None
        return flip(data, *f["iv"], rng)
    if kind == "verbyte":
        return bytes([data[0] ^ 2]) + data[1:]
    if kind == "k_zero":
        a, b = f["k"]
        return data[:a] + b"\x00" + data[b:]
    if kind == "off_share_data":
        a, b = f[kind]
        x = int.from_bytes(data[a:b], "big") + 1
        return data[:a] + x.to_bytes(b - a, "big") + data[b:]
    if kind == "block":
        a, b = f["share_data"]
        if b <= a:
            return None
        if fmt == "MDMF":
            # share data = (salt16 + block) per segment: hit a block byte
            cand = [p for p in range(a, b) if (p - a) % (16 + max(1, SEGSIZE // 2)) >= 16]
            if not cand:
                return None
            pos = rng.choice(cand)
            return data[:pos] + bytes([data[pos] ^ 1]) + data[pos + 1:]
        return flip(data, a, b, rng)
    if kind == "salt":
        if fmt != "MDMF":
            return None
        a, b = f["share_data"]
        if b - a < 16:
            return None
        return flip(data, a, a + 16, rng)
    if kind == "truncate_body":
        a, b = f["share_data"]
        if fmt != "SDMF" or b <= a:
            return None
        # drop the tail of the share (blocks and encrypted private key gone)
        return data[:a]
    if kind in ("shc_hash", "shc_index"):
        a, b = f["shc"]
        if b - a < 34:
            return None
        nent = (b - a) // 34
        e = a + 34 * rng.randrange(nent)
        if kind == "shc_hash":
            return flip(data, e + 2, e + 34, rng)
        return flip(data, e, e + 2, rng)
    raise KeyError(kind)


def resign(data, fmt, newseq, privkey, pubkey_der):
    """what a read-cap holder or a server can do: rewrite the seqnum and sign with its own key"""
    f = fields(data, fmt)
    d = bytearray(data)
    if newseq is not None:
        d[1:9] = struct.pack(">Q", newseq)
    if privkey is not None:
        a, b = f["_prefix"]
        sig = rsa.sign_data(privkey, bytes(d[a:b]))
        a, b = f["signature"]
        assert len(sig) == b - a, (len(sig), b - a)
        d[a:b] = sig
    if pubkey_der is not None:
        a, b = f["pubkey"]
        assert len(pubkey_der) == b - a, (len(pubkey_der), b - a)
        d[a:b] = pubkey_der
    return bytes(d)


# --------------------------------------------------------------------------- hooks: observe servermap updates
MAPLOG = []


def install_hooks():
    U = smod.ServermapUpdater
    if getattr(U, "_vf_hooked", False):
        return
    orig_update, orig_got = U.update, U._got_results

    def update(self):
        self._vf_answered = []
        d = orig_update(self)

        def _log(sm):
            known = {}
            for (server, shnum), (verinfo, ts) in sm.get_known_shares().items():
                known[(server.get_nickname(), shnum)] = (verinfo[0], bytes(verinfo[1]))
            best = sm.best_recoverable_version()
            MAPLOG.append({"mode": self.mode.replace("MODE_", ""), "Q": sorted({s.get_nickname() for s in self._vf_answered}),
                           "known": known, "bad": sorted((s.get_nickname(), n) for (s, n) in sm.get_bad_shares()),
                           "best": (best[0], bytes(best[1])) if best else None})
            return sm
        d.addCallback(_log)
        return d

    def _got_results(self, datavs, server, *a, **kw):
        if self._running:
            self._vf_answered.append(server)
        return orig_got(self, datavs, server, *a, **kw)
    U.update = update
    U._got_results = _got_results
    U._vf_hooked = True


# --------------------------------------------------------------------------- the world
class World:
    """One mutable file with its published versions, fabricated versions and the current layout."""

    def __init__(self, g, fg, fmt, rng, k, n):
        self.g, self.fg, self.fmt, self.rng, self.k, self.n = g, fg, fmt, rng, k, n
        self.vers = []          # dicts: seq, roothash, content (bytes), signer, shares {sh: bytes}
        self.contents = {}      # bytes -> id
        self.lay = {}           # (server, shnum) -> dict(v=vid, cls=..., how=...)
        self.events = []
        self.node = None
        self.removed = set()
        self._orig_park = g._park
        self._advise = 0

    # ---- bookkeeping
    def cid(self, data):
        if data not in self.contents:
            self.contents[data] = len(self.contents) + 1
        return self.contents[data]

    def vid_of(self, hid):
        for i, v in enumerate(self.vers):
            if (v["seq"], v["roothash"]) == hid:
                return i + 1
        return None

    def new_content(self, minlen=1, maxlen=28):
        while True:
            ln = self.rng.randint(minlen, maxlen)
            c = bytes(self.rng.randrange(256) for _ in range(ln))
            if c not in self.contents:
                return c

    # ---- raw share access (server-level adversary keeps the container metadata valid)
    def path(self, sname, shnum):
        return os.path.join(self.g.servers[sname].ss.sharedir, storage_index_to_dir(self.si), "%d" % shnum)

    def raw(self, sname, shnum):
        p = self.path(sname, shnum)
        if not os.path.exists(p):
            return None
        return MutableShareFile(p).readv([(0, 10 ** 7)])[0]

    def delete(self, sname, shnum):
        p = self.path(sname, shnum)
        if os.path.exists(p):
            os.unlink(p)
        self.lay.pop((sname, shnum), None)

    def put_raw(self, sname, shnum, data):
        p = self.path(sname, shnum)
        if os.path.exists(p):
            os.unlink(p)
        srv = self.g.servers[sname]
        secrets = (self.node.get_write_enabler(srv), self.node.get_renewal_secret(srv), self.node.get_cancel_secret(srv))
        ok, rd = srv.ss.slot_testv_and_readv_and_writev(self.si, secrets, {shnum: ([], [(0, data)], None)}, [])
        assert ok

    def put(self, sname, shnum, vid, cls="intact", data=None, how=""):
        if data is None:
            data = self.vers[vid - 1]["shares"][shnum]
        self.put_raw(sname, shnum, data)
        self.lay[(sname, shnum)] = {"v": vid, "cls": cls, "how": how}

    def wipe(self):
        for sname in self.g.servers:
            d = os.path.join(self.g.servers[sname].ss.sharedir, storage_index_to_dir(self.si))
            if os.path.isdir(d):
                shutil.rmtree(d)
        self.lay = {}

    def disk(self):
        out = {}
        for sname in sorted(self.g.servers):
            for sh in range(self.n + 2):
                d = self.raw(sname, sh)
                if d is not None:
                    out[(sname, sh)] = d
        return out

    # ---- running real operations
    def run(self, d):
        """returns ("ok", value) | ("error", exception class name) | ("livelock", "")"""
        g = self.g
        self._advise = 0

        def park(ref, methname, args, kwargs, dd):
            if methname == "advise_corrupt_share":
                self._advise += 1
                if self._advise > 200:
                    raise Livelock("more than 200 corruption advisories in one operation")
            return self._orig_park(ref, methname, args, kwargs, dd)
        g._park = park
        try:
            r = g.run(d, max_steps=20000, raise_failure=False)
        except Hang:
            self._cleanup()
            return ("livelock", "hang")
        except RuntimeError as e:      # settle() does not terminate
            self._cleanup()
            return ("livelock", str(e)[:60])
        finally:
            g._park = self._orig_park
        try:
            g.drain(max_steps=20000)
        except Exception:
            self._cleanup()
        if isinstance(r, Failure):
            if r.check(Livelock) or "Livelock" in str(r.value):
                self._cleanup()
                return ("livelock", "")
            return ("error", r.type.__name__)
        return ("ok", r)

    def _cleanup(self):
        self.g.pending = []
        for c in list(vr.getDelayedCalls()):
            try:
                c.cancel()
            except Exception:
                pass

    decoys = []
    decoy_rng = random.Random(4711)

    def fresh_node(self, kind):
        if kind == "w":
            return self.node
        nm = self.g.make_nodemaker()
        cap = self.node.get_uri() if kind == "rw" else self.node.get_readonly_uri()
        if self.decoy_rng.random() < 0.3:
            # on the same client somebody opened (and still holds) a cap that a read-cap holder can make up: same read key,
            # the fingerprint of another key.  It names the same slot; the genuine cap must not be affected by it
            from allmydata import uri as uri_mod
            from allmydata.util import hashutil
            u = uri_mod.from_string(self.node.get_readonly_uri())
            forged = u.__class__(u.readkey, hashutil.ssk_pubkey_fingerprint_hash(b"a key the attacker made up"))
            self.decoys.append(nm.create_from_cap(forged.to_string()))
        return nm.create_from_cap(cap)

    # ---- creation and publishing
    def create(self, content):
        g = self.g
        ver = SDMF_VERSION if self.fmt == "SDMF" else MDMF_VERSION
        st, node = self.run(g.nodemaker.create_mutable_file(MutableData(content), version=ver))
        assert st == "ok", node
        self.node = node
        self.si = node.get_storage_index()
        self.order = [s.get_nickname() for s in g.broker.get_servers_for_psi(self.si)]
        # an unrecorded prehistory: the file is overwritten `prehistory` times with every server up (nothing of those
        # versions stays on disk), so that the recorded versions carry sequence numbers around a decimal digit boundary
        for _ in range(getattr(self, "prehistory", 0)):
            st, r = self.run(node.overwrite(MutableData(content)))
            assert st == "ok", r
        self.register_published(content)

    def register_published(self, content):
        """after a successful publish by the write-cap holder: find the new version on disk and snapshot its shares"""
        disk = self.disk()
        new = {}
        for (sname, sh), d in disk.items():
            hid = header_id(d, self.fmt)
            if self.vid_of(hid) is None:
                new.setdefault(hid, {})[sh] = canon(d, self.fmt)
        assert len(new) == 1, "expected exactly one new version on disk, got %d" % len(new)
        (hid, shares), = new.items()
        self.vers.append({"seq": hid[0], "roothash": hid[1], "content": content, "signer": "owner", "shares": shares})
        self.cid(content)
        return len(self.vers)

    def rescan(self):
        """recompute the symbolic layout from the disk: a share equal to a registered one is that share;
        an unchanged slot keeps its class"""
        disk = self.disk()
        lay = {}
        for (sname, sh), d in disk.items():
            old = self.lay.get((sname, sh))
            if old is not None and old.get("_bytes") == hashlib.sha256(d).digest():
                lay[(sname, sh)] = old
                continue
            hid = header_id(d, self.fmt)
            vid = self.vid_of(hid)
            if vid is not None and self.vers[vid - 1]["shares"].get(sh) == canon(d, self.fmt):
                lay[(sname, sh)] = {"v": vid, "cls": "intact", "how": "published"}
            else:
                lay[(sname, sh)] = {"v": vid or UNKNOWN_VID, "cls": "bodybad", "how": "unidentified"}
        self.lay = lay

    def stamp(self):
        disk = self.disk()
        for key, ent in self.lay.items():
            ent["_bytes"] = hashlib.sha256(disk[key]).digest()

    def publish_all_up(self, content):
        st, r = self.run(self.node.overwrite(MutableData(content)))
        assert st == "ok", r
        return self.register_published(content)

    # ---- fabricated versions (signer "other")
    def attacker_keys(self):
        if not hasattr(self, "_akeys"):
            kp = self.g.keypool
            der = kp.ders[(kp.i + 17) % len(kp.ders)]
            priv, pub = rsa.create_signing_keypair_from_string(der)
            self._akeys = (priv, pub, rsa.der_string_from_verifying_key(pub))
        return self._akeys

    def add_crafted(self, seq, roothash, content, shares, how):
        self.vers.append({"seq": seq, "roothash": roothash, "content": content, "signer": "other", "shares": shares, "how": how})
        self.cid(content)
        return len(self.vers)

    def forge_full(self, seq):
        """a complete, internally consistent version encrypted under the real read key, signed with another key"""
        priv, pub, pubder = self.attacker_keys()
        fg = self.fg
        n = MutableFileNode(fg.broker, fg.client._secret_holder, fg.params, None)
        n._pubkey, n._privkey = pub, priv
        n._writekey, n._encprivkey, n._fingerprint = derive_mutable_keys((pub, priv))
        n._uri = self.node._uri
        n._readkey = self.node.get_readkey()
        n._storage_index = self.si
        n._protocol_version = SDMF_VERSION if self.fmt == "SDMF" else MDMF_VERSION
        n._required_shares, n._total_shares = self.k, self.n
        content = b"FORGED:" + self.new_content(1, 12)
        out = []
        d = n._upload(MutableData(content), None)
        d.addBoth(out.append)
        fg.drain()
        assert out and not isinstance(out[0], Failure), out
        shares = {}
        for sname, dd in fg.shares(self.si).items():
            for sh, p in dd.items():
                raw = MutableShareFile(p).readv([(0, 10 ** 7)])[0]
                shares[sh] = resign(raw, self.fmt, seq, priv, None)
        for sname in fg.servers:
            d2 = os.path.join(fg.servers[sname].ss.sharedir, storage_index_to_dir(self.si))
            if os.path.isdir(d2):
                shutil.rmtree(d2)
        hid = header_id(shares[0], self.fmt)
        return self.add_crafted(hid[0], hid[1], content, shares, "forge_full")

    def forge_resigned(self, vid, seq, with_pubkey):
        """stale data of version vid with a higher seqnum, signed by another key"""
        priv, pub, pubder = self.attacker_keys()
        v = self.vers[vid - 1]
        shares = {sh: resign(d, self.fmt, seq, priv, pubder if with_pubkey else None) for sh, d in v["shares"].items()}
        hid = header_id(shares[0], self.fmt)
        return self.add_crafted(hid[0], hid[1], v["content"], shares, "resigned_pub" if with_pubkey else "resigned")

    def forge_seqbump(self, vid, seq):
        v = self.vers[vid - 1]
        shares = {sh: resign(d, self.fmt, seq, None, None) for sh, d in v["shares"].items()}
        hid = header_id(shares[0], self.fmt)
        return self.add_crafted(hid[0], hid[1], v["content"], shares, "seqbump")

    def other_file(self):
        """shares of another (genuine) mutable file of the same format"""
        g = self.g
        ver = SDMF_VERSION if self.fmt == "SDMF" else MDMF_VERSION
        content = b"OTHERFILE:" + self.new_content(1, 10)
        st, node = self.run(g.nodemaker.create_mutable_file(MutableData(content), version=ver))
        assert st == "ok"
        # the client reads the other file once (as a long-running gateway would): whatever the process remembers
        # about that file's verified signatures / keys must not make its shares acceptable in OUR file's slot
        st2, got = self.run(node.download_best_version())
        assert st2 == "ok" and got == content
        st2, got = self.run(g.make_nodemaker().create_from_cap(node.get_readonly_uri()).download_best_version())
        assert st2 == "ok" and got == content
        si2 = node.get_storage_index()
        shares = {}
        for sname, dd in g.shares(si2).items():
            for sh, p in dd.items():
                shares[sh] = MutableShareFile(p).readv([(0, 10 ** 7)])[0]
            shutil.rmtree(os.path.dirname(list(dd.values())[0]))
        hid = header_id(shares[0], self.fmt)
        # give it a seqnum above ours half of the time is not possible without its key: keep as is
        return self.add_crafted(hid[0], hid[1], content, shares, "other_file")

    # ---- events
    def ranks(self):
        hs = sorted({v["roothash"] for v in self.vers})
        return {h: i + 1 for i, h in enumerate(hs)}

    def ev_layout(self, keepmaps=False):
        self.stamp()
        L = {s: {} for s in self.order}
        for (sname, sh), ent in self.lay.items():
            L[sname][str(sh)] = {"v": ent["v"], "cls": ent["cls"]}
        up = [s for s in self.order if s not in self.removed]
        self.events.append({"ev": "Layout", "L": L, "up": up, "nv": len(self.vers), "keepmaps": keepmaps,
                            "how": {"%s/%d" % k: e.get("how", "") for k, e in sorted(self.lay.items())}})

    def ev_maps(self):
        for m in MAPLOG:
            M = {}
            for (sname, sh), hid in m["known"].items():
                M.setdefault(sname, {})[str(sh)] = self.vid_of(hid) or UNKNOWN_VID
            best = 0
            if m["best"] is not None:
                best = self.vid_of(m["best"]) or UNKNOWN_VID
            self.events.append({"ev": "Map", "mode": m["mode"], "Q": m["Q"], "M": M, "best": best,
                                "nbad": len(m["bad"])})
        del MAPLOG[:]

    def set_up(self, removed):
        self.removed = set(removed)
        self.g.removed = set(removed)

    def op_read(self, kind, policy="fifo", midtamper=None, vanish=False):
        node = self.fresh_node(kind)
        del MAPLOG[:]
        self.g.policy = policy
        if midtamper is not None:
            # a server that changes what it serves between the reader's survey and its fetch of the blocks: once the servermap
            # update of this read is done its observations are recorded, the shares are edited, the new layout is recorded,
            # and only then are the remaining requests answered
            fired = []

            def pol(grid):
                if not fired and len(MAPLOG) >= 1:
                    fired.append(1)
                    self.ev_maps()
                    midtamper()
                    self.ev_layout(keepmaps=True)
                if not grid.pending:
                    return ("timer",)
                return ("call", 0, None)
            self.g.policy = pol
        st, r = self.run(node.download_best_version())
        self.g.policy = "fifo"
        self.ev_maps()
        if st == "ok":
            res = {"kind": "data", "content": self.contents.get(r, UNKNOWN_CONTENT), "len": len(r)}
        elif st == "livelock":
            res = {"kind": "livelock"}
        else:
            res = {"kind": "error", "what": r}
        ev = {"ev": "Read", "node": kind, "res": res, "mid": midtamper is not None}
        if vanish:
            ev["vanish"] = True
        self.events.append(ev)
        return res

    def op_check(self, kind, verify):
        node = self.fresh_node(kind)
        del MAPLOG[:]
        st, cr = self.run(node.check(Monitor(), verify=verify))
        self.ev_maps()
        if st == "ok":
            self.events.append({"ev": "Check", "node": kind, "verify": verify, "res": "ok", "healthy": bool(cr.is_healthy()),
                                "recoverable": bool(cr.is_recoverable()), "ncorrupt": len(cr.get_corrupt_shares()),
                                "summary": str(cr.get_summary())[:80]})
            return cr
        self.events.append({"ev": "Check", "node": kind, "verify": verify, "res": st, "healthy": False,
                            "recoverable": False, "ncorrupt": 0, "summary": str(cr)})
        return None

    def op_repair(self, kind, force, cr, midfault="", midwrite=None):
        node = self.fresh_node(kind)
        before = self.disk()
        known = {header_id(d, self.fmt) for d in before.values()}
        del MAPLOG[:]
        mw = {"phase": 0, "held": set(), "vid": 0}
        if midwrite is not None:
            # a second client overwrites the whole file between the repairer's survey / download and the arrival of the
            # repairer's writes: the repairer's writes are held back on the wire, the other client's overwrite runs to its
            # end, its version is registered and the new layout recorded, then the held writes are delivered
            other = self.g.make_nodemaker().create_from_cap(self.node.get_uri())

            def pol(grid):
                if mw["phase"] == 0:
                    idx = [i for i, p in enumerate(grid.pending) if p.methname == "slot_testv_and_readv_and_writev"]
                    if idx and len(MAPLOG) >= 1:
                        mw["held"] = {id(grid.pending[i]) for i in idx}
                        mw["phase"] = 1
                        self.ev_maps()
                        other.overwrite(MutableData(midwrite)).addBoth(lambda r: mw.__setitem__("res", r))
                if mw["phase"] == 1:
                    if "res" in mw:
                        mw["phase"] = 2
                        from twisted.python.failure import Failure as _F
                        if not isinstance(mw["res"], _F):
                            mw["vid"] = self.register_published(midwrite)
                            self.rescan()
                        self.ev_layout(keepmaps=True)
                    else:
                        free = [i for i, p in enumerate(grid.pending) if id(p) not in mw["held"]]
                        if free:
                            return ("call", free[0], None)
                        return ("timer",)
                if not grid.pending:
                    return ("timer",)
                return ("call", 0, None)
            self.g.policy = pol
        if midfault:
            # server `midfault` stops answering once the repairer has finished its survey (between the survey and the
            # download of the version it chose)
            def pol(grid, srv=midfault):
                if not grid.pending:
                    return ("timer",)
                p = grid.pending[0]
                if getattr(p, "server", None) == srv and len(MAPLOG) >= 1:
                    return ("call", 0, "raise")
                return ("call", 0, None)
            self.g.policy = pol
        st, rr = self.run(node.repair(cr, force=force))
        self.g.policy = "fifo"
        self.ev_maps()
        what = ""
        if st == "ok":
            res = "ok" if rr.get_successful() else "unsuccessful"
        elif st == "livelock":
            res = "livelock"
        elif rr == "MustForceRepairError":
            res = "mustforce"
        else:
            res, what = "error", rr
        after = self.disk()
        post = {"changed": after != before, "content": 0, "nnew": 0, "newseq": 0, "stale": 0}
        if res == "ok":
            up = [s for s in self.order if s not in self.removed]
            ids = {}
            for (sname, sh), d in after.items():
                if sname in up:
                    ids.setdefault(header_id(d, self.fmt), set()).add(sh)
            newids = [h for h in ids if h not in known and self.vid_of(h) is None]
            if newids:
                top = max(newids)
                post["newseq"] = top[0]
                post["nnew"] = len(ids[top])
                post["stale"] = sum(1 for (sname, sh), d in after.items() if sname in up and header_id(d, self.fmt) != top)
            del MAPLOG[:]
            st2, data = self.run(self.fresh_node("ro").download_best_version())
            del MAPLOG[:]
            if st2 == "ok":
                post["content"] = self.contents.get(data, UNKNOWN_CONTENT)
        if midwrite is not None and mw["phase"] == 2:
            del MAPLOG[:]          # (the other client's own surveys are not the repairer's)
        self.events.append({"ev": "Repair", "node": kind, "force": force, "res": res, "what": what, "post": post, "midfault": midfault,
                            "midwrite": mw["vid"]})
        return res

    def op_publish(self, kind, content):
        node = self.fresh_node(kind)
        del MAPLOG[:]
        st, r = self.run(node.overwrite(MutableData(content)))
        self.ev_maps()
        if st == "ok":
            vid = self.register_published(content)
            self.events.append({"ev": "Publish", "node": kind, "res": "ok", "newseq": self.vers[vid - 1]["seq"], "newv": vid})
        else:
            # a failed publish may still have written shares signed by the owner: they are genuine versions
            for hid in sorted({header_id(d, self.fmt) for d in self.disk().values()}):
                if self.vid_of(hid) is None:
                    shares = {sh: canon(d, self.fmt) for (sname, sh), d in self.disk().items() if header_id(d, self.fmt) == hid}
                    self.vers.append({"seq": hid[0], "roothash": hid[1], "content": content, "signer": "owner", "shares": shares})
                    self.cid(content)
            self.events.append({"ev": "Publish", "node": kind, "res": "error" if st != "livelock" else "livelock",
                                "what": str(r), "newseq": 0, "newv": 0})
        self.rescan()
        return st

    def trace(self, scen):
        rk = self.ranks()
        vers = [{"seq": v["seq"], "rh": rk[v["roothash"]], "content": self.cid(v["content"]), "signer": v["signer"]}
                for v in self.vers]
        return {"consts": {"K": self.k, "N": self.n, "servers": self.order, "vers": vers, "fmt": self.fmt, "scen": scen,
                           "crafted": [v.get("how", "") for v in self.vers if v["signer"] == "other"]},
                "events": self.events}


# --------------------------------------------------------------------------- scenario generators
BODY_TAMPERS = ["block", "salt", "bht", "truncate_body"]
PREFIX_TAMPERS = ["seq", "roothash", "iv", "k", "n", "segsize", "datalen", "verbyte", "k_zero"]
SOFT_TAMPERS = ["pubkey", "signature"]


def tampered(w, vid, sh, kinds, rng):
    """(bytes, class, how) or None"""
    rng.shuffle(kinds)
    base = w.vers[vid - 1]["shares"][sh]
    for kind in kinds:
        d = tamper(base, w.fmt, kind, rng)
        if d is not None and d != base:
            return d, TAMPERS[kind], kind
    return None


def base_layout(w, vid, rng, servers=None):
    """the N shares of version vid on distinct servers (random placement)"""
    servers = list(servers or w.order)
    rng.shuffle(servers)
    for sh in range(w.n):
        w.put(servers[sh % len(servers)], sh, vid)


def new_world(g, fg, rng, nver, fmt=None, k=2, n=3, prehistory=0):
    fmt = fmt or rng.choice(["SDMF", "MDMF"])
    w = World(g, fg, fmt, rng, k, n)
    w.prehistory = prehistory
    same_len = rng.random() < 0.5
    ln = rng.randint(1, 28)
    w.create(w.new_content(ln, ln) if same_len else w.new_content())
    for i in range(nver - 1):
        w.publish_all_up(w.new_content(ln, ln) if same_len else w.new_content())
    return w


def mutate_layout(w, rng, classes, newest, allow_crafted=True, allow_dup=True, nmut=None):
    """random adversarial edits of the current layout"""
    order = w.order
    nmut = nmut if nmut is not None else rng.choice([0, 1, 1, 2, 2, 3, 4])
    owner = [i + 1 for i, v in enumerate(w.vers) if v["signer"] == "owner"]
    crafted = [i + 1 for i, v in enumerate(w.vers) if v["signer"] == "other"]
    for _ in range(nmut):
        what = rng.choice(["tamper", "tamper", "tamper", "older", "older", "delete", "crafted", "crafted", "dup", "wrongslot",
                           "wrongslot", "splice", "splice", "extra"])
        slots = sorted(w.lay)
        if what == "tamper" and slots:
            s, sh = rng.choice(slots)
            ent = w.lay[(s, sh)]
            if ent["cls"] != "intact" or w.vers[ent["v"] - 1]["signer"] != "owner":
                continue
            kinds = [k for k, c in TAMPERS.items() if c in classes]
            t = tampered(w, ent["v"], sh, kinds, rng)
            if t:
                w.put(s, sh, ent["v"], t[1], t[0], t[2])
        elif what == "older" and len(owner) > 1:
            s = rng.choice(order)
            sh = rng.randrange(w.n)
            w.put(s, sh, rng.choice(owner), how="replay")
        elif what == "delete" and slots:
            w.delete(*rng.choice(slots))
        elif what == "crafted" and allow_crafted and crafted:
            vid = rng.choice(crafted)
            # plant it on several servers, the first of the permuted list included half of the time
            srvs = list(order)
            rng.shuffle(srvs)
            if rng.random() < 0.6:
                # the server that answers first holds nothing but fabricated shares
                srvs.remove(order[0])
                srvs.insert(0, order[0])
                for sh in range(w.n):
                    if (order[0], sh) in w.lay:
                        w.delete(order[0], sh)
            cnt = rng.choice([1, 2, 2, 3])
            for i, s in enumerate(srvs[:cnt]):
                sh = i % w.n if rng.random() < 0.8 else rng.randrange(w.n)
                if sh in w.vers[vid - 1]["shares"]:
                    w.put(s, sh, vid, how=w.vers[vid - 1].get("how", "crafted"))
        elif what == "dup" and allow_dup and slots:
            s0, sh = rng.choice(slots)
            ent = w.lay[(s0, sh)]
            others = [s for s in order if (s, sh) not in w.lay]
            if others and w.vers[ent["v"] - 1]["signer"] == "owner":
                s = rng.choice(others)
                kinds = [k for k, c in TAMPERS.items() if c in classes and c in ("bodybad", "chainbad", "privbad", "softbad")]
                t = tampered(w, ent["v"], sh, kinds, rng) if (kinds and rng.random() < 0.7) else None
                if t:
                    w.put(s, sh, ent["v"], t[1], t[0], "dup:" + t[2])
                else:
                    w.put(s, sh, ent["v"], how="dup")
        elif what == "wrongslot" and "bodybad" in classes:
            s = rng.choice(order)
            sh = rng.randrange(w.n)
            src = rng.choice([x for x in range(w.n) if x != sh])
            vid = rng.choice(owner)
            w.put(s, sh, vid, "bodybad", w.vers[vid - 1]["shares"][src], "wrongslot")
        elif what == "splice" and "bodybad" in classes and len(owner) > 1:
            a, b = rng.sample(owner, 2)
            sh = rng.randrange(w.n)
            da, db = w.vers[a - 1]["shares"][sh], w.vers[b - 1]["shares"][sh]
            fa, fb = fields(da, w.fmt), fields(db, w.fmt)
            (a0, a1), (b0, b1) = fa["share_data"], fb["share_data"]
            (a2, a3), (b2, b3) = fa["bht"], fb["bht"]
            if a1 - a0 == b1 - b0 and a1 > a0 and da[a0:a1] != db[b0:b1]:
                d = da[:a0] + db[b0:b1] + da[a1:]
                how = "splice_body_of_v%d" % b
                if a3 - a2 == b3 - b2 and rng.random() < 0.7:
                    # blocks and their block-hash tree of another version, consistent with each other:
                    # only the share-hash chain up to the signed root hash tells them apart
                    d = d[:a2] + db[b2:b3] + d[a3:]
                    how = "splice_body_and_bht_of_v%d" % b
                # on the servers that are asked first
                w.put(rng.choice(order[:3]), sh, a, "bodybad", d, how)
        elif what == "extra":
            s = rng.choice(order)
            sh = rng.randrange(w.n)
            if (s, sh) not in w.lay:
                w.put(s, sh, rng.choice(owner), how="extra")


def scen_c10(g, fg, rng, idx, thorough):
    nver = rng.choice([2, 2, 3])
    w = new_world(g, fg, rng, nver)
    newest = len(w.vers)
    top = w.vers[-1]["seq"]
    # fabricated versions
    kinds = rng.sample(["full", "resigned_pub", "resigned", "seqbump", "other_file"], rng.choice([1, 2, 2, 3]))
    for kd in kinds:
        if kd == "full":
            w.forge_full(top + rng.choice([1, 1, 5]))
        elif kd == "resigned_pub":
            w.forge_resigned(rng.randrange(1, newest + 1), top + rng.choice([1, 2]), True)
        elif kd == "resigned":
            w.forge_resigned(rng.randrange(1, newest + 1), top + rng.choice([1, 2]), False)
        elif kd == "seqbump":
            w.forge_seqbump(rng.randrange(1, newest + 1), top + rng.choice([1, 3]))
        else:
            w.other_file()
    w.wipe()
    classes = {"prefixbad", "softbad", "bodybad", "chainbad", "privbad"}
    if rng.random() < 0.25:
        classes.add("offsbad")
    pattern = rng.random()
    if pattern < 0.07 and len(w.order) >= 4:
        # k intact shares of the newest version on two servers; two other servers serve shares whose
        # (unsigned) offset table points the reader at the wrong place
        srvs = list(w.order)
        rng.shuffle(srvs)
        w.put(srvs[0], 0, newest)
        w.put(srvs[1], 1, newest)
        for s, sh in ((srvs[2], 2), (srvs[3], rng.choice([0, 1]))):
            t = tampered(w, newest, sh, ["off_share_data"], rng)
            w.put(s, sh, newest, t[1], t[0], t[2])
        removed = []
    elif pattern < 0.14:
        # all shares intact, plus a copy of one share with a damaged block on another server
        base_layout(w, newest, rng)
        s0, sh = rng.choice(sorted(w.lay))
        others = [s for s in w.order if not any(k[0] == s for k in w.lay)]
        if others:
            t = tampered(w, newest, sh, ["block", "bht"], rng)
            if t:
                w.put(rng.choice(others), sh, newest, t[1], t[0], "dup:" + t[2])
        removed = []
    else:
        base_layout(w, newest, rng)
        mutate_layout(w, rng, classes, newest)
        removed = [s for s in w.order if rng.random() < 0.1]
        if len(removed) >= len(w.order) - 1:
            removed = []
    w.set_up(removed)
    w.ev_layout()
    for kind in rng.sample(["ro", "ro", "rw", "w"], 2):
        pol = "fifo" if rng.random() < 0.6 else random.Random(rng.randrange(10 ** 6))
        w.op_read(kind, pol)
    if idx % 4 == 1:
        # time-of-tamper: after the survey of one more read, some intact shares get a damaged signed field (IV, root hash, ...)
        trng = random.Random("midtamper-%d" % idx)

        def mid():
            slots = [(s_, sh_) for (s_, sh_), ent in sorted(w.lay.items())
                     if ent["cls"] == "intact" and w.vers[ent["v"] - 1]["signer"] == "owner"]
            trng.shuffle(slots)
            for (s_, sh_) in slots[:trng.randint(1, max(1, len(slots)))]:
                t = tampered(w, w.lay[(s_, sh_)]["v"], sh_, trng.sample(["iv", "iv", "roothash", "seq", "datalen"], 2), trng)
                if t:
                    w.put(s_, sh_, w.lay[(s_, sh_)]["v"], t[1], t[0], "mid:" + t[2])
        w.op_read(trng.choice(["ro", "rw"]), midtamper=mid)
    w.set_up([])
    return w.trace("c10")


def scen_c10_vanish(g, fg, rng, idx, thorough):
    """A file whose shares are larger than the reader's first read (so its blocks are fetched after the survey), all N shares
    intact on distinct servers; after the survey of a read one share vanishes (deleted, expired, lost): k intact shares that
    the survey saw remain, the read has to deliver the newest version."""
    fmt = rng.choice(["SDMF", "MDMF"])
    w = World(g, fg, fmt, rng, 2, 3)
    w.prehistory = 0
    saved = pubmod.DEFAULT_MUTABLE_MAX_SEGMENT_SIZE
    pubmod.DEFAULT_MUTABLE_MAX_SEGMENT_SIZE = rng.choice([2048, 4096, 131072])
    try:
        w.create(w.new_content(9000, 12000))
        if rng.random() < 0.5:
            w.publish_all_up(w.new_content(9000, 12000))
    finally:
        pubmod.DEFAULT_MUTABLE_MAX_SEGMENT_SIZE = saved
    newest = len(w.vers)
    w.wipe()
    base_layout(w, newest, rng)
    w.set_up([])
    w.ev_layout()
    victim = rng.choice(sorted(w.lay))
    if rng.random() < 0.6:
        victim = min(w.lay, key=lambda sk: sk[1])          # the lowest share number: the one a reader fetches first

    def mid():
        w.delete(*victim)
    w.op_read(rng.choice(["ro", "rw"]), midtamper=mid, vanish=True)
    w.op_read(rng.choice(["ro", "rw"]))
    w.set_up([])
    return w.trace("c10")


def scen_c11(g, fg, rng, idx, thorough):
    """publish history with unavailable servers and servers replaying older shares, then reads"""
    # every fourth history starts at sequence number 8 or 9 (thorough: also 98, 99): the versions that follow straddle 9 | 10
    pre = 0
    if idx % 4 == 3:
        pre = random.Random(idx).choice([7, 8, 8] + ([97, 98] if thorough else []))
    w = new_world(g, fg, rng, 1, prehistory=pre)
    npub = rng.randint(2, 6 if thorough else 5)
    snaps = [dict(w.disk())]        # disk images after each publish
    w.rescan()
    for i in range(npub):
        # some servers unavailable for this publish
        removed = [s for s in w.order if rng.random() < 0.3]
        if len(w.order) - len(removed) < w.n:
            removed = removed[:len(w.order) - w.n]
        w.set_up(removed)
        # a server replays what it held after an earlier publish
        if snaps and rng.random() < 0.5:
            img = rng.choice(snaps)
            for s in rng.sample(w.order, rng.randint(1, 2)):
                for sh in range(w.n):
                    w.delete(s, sh)
                for (s2, sh), d in img.items():
                    if s2 == s:
                        w.put_raw(s, sh, d)
            w.rescan()
        w.ev_layout()
        kind = rng.choice(["w", "rw", "rw"])
        w.op_publish(kind, w.new_content())
        snaps.append(dict(w.disk()))
        if rng.random() < 0.5:
            w.ev_layout()
            w.op_read("ro", "fifo" if rng.random() < 0.5 else random.Random(rng.randrange(10 ** 6)))
    # final: stale shares re-injected on any subset, servers unavailable, reads
    for rounds in range(2):
        for s in w.order:
            if rng.random() < 0.4:
                img = rng.choice(snaps)
                for sh in range(w.n):
                    w.delete(s, sh)
                for (s2, sh), d in img.items():
                    if s2 == s:
                        w.put_raw(s, sh, d)
        w.rescan()
        removed = [s for s in w.order if rng.random() < 0.2]
        if len(removed) >= len(w.order) - 1:
            removed = []
        w.set_up(removed)
        w.ev_layout()
        w.op_read("ro", "fifo" if rng.random() < 0.4 else random.Random(rng.randrange(10 ** 6)))
        w.op_read(rng.choice(["ro", "rw"]), random.Random(rng.randrange(10 ** 6)))
    w.set_up([])
    return w.trace("c11")


def scen_c14(g, fg, rng, idx, thorough):
    nver = rng.choice([2, 3])
    w = new_world(g, fg, rng, nver)
    newest = len(w.vers)
    comp = None
    if rng.random() < 0.45:
        # competitor: same seqnum as the newest version, different contents (a writer that did not see it)
        prev = newest - 1
        w.wipe()
        base_layout(w, prev, rng)
        c = w.new_content()
        del MAPLOG[:]
        st, r = w.run(w.fresh_node("rw").overwrite(MutableData(c)))
        del MAPLOG[:]
        assert st == "ok", r
        comp = w.register_published(c)
        assert w.vers[comp - 1]["seq"] == w.vers[newest - 1]["seq"]
    w.wipe()
    mode = rng.choice(["healthy", "missing", "mixed", "mixed", "newer_unrec", "competitor", "random", "random"])
    best = newest if newest > 1 else 1
    classes = {"prefixbad", "softbad", "bodybad", "privbad"}
    if mode == "newer_unrec" and newest >= 2:
        base_layout(w, newest - 1, rng)
        # a single share of the newest version survives
        s = rng.choice(w.order)
        w.put(s, rng.randrange(w.n), newest, how="newer_single")
        mutate_layout(w, rng, classes, newest, allow_crafted=False, allow_dup=False, nmut=rng.choice([0, 0, 1]))
    elif mode == "competitor" and comp:
        base_layout(w, newest, rng)
        srvs = rng.sample(w.order, min(len(w.order), rng.choice([2, 2, 3])))
        for i, s in enumerate(srvs):
            w.put(s, (i + rng.randrange(w.n)) % w.n if rng.random() < 0.3 else i % w.n, comp, how="competitor")
        mutate_layout(w, rng, classes, newest, allow_crafted=False, allow_dup=False, nmut=rng.choice([0, 0, 1]))
    else:
        base_layout(w, best, rng)
        if mode == "healthy":
            nm = rng.choice([0, 0, 1])
        elif mode == "missing":
            for _ in range(rng.randint(1, 2)):
                if w.lay:
                    w.delete(*rng.choice(sorted(w.lay)))
            nm = 0
        else:
            nm = None
        mutate_layout(w, rng, classes, newest, allow_crafted=False, allow_dup=(rng.random() < 0.3), nmut=nm)
    removed = [s for s in w.order if rng.random() < 0.08]
    if len(removed) >= len(w.order) - 1:
        removed = []
    w.set_up(removed)
    w.ev_layout()
    ops_c14(w, rng)
    w.set_up([])
    return w.trace("c14")


def scen_c14_late(g, fg, rng, idx, thorough):
    """k=1, N=4 on 6 servers: the older version sits on the servers that come first in the permuted order, the
    newest version only on the last ones.  A shallow MODE_READ survey (it stops after k+epsilon shares) never
    reaches the newest version, the checker's and repairer's full surveys do: whatever repair does afterwards, the
    newest contents must survive."""
    w = new_world(g, fg, rng, 2, k=1, n=4)
    newest = len(w.vers)
    w.wipe()
    order = list(w.order)
    nold = rng.choice([3, 4])
    for i in range(nold):
        w.put(order[i], i % w.n, newest - 1, how="old_first")
    late = order[nold:]
    for j, s in enumerate(late[:rng.choice([1, 2])]):
        w.put(s, (nold + j) % w.n, newest, how="newest_last")
    w.set_up([])
    w.ev_layout()
    kind = rng.choice(["w", "rw"])
    cr = w.op_check(kind, False)
    if cr is not None:
        res = w.op_repair(kind, False, cr)
        if res == "mustforce":
            cr2 = w.op_check(kind, False)
            if cr2 is not None:
                w.op_repair(kind, True, cr2)
    w.op_read(rng.choice(["ro", "rw"]))
    w.set_up([])
    return w.trace("c14")


def scen_c14_mid(g, fg, rng, idx, thorough):
    """the newest version on exactly k servers, the older one recoverable from the others; one holder of the newest
    version stops answering between the repairer's survey and its download: the repair fails and changes nothing, or it
    keeps the contents of the version it chose - it never publishes the older contents as the newest version"""
    w = new_world(g, fg, rng, 2)
    newest = len(w.vers)
    w.wipe()
    order = list(w.order)
    rng.shuffle(order)
    for i in range(w.k):
        w.put(order[i], i, newest, how="newest_exactly_k")
    rest = order[w.k:]
    for j, s in enumerate(rest):
        w.put(s, j % w.n, newest - 1, how="older_recoverable")
    w.set_up([])
    w.ev_layout()
    kind = rng.choice(["w", "rw"])
    cr = w.op_check(kind, False)
    if cr is not None:
        w.op_repair(kind, rng.random() < 0.3, cr, midfault=order[rng.randrange(w.k)])
    w.op_read(rng.choice(["ro", "rw"]))
    return w.trace("c14")


def scen_c14_midwrite(g, fg, rng, idx, thorough):
    """a file that needs repair (one share number is missing); while the repairer's writes are on the wire a second client
    overwrites the whole file.  The repairer's writes meet the newer version: the repair fails (and the newer contents
    stay), it never republishes what it had downloaded over them"""
    w = new_world(g, fg, rng, 1)
    newest = len(w.vers)
    w.wipe()
    order = list(w.order)
    rng.shuffle(order)
    for sh in range(w.n):
        if sh != 1:
            w.put(order[sh % len(order)], sh, newest, how="plain")
    w.set_up([])
    w.ev_layout()
    kind = rng.choice(["w", "rw"])
    cr = w.op_check(kind, False)
    if cr is not None:
        w.op_repair(kind, False, cr, midwrite=w.new_content())
    w.op_read(rng.choice(["ro", "rw"]))
    return w.trace("c14")


def scen_c14_stale(g, fg, rng, idx, thorough):
    """check results that went stale: a verifying check finds one share damaged inside (its prefix is intact); before the
    repair runs, another writer's newer version lands on exactly that (server, share number) - fewer than k shares of it.
    The repair, handed the old check results and no force, must not discard that newer version."""
    w = new_world(g, fg, rng, 2)
    newest = len(w.vers)
    w.wipe()
    order = list(w.order)
    rng.shuffle(order)
    for sh in range(w.n):
        w.put(order[sh % len(order)], sh, newest - 1, how="plain_older")
    victim_s, victim_sh = order[0], 0
    kinds = [k_ for k_, c_ in TAMPERS.items() if c_ == "bodybad" and k_ in ("block", "salt", "bht")]
    t_ = tampered(w, newest - 1, victim_sh, list(kinds), rng)
    if t_ is not None:
        w.put(victim_s, victim_sh, newest - 1, t_[1], t_[0], "damaged_inside:" + t_[2])
    w.set_up([])
    w.ev_layout()
    kind = rng.choice(["w", "rw"])
    cr = w.op_check(kind, True)
    # the other writer's share arrives
    w.put(victim_s, victim_sh, newest, how="newer_version_lands_on_the_reported_share")
    w.ev_layout()
    if cr is not None:
        w.op_repair(kind, False, cr)
    w.op_read(rng.choice(["ro", "rw"]))
    return w.trace("c14")


def ops_c14(w, rng):
    kind = rng.choice(["w", "rw"])
    w.op_check(kind, False)
    w.op_check(rng.choice(["w", "rw"]), True)
    cr = w.op_check(kind, False)
    if cr is not None:
        first_force = rng.random() < 0.25
        mid = ""
        if rng.random() < 0.3:
            # a server that holds a share of the newest version it has
            newest_ = max((ent["v"] for ent in w.lay.values()), default=0)
            holders = sorted({sname for (sname, sh), ent in w.lay.items() if ent["v"] == newest_ and sname not in w.removed})
            if holders:
                mid = rng.choice(holders)
        res = w.op_repair(kind, first_force, cr, midfault=mid)
        if res == "mustforce":
            cr2 = w.op_check(kind, False)
            if cr2 is not None:
                w.op_repair(kind, True, cr2)


def scen_gen(g, fg, rng, case, family):
    """a layout enumerated by spec/mutable/GenMutableLayouts.tla: server s<i> = i-th server of the permuted list,
    version 2 = newest, version 1 = older; the class of a slot is realised by a random tamper kind of that class"""
    w = new_world(g, fg, rng, 2)
    w.wipe()
    for pos in sorted(case["L"]):
        s = w.order[int(pos[1:])]
        for shs in sorted(case["L"][pos]):
            x = case["L"][pos][shs]
            sh = int(shs)
            if x["cls"] == "absent":
                continue
            if x["cls"] == "intact":
                w.put(s, sh, x["v"], how="gen")
            else:
                t = tampered(w, x["v"], sh, [k for k, c in TAMPERS.items() if c == x["cls"]], rng)
                assert t, (x, w.fmt)
                w.put(s, sh, x["v"], t[1], t[0], "gen:" + t[2])
    w.set_up([])
    w.ev_layout()
    if family == "C10":
        w.op_read("ro", "fifo")
        w.op_read(rng.choice(["rw", "w"]), random.Random(rng.randrange(10 ** 6)))
    elif family == "C11":
        w.op_read("ro", random.Random(rng.randrange(10 ** 6)))
        w.op_publish("rw", w.new_content())
        w.ev_layout()
        w.op_read("ro", "fifo")
    else:
        ops_c14(w, rng)
    return w.trace("gen")


SCENS = {"C10": scen_c10, "C11": scen_c11, "C14": scen_c14}


def main():
    ap = argparse.ArgumentParser()
    ap.add_argument("--out")
    ap.add_argument("--seed", type=int, default=0)
    ap.add_argument("--tier", default="quick")
    ap.add_argument("--in", dest="inp")
    ap.add_argument("--family", default="C10")
    ap.add_argument("--n", type=int, default=50)
    ap.add_argument("--servers", type=int, default=0)
    a = ap.parse_args()
    pubmod.DEFAULT_MUTABLE_MAX_SEGMENT_SIZE = SEGSIZE
    install_hooks()
    thorough = a.tier != "quick"
    rng0 = random.Random("%s-%d" % (a.family, a.seed))
    work = os.path.join(os.getcwd(), "mutread_%s_%d" % (a.family, os.getpid()))
    traces = []
    grids = {}
    cases = None
    if a.inp:
        with open(a.inp) as f:
            cases = json.load(f)
        a.n = len(cases)
        a.servers = 4
    a.n0 = a.n
    if cases is None and a.family == "C14":
        a.n += max(2, a.n // 12)          # repairs that race a second client's overwrite
    for i in range(a.n):
        rng = random.Random(rng0.randrange(10 ** 9))
        ns = a.servers or (rng.choice([4, 4, 5]) if a.family != "C11" else rng.choice([5, 6, 6, 7]))
        late = cases is None and a.family == "C14" and rng.random() < 0.15 and i < a.n0
        if late:
            ns = "late"
        if ns not in grids:
            if late:
                g = Grid(os.path.join(work, "glate"), num_servers=6, k=1, n=4, happy=1, seed=a.seed)
                fg = Grid(os.path.join(work, "flate"), num_servers=6, k=1, n=4, happy=1, seed=a.seed)
            else:
                g = Grid(os.path.join(work, "g%d" % ns), num_servers=ns, k=2, n=3, happy=1, seed=a.seed)
                fg = Grid(os.path.join(work, "f%d" % ns), num_servers=ns, k=2, n=3, happy=1, seed=a.seed)
            grids[ns] = (g, fg)
        g, fg = grids[ns]
        g.keypool.i = rng.randrange(len(g.keypool.ders))
        g.removed = set()
        g.policy = "fifo"
        g.calllog = []
        g.log_calls = False
        if cases is not None:
            tr = scen_gen(g, fg, rng, cases[i], a.family)
        else:
            if late:
                tr = scen_c14_late(g, fg, rng, i, thorough)
            elif a.family == "C14" and ns >= 4 and rng.random() < 0.12:
                tr = scen_c14_mid(g, fg, rng, i, thorough)
            elif a.family == "C14" and rng.random() < 0.1:
                tr = scen_c14_stale(g, fg, rng, i, thorough)
            elif a.family == "C14" and i >= a.n0:
                tr = scen_c14_midwrite(g, fg, rng, i, thorough)        # (the additional histories at the end of the run)
            elif a.family == "C10" and i % 8 == 3 and ns >= 3:
                tr = scen_c10_vanish(g, fg, rng, i, thorough)
            else:
                tr = SCENS[a.family](g, fg, rng, i, thorough)
        tr["consts"]["idx"] = i
        traces.append(tr)
        # forget this file
        for sname in g.servers:
            sd = g.servers[sname].ss.sharedir
            for pfx in os.listdir(sd):
                if pfx != "incoming":
                    shutil.rmtree(os.path.join(sd, pfx), ignore_errors=True)
    for g, fg in grids.values():
        g.close()
        fg.close()
    shutil.rmtree(work, ignore_errors=True)
    with open(a.out, "w") as f:
        json.dump(traces, f)


if __name__ == "__main__":
    main()
