"""Core of the verification framework: TLC runners, implementation drivers,
verdict/finding handling and evidence writing.

A property check is a Python module /verif/checks/<ID>/check.py with a function
run(ctx).  It uses ctx to
  * run TLC on a specification (exhaustive MC, -simulate, GEN of cases,
    TRACE validation of recorded behaviours of the real code),
  * run drivers of the real code (subprocess of /venv/bin/python with
    PYTHONPATH=<repo>/src:<verif>/shims:<verif>/harness),
  * report disagreements (ctx.report) and write the evidence file.
Exit codes of `vf check`: 0 held, 1 violation (VIOLATION line printed),
2 machinery failure (never a verdict).
"""
import json, os, re, shutil, subprocess, sys, tempfile, time, glob, hashlib

VERIF = os.environ.get("VERIF_HOME") or os.path.dirname(os.path.dirname(os.path.dirname(os.path.abspath(__file__))))
REPO = os.environ.get("VERIF_REPO", "/repo")
SPEC = os.path.join(VERIF, "spec")
PY = "/venv/bin/python"
TLA_CP = "/opt/veriftools/tla/tla2tools.jar:/opt/veriftools/tla/CommunityModules-deps.jar"
NCPU = os.cpu_count() or 4


class MachineryError(Exception):
    pass


def spec_library():
    dirs = [SPEC]
    for root, ds, fs in os.walk(SPEC):
        for d in ds:
            dirs.append(os.path.join(root, d))
    return os.pathsep.join(dirs)


def find_module(name):
    """name is 'Module' or 'sub/Module' -> absolute path of the .tla file."""
    cand = os.path.join(SPEC, name + ".tla")
    if os.path.exists(cand):
        return cand
    hits = glob.glob(os.path.join(SPEC, "**", os.path.basename(name) + ".tla"), recursive=True)
    if len(hits) == 1:
        return hits[0]
    raise MachineryError("module %s not found (%r)" % (name, hits))


class TLCResult:
    def __init__(self):
        self.ok = False            # TLC finished without reporting an error
        self.completed = False     # "Model checking completed" / simulation budget reached
        self.states = 0            # distinct states
        self.transitions = 0       # states generated
        self.depth = 0
        self.violated = []         # names of violated invariants / properties
        self.errors = []           # other TLC errors (parse, evaluation)
        self.prints = []           # PrintT lines (raw text)
        self.out = ""
        self.outfile = None
        self.wall = 0.0
        self.coverage = {}         # action name -> (taken, distinct)
        self.timed_out = False

    def tuples(self, tag):
        """PrintT(<<"tag", ...>>) lines parsed into python lists."""
        res = []
        for p in self.prints:
            # (TLC prints a tuple that does not fit on one line as `<< "tag",` + one element per line)
            if re.match(r'<<\s*"%s"' % re.escape(tag), p):
                res.append(parse_tla_value(p))
        return res


_tok = re.compile(r'\s*(<<|>>|\[|\]|\{|\}|\(|\)|,|\|->|:>|@@|"(?:[^"\\]|\\.)*"|-?\d+|[A-Za-z_][A-Za-z0-9_]*)')


def parse_tla_value(s):
    """Parse the TLA+ values TLC prints (tuples, sets, records, functions
    written with :> / @@, strings, ints, booleans, model values)."""
    toks = []
    pos = 0
    s = s.strip()
    while pos < len(s):
        m = _tok.match(s, pos)
        if not m:
            raise ValueError("cannot tokenise %r at %d" % (s, pos))
        toks.append(m.group(1))
        pos = m.end()
    idx = [0]

    def peek():
        return toks[idx[0]] if idx[0] < len(toks) else None

    def nxt():
        t = toks[idx[0]]
        idx[0] += 1
        return t

    def atom():
        t = nxt()
        if t == "<<":
            items = []
            while peek() != ">>":
                items.append(expr())
                if peek() == ",":
                    nxt()
            nxt()
            return items
        if t == "{":
            items = []
            while peek() != "}":
                items.append(expr())
                if peek() == ",":
                    nxt()
            nxt()
            return {"__set__": items}
        if t == "[":
            rec = {}
            while peek() != "]":
                k = nxt()
                assert nxt() == "|->", "record syntax"
                rec[k] = expr()
                if peek() == ",":
                    nxt()
            nxt()
            return rec
        if t == "(":
            e = expr()
            assert nxt() == ")"
            return e
        if t.startswith('"'):
            return json.loads(t)
        if re.match(r"-?\d+$", t):
            return int(t)
        if t == "TRUE":
            return True
        if t == "FALSE":
            return False
        return t

    def expr():
        left = atom()
        # function literals: a :> b @@ c :> d
        if peek() == ":>":
            fn = {}
            nxt()
            fn[_key(left)] = atom()
            while peek() == "@@":
                nxt()
                k = atom()
                assert nxt() == ":>"
                fn[_key(k)] = atom()
            return fn
        return left

    def _key(k):
        return k if isinstance(k, (str, int)) else json.dumps(k)

    v = expr()
    return v


def run_tlc(module, cfg, workdir, mode="mc", workers=None, timeout=600, env=None,
            simulate=None, depth=None, seed=None, coverage=True, cont=False,
            deadlock=None, dfs=False, extra=None):
    """Run TLC on spec module `module` (name or path) with config file `cfg`
    (path, or text if it contains a newline)."""
    t0 = time.time()
    mpath = module if os.path.isabs(module) else find_module(module)
    os.makedirs(workdir, exist_ok=True)
    tag = os.path.basename(mpath)[:-4] + "_" + hashlib.md5((str(cfg) + str(time.time())).encode()).hexdigest()[:6]
    if "\n" in cfg or not cfg.endswith(".cfg"):
        cfgpath = os.path.join(workdir, tag + ".cfg")
        with open(cfgpath, "w") as f:
            f.write(cfg)
    else:
        cfgpath = cfg if os.path.isabs(cfg) else os.path.join(os.path.dirname(mpath), cfg)
        if not os.path.exists(cfgpath):
            hits = glob.glob(os.path.join(SPEC, "**", os.path.basename(cfg)), recursive=True)
            if len(hits) != 1:
                raise MachineryError("cfg %s not found" % cfg)
            cfgpath = hits[0]
    meta = os.path.join(workdir, "meta_" + tag)
    jopts = ["-XX:+UseParallelGC", "-XX:ParallelGCThreads=4", "-Xmx6g", "-Xss16m", "-DTLA-Library=" + spec_library()]
    if dfs:
        jopts.append("-Dtlc2.tool.queue.IStateQueue=StateDeque")
    cmd = ["java"] + jopts + ["-cp", TLA_CP, "tlc2.TLC", "-metadir", meta, "-noGenerateSpecTE",
                               "-config", cfgpath]
    if workers is None:
        workers = 1 if mode == "trace" else min(NCPU, int(os.environ.get("VERIF_TLC_WORKERS", "8")))
    cmd += ["-workers", str(workers)]
    if simulate:
        cmd += ["-simulate", simulate]
        if depth:
            cmd += ["-depth", str(depth)]
        if seed is not None:
            cmd += ["-seed", str(seed)]
    elif coverage and mode == "mc":
        cmd += ["-coverage", "1"]
    if cont:
        cmd.append("-continue")
    if deadlock is False:
        cmd.append("-deadlock")
    if extra:
        cmd += extra
    cmd.append(mpath)
    e = dict(os.environ)
    e.pop("JAVA_TOOL_OPTIONS", None)
    if env:
        e.update({k: str(v) for k, v in env.items()})
    res = TLCResult()
    res.outfile = os.path.join(workdir, tag + ".out")
    try:
        with open(res.outfile, "w") as fo:
            p = subprocess.run(cmd, cwd=workdir, env=e, stdout=fo, stderr=subprocess.STDOUT, timeout=timeout)
        rc = p.returncode
    except subprocess.TimeoutExpired:
        rc = -9
        res.timed_out = True
        subprocess.run(["pkill", "-f", meta], check=False)
    with open(res.outfile, errors="replace") as f:
        out = f.read()
    res.out = out
    res.wall = time.time() - t0
    shutil.rmtree(meta, ignore_errors=True)
    _parse_tlc(res, out, rc)
    return res


def _parse_tlc(res, out, rc):
    for m in re.finditer(r"(\d+) states generated, (\d+) distinct states found", out):
        res.transitions = int(m.group(1))
        res.states = int(m.group(2))
    m = re.search(r"The number of states generated: (\d+)", out)
    if m and not res.transitions:
        res.transitions = int(m.group(1))
        res.states = max(res.states, 1)
    m = re.search(r"depth of the complete state graph search is (\d+)", out)
    if m:
        res.depth = int(m.group(1))
    for m in re.finditer(r"Error: Invariant (\S+) is violated", out):
        res.violated.append(m.group(1))
    for m in re.finditer(r"Error: Action property (\S+) is violated", out):
        res.violated.append(m.group(1))
    for m in re.finditer(r"Error: Action property line .* is violated", out):
        res.violated.append("action-property")
    if "Temporal properties were violated" in out:
        res.violated.append("temporal")
    for m in re.finditer(r"Error: Temporal property (\S+) was violated", out):
        res.violated.append(m.group(1))
    if re.search(r"Error: Deadlock reached", out):
        res.violated.append("deadlock")
    if "Postcondition" in out and "violated" in out.split("Postcondition", 1)[1][:200]:
        res.violated.append("postcondition")
    for m in re.finditer(r"^Error: (.*)$", out, re.M):
        line = m.group(1)
        if any(k in line for k in ("Invariant", "Action property", "Deadlock reached", "Temporal properties", "Temporal property",
                                   "The behavior up to this point", "The following behavior")):
            continue
        res.errors.append(line.strip())
    if re.search(r"Assumption .* is false", out):
        res.errors.append("assumption false")
    # PrintT output; TLC wraps long values over several lines: join until the brackets balance
    res.prints = []
    lines = out.splitlines()
    i = 0
    while i < len(lines):
        l = lines[i]
        if l.startswith("<<") or l.startswith('"'):
            buf = l.strip()
            j = i
            while (buf.count("<<") > buf.count(">>") or buf.count("[") > buf.count("]") or buf.count("{") > buf.count("}")) \
                    and j + 1 < len(lines) and j - i < 400:
                j += 1
                buf += " " + lines[j].strip()
            res.prints.append(buf)
            i = j + 1
        else:
            i += 1
    # coverage: lines "<Name line a, col b to line c, col d of module M>: x:y"
    for m in re.finditer(r"^<(\w+) line \d+, col \d+ to line \d+, col \d+ of module (\w+)>: (\d+):(\d+)", out, re.M):
        name = m.group(1)
        a, b = int(m.group(3)), int(m.group(4))
        old = res.coverage.get(name, (0, 0))
        res.coverage[name] = (max(old[0], a), max(old[1], b))
    res.completed = ("Model checking completed" in out) or ("Finished in" in out and not res.timed_out)
    res.ok = (not res.violated) and (not res.errors) and not res.timed_out and rc in (0,) and res.completed


class Ctx:
    def __init__(self, pid, tier, seed):
        self.pid, self.tier, self.seed = pid, tier, seed
        self.t0 = time.time()
        base = os.environ.get("VERIF_WORK") or tempfile.gettempdir()
        self.workdir = tempfile.mkdtemp(prefix="vf_%s_" % pid, dir=base)
        self.states = 0
        self.transitions = 0
        self.traces_validated = 0
        self.evaluations = 0
        self.distinct = set()
        self.samples = []
        self.actions = {}
        self.trace_actions = {}
        self.notes = []
        self.note_counts = {}
        self.assumptions = []
        self.constants = {}
        self.findings = []       # dicts: key, what, known(bool), replay
        self.exhaustive = None
        self.rule = ""
        self.runs = []
        self.quick = (tier == "quick")
        # known findings: /verif/known_findings.json (merged, committed) plus known_findings.d/*.json
        self.known = []
        files = [os.path.join(VERIF, "known_findings.json")] + sorted(glob.glob(os.path.join(VERIF, "known_findings.d", "*.json")))
        seen = set()
        for kf in files:
            if os.path.exists(kf):
                for k in json.load(open(kf)).get("findings", []):
                    if k.get("property") == pid and (k["key"], k.get("status")) not in seen:
                        seen.add((k["key"], k.get("status")))
                        self.known.append(k)

    # ---------------- TLC ----------------
    def mc(self, module, cfg, name=None, expect_ok=True, **kw):
        """Exhaustive model checking; any violated property of the Spec is a finding."""
        if os.environ.get("VERIF_SKIP_MC") and not kw.get("dump"):     # mutant sweeps only: the Spec is unchanged, skip its MC run
            r = TLCResult(); r.ok = r.completed = True; r.states = r.transitions = 1
            self.notes.append("MC skipped (VERIF_SKIP_MC)")
            return r
        r = run_tlc(module, cfg, self.workdir, mode="mc", **kw)
        self._account(r, name or ("MC %s" % module))
        if r.errors or r.timed_out or (not r.completed and not r.violated):
            raise MachineryError("TLC failed on %s: %s (see %s)\n%s" % (module, r.errors[:3], r.outfile, r.out[-3000:]))
        if expect_ok:
            for v in r.violated:
                self.report(key="spec:%s:%s" % (os.path.basename(module), v),
                            what="TLC: %s violated in specification %s" % (v, module),
                            replay={"kind": "tlc-counterexample", "module": module, "cfg": cfg, "tlc_output": r.out[-20000:]})
        return r

    def sim(self, module, cfg, num, depth, name=None, **kw):
        r = run_tlc(module, cfg, self.workdir, mode="sim", simulate="num=%d" % num, depth=depth,
                    seed=self.seed, coverage=False, **kw)
        self._account(r, name or ("SIM %s" % module))
        if r.errors or r.timed_out:
            raise MachineryError("TLC -simulate failed on %s: %s\n%s" % (module, r.errors[:3], r.out[-3000:]))
        for v in r.violated:
            self.report(key="spec:%s:%s" % (os.path.basename(module), v),
                        what="TLC(simulate): %s violated in specification %s" % (v, module),
                        replay={"kind": "tlc-counterexample", "module": module, "tlc_output": r.out[-20000:]})
        return r

    def gen(self, module, cfg, outname="cases.ndjson", env=None, **kw):
        """GEN mode: the Spec writes its cases (with expected results) to OUT_FILE."""
        out = os.path.join(self.workdir, outname)
        e = {"OUT_FILE": out}
        e.update(env or {})
        r = run_tlc(module, cfg, self.workdir, mode="mc", env=e, **kw)
        self._account(r, "GEN %s" % module)
        if r.errors or r.violated or r.timed_out or not os.path.exists(out):
            raise MachineryError("TLC GEN failed on %s: %s %s\n%s" % (module, r.errors[:3], r.violated, r.out[-3000:]))
        cases = []
        with open(out) as f:
            txt = f.read().strip()
        if txt.startswith("["):
            cases = json.loads(txt)
        else:
            cases = [json.loads(l) for l in txt.splitlines() if l.strip()]
        return cases, r

    def trace(self, module, traces, cfg=None, name=None, key_of=None, what_of=None, workers=1,
              invariants=("TraceOK",), batch=None, timeout=900, env=None, dfs=False):
        """TRACE mode: validate recorded behaviours of the real code against the Spec.
        `traces` is a list of trace objects.  The trace module reads IOEnv.TRACE_FILE,
        picks tid in Init, and prints <<"VF_ACCEPT", tid, n>> or
        <<"VF_REJECT", tid, l, clause>> for each trace.  Returns list of rejections
        [(trace_index, l, clause)]."""
        rejected = []
        if not traces:
            raise MachineryError("no traces recorded for %s" % module)
        batch = batch or len(traces)
        for b0 in range(0, len(traces), batch):
            chunk = traces[b0:b0 + batch]
            tf = os.path.join(self.workdir, "traces_%s_%d.json" % (os.path.basename(module), b0))
            with open(tf, "w") as f:
                json.dump(chunk, f)
            ctext = cfg or ("SPECIFICATION TraceSpec\n" + "".join("INVARIANT %s\n" % i for i in invariants) +
                            "CHECK_DEADLOCK FALSE\n")
            e = {"TRACE_FILE": tf}
            e.update(env or {})
            r = run_tlc(module, ctext, self.workdir, mode="trace", workers=workers, env=e,
                        cont=True, timeout=timeout, dfs=dfs)
            self._account(r, name or ("TRACE %s" % module), trace=True)
            if r.errors or r.timed_out:
                raise MachineryError("TLC TRACE failed on %s: %s (see %s)\n%s" % (module, r.errors[:3], r.outfile, r.out[-3000:]))
            for t in r.tuples("VF_NOTE"):
                self.note_counts[t[3]] = self.note_counts.get(t[3], 0) + 1
            acc = {t[1] for t in r.tuples("VF_ACCEPT")}
            rej = {}
            for t in r.tuples("VF_REJECT"):
                rej.setdefault(t[1], (t[2], t[3] if len(t) > 3 else "?"))
            for v in r.violated:
                if v not in ("TraceOK",):
                    # a property invariant listed in the cfg failed on some state of a real execution
                    tids = re.findall(r"/\\ tid = (\d+)", r.out) or re.findall(r"\btid = (\d+)", r.out)
                    for t in set(int(x) for x in tids):
                        if t not in rej:
                            rej[t] = (0, v)
            for i in range(1, len(chunk) + 1):
                # a trace spec that branches (several readings of an ambiguous event) accepts a trace as soon as
                # one branch consumes it completely; the branches that got stuck do not count
                if i in acc:
                    continue
                if i in rej:
                    rejected.append((b0 + i - 1, rej[i][0], rej[i][1]))
                elif i not in acc:
                    raise MachineryError("trace %d of %s neither accepted nor rejected (see %s)" % (i, module, r.outfile))
            self.traces_validated += len(chunk)
        for (ti, l, clause) in rejected:
            tr = traces[ti]
            key = key_of(tr, l, clause) if key_of else "trace:%s:%s" % (os.path.basename(module), clause)
            what = what_of(tr, l, clause) if what_of else "real execution rejected by %s at event %d: %s" % (module, l, clause)
            ev = None
            try:
                ev = tr["events"][l - 1]
            except Exception:
                pass
            self.report(key=key, what=what, replay={"kind": "rejected-trace", "module": module, "event_index": l,
                                                    "clause": clause, "event": ev, "trace": tr})
        return rejected

    def _account(self, r, name, trace=False):
        self.states += r.states
        self.transitions += r.transitions
        self.runs.append({"run": name, "states": r.states, "transitions": r.transitions, "depth": r.depth,
                          "wall_s": round(r.wall, 2), "violated": r.violated})
        tgt = self.trace_actions if trace else self.actions
        for k, v in r.coverage.items():
            tgt[k] = tgt.get(k, 0) + v[0]

    # ---------------- implementation side ----------------
    def impl_env(self):
        e = dict(os.environ)
        e["PYTHONPATH"] = os.pathsep.join([os.path.join(REPO, "src"), os.path.join(VERIF, "shims"),
                                           os.path.join(VERIF, "harness"), os.path.join(VERIF, "lib")])
        e["PYTHONHASHSEED"] = "0"
        e["PYTHONDONTWRITEBYTECODE"] = "1"
        e["TAHOE_LAFS_VERIF"] = "1"
        e["VERIF_REPO"] = REPO
        e["VERIF_HOME"] = VERIF
        e["VERIF_SEED"] = str(self.seed)
        e["VERIF_TIER"] = self.tier
        return e

    def impl(self, script, args=(), input_obj=None, timeout=1800, noaslr=False):
        """Run a driver of the real code (script relative to /verif) and return its JSON output.
        The driver reads JSON from the file given as --in and writes JSON to --out."""
        sp = script if os.path.isabs(script) else os.path.join(VERIF, script)
        n = len(os.listdir(self.workdir))
        outp = os.path.join(self.workdir, "impl_out_%d.json" % n)
        cmd = [PY, sp, "--out", outp, "--seed", str(self.seed), "--tier", self.tier]
        if input_obj is not None:
            inp = os.path.join(self.workdir, "impl_in_%d.json" % n)
            with open(inp, "w") as f:
                json.dump(input_obj, f)
            cmd += ["--in", inp]
        cmd += [str(a) for a in args]
        if noaslr:
            cmd = ["setarch", os.uname().machine, "-R"] + cmd
        t0 = time.time()
        logp = os.path.join(self.workdir, "impl_log_%d.txt" % n)
        with open(logp, "w") as lf:
            try:
                p = subprocess.run(cmd, cwd=self.workdir, env=self.impl_env(), stdout=lf, stderr=subprocess.STDOUT,
                                   timeout=timeout)
            except subprocess.TimeoutExpired:
                raise MachineryError("driver %s timed out" % script)
        if p.returncode != 0 or not os.path.exists(outp):
            with open(logp, errors="replace") as f:
                tail = f.read()[-4000:]
            raise MachineryError("driver %s failed rc=%s\n%s" % (script, p.returncode, tail))
        self.runs.append({"run": "IMPL %s" % script, "wall_s": round(time.time() - t0, 2)})
        with open(outp) as f:
            return json.load(f)

    # ---------------- verdicts ----------------
    def report(self, key, what, replay=None):
        """A disagreement between Spec and code / a violated property.  Known findings
        (matched by structural key prefix) are printed as KNOWN-FINDING; anything else is a VIOLATION."""
        for k in self.known:
            if k.get("status") == "known" and (key == k["key"] or key.startswith(k["key"] + ":")):
                for f in self.findings:
                    if f["known"] and f["kkey"] == k["key"]:
                        f["count"] += 1
                        return
                self.findings.append({"key": key, "kkey": k["key"], "what": k.get("what", what), "known": True, "count": 1})
                return
        for f in self.findings:
            if not f["known"] and f["key"] == key:
                f["count"] += 1
                return
        rdir = os.environ.get("VERIF_REPLAYS") or os.path.join(VERIF, "replays")
        os.makedirs(rdir, exist_ok=True)
        rp = os.path.join(rdir, "%s-%d-%d.json" % (self.pid, self.seed, len(self.findings)))
        with open(rp, "w") as f:
            json.dump({"property": self.pid, "seed": self.seed, "tier": self.tier, "key": key, "what": what,
                       "replay": replay}, f, indent=1, default=str)
        self.findings.append({"key": key, "what": what, "known": False, "replay": rp, "count": 1})

    def sample(self, obj, limit=4):
        if len(self.samples) < limit:
            self.samples.append(obj)

    def count(self, case_key=None, n=1):
        self.evaluations += n
        if case_key is not None:
            self.distinct.add(case_key if isinstance(case_key, (str, int, tuple)) else json.dumps(case_key, sort_keys=True))

    def finish(self):
        wall = time.time() - self.t0
        viol = [f for f in self.findings if not f["known"]]
        cov = {
            "states": int(self.states), "transitions": int(self.transitions),
            "traces_validated_against_impl": int(self.traces_validated),
            "samples": self.samples or [{"note": "no sample recorded"}],
            "evaluations": int(self.evaluations), "distinct_nontrivial": len(self.distinct),
            "rule": self.rule, "tlc_runs": self.runs, "spec_action_coverage": self.actions,
            "constants": self.constants,
        }
        if self.trace_actions:
            cov["trace_action_coverage"] = self.trace_actions
        if self.exhaustive is not None:
            cov["exhaustive"] = bool(self.exhaustive)
        if self.note_counts:
            self.notes.append("non-verdict observations from trace validation: %s" % json.dumps(self.note_counts))
        if self.notes:
            cov["notes"] = self.notes
        cov["known_findings_seen"] = [{"key": f["kkey"], "count": f["count"]} for f in self.findings if f["known"]]
        cov["violations_detail"] = [{"key": f["key"], "what": f["what"], "count": f["count"], "replay": f["replay"]} for f in viol]
        ev = {"property_id": self.pid, "tier": self.tier, "seed": int(self.seed), "level": "model_checking",
              "coverage": cov, "assumptions": self.assumptions, "wall_s": round(wall, 2), "violations": len(viol)}
        edir = os.environ.get("VERIF_EVIDENCE") or os.path.join(VERIF, "evidence")
        os.makedirs(edir, exist_ok=True)
        with open(os.path.join(edir, "%s.json" % self.pid), "w") as f:
            json.dump(ev, f, indent=1, default=str)
        for f in self.findings:
            if f["known"]:
                print("KNOWN-FINDING: property=%s %s (key=%s, seen %d times)" % (self.pid, f["what"], f["kkey"], f["count"]))
        for f in viol:
            print("VIOLATION property=%s replay=%s" % (self.pid, f["replay"]))
            print("  detail: %s [%s] x%d" % (f["what"], f["key"], f["count"]))
        print("%s %s: states=%d transitions=%d traces=%d evaluations=%d wall=%.1fs -> %s" % (
            self.pid, self.tier, self.states, self.transitions, self.traces_validated, self.evaluations, wall,
            "VIOLATED" if viol else "held"))
        if not os.environ.get("VERIF_KEEP"):
            shutil.rmtree(self.workdir, ignore_errors=True)
        return 1 if viol else 0
