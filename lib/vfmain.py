"""vf - command line of the verification framework.

  vf check <ID> [--tier quick|thorough] [--seed N]   run one property check
  vf all [--tier quick] [-j N] [IDs...]              run many checks, summary table
  vf manifest                                        regenerate MANIFEST.json from checks/*/meta.json
  vf setup                                           offline self-check of the tool chain (MANIFEST.setup_cmd)
  vf replay <path>                                   print a replay artefact
"""
import argparse, importlib.util, json, os, subprocess, sys, time, traceback

HERE = os.path.dirname(os.path.abspath(__file__))
sys.path.insert(0, HERE)
from vfw import core  # noqa


def load_check(pid):
    p = os.path.join(core.VERIF, "checks", pid, "check.py")
    if not os.path.exists(p):
        raise core.MachineryError("no check for %s" % pid)
    spec = importlib.util.spec_from_file_location("check_" + pid, p)
    m = importlib.util.module_from_spec(spec)
    sys.path.insert(0, os.path.dirname(p))
    spec.loader.exec_module(m)
    return m


def cmd_check(a):
    seed = a.seed if a.seed is not None else int(os.environ.get("VERIF_SEED", "0") or 0)
    tier = a.tier or os.environ.get("VERIF_TIER") or "quick"
    ctx = core.Ctx(a.id, tier, seed)
    try:
        m = load_check(a.id)
        m.run(ctx)
        rc = ctx.finish()
    except core.MachineryError as e:
        print("MACHINERY-FAILURE property=%s: %s" % (a.id, e))
        rc = 2
    except Exception:
        traceback.print_exc()
        print("MACHINERY-FAILURE property=%s (exception above)" % a.id)
        rc = 2
    sys.exit(rc)


def cmd_extra(a):
    """Spec modules beyond the listed properties: same machinery, not part of MANIFEST.json."""
    seed = a.seed if a.seed is not None else int(os.environ.get("VERIF_SEED", "0") or 0)
    tier = a.tier or "quick"
    os.environ.setdefault("VERIF_EVIDENCE", os.path.join(core.VERIF, "evidence_extra"))
    ctx = core.Ctx("X-" + a.name, tier, seed)
    try:
        p = os.path.join(core.VERIF, "extras", a.name, "check.py")
        spec = importlib.util.spec_from_file_location("extra_" + a.name, p)
        m = importlib.util.module_from_spec(spec)
        sys.path.insert(0, os.path.dirname(p))
        sys.path.insert(0, os.path.join(core.VERIF, "checks", "_shared"))
        spec.loader.exec_module(m)
        m.run(ctx)
        rc = ctx.finish()
    except core.MachineryError as e:
        print("MACHINERY-FAILURE extra=%s: %s" % (a.name, e))
        rc = 2
    except Exception:
        traceback.print_exc()
        print("MACHINERY-FAILURE extra=%s (exception above)" % a.name)
        rc = 2
    sys.exit(rc)


def cmd_all(a):
    ids = a.ids or sorted(d for d in os.listdir(os.path.join(core.VERIF, "checks"))
                          if os.path.exists(os.path.join(core.VERIF, "checks", d, "check.py")))
    from concurrent.futures import ThreadPoolExecutor
    res = {}

    def one(pid):
        t0 = time.time()
        cmd = [os.path.join(core.VERIF, "vf"), "check", pid, "--tier", a.tier]
        if a.seed is not None:
            cmd += ["--seed", str(a.seed)]
        p = subprocess.run(cmd, capture_output=True, text=True)
        res[pid] = (p.returncode, time.time() - t0, p.stdout + p.stderr)
        print("%-4s rc=%d %.1fs %s" % (pid, p.returncode, time.time() - t0,
                                       " | ".join(l for l in p.stdout.splitlines() if l.startswith(("VIOLATION", "KNOWN", "MACHINERY")))[:300]),
              flush=True)

    with ThreadPoolExecutor(max_workers=a.j) as ex:
        list(ex.map(one, ids))
    bad = [p for p in ids if res[p][0] != 0]
    if a.verbose:
        for p in bad:
            print("=====", p)
            print(res[p][2][-3000:])
    print("ran %d checks, %d non-zero: %s" % (len(ids), len(bad), bad))
    sys.exit(1 if bad else 0)


def cmd_manifest(a):
    base = json.load(open(os.path.join(core.VERIF, "manifest_base.json")))
    checks = []
    claimed = set()
    cdir = os.path.join(core.VERIF, "checks")
    ready = None
    rp = os.path.join(cdir, "ready.txt")
    if os.path.exists(rp):
        ready = set(open(rp).read().split())
    for pid in sorted(os.listdir(cdir)):
        if ready is not None and pid not in ready:
            continue
        mp = os.path.join(cdir, pid, "meta.json")
        if not os.path.exists(mp) or not os.path.exists(os.path.join(cdir, pid, "check.py")):
            continue
        m = json.load(open(mp))
        if m.get("disabled"):
            continue
        claimed.add(pid)
        checks.append({
            "property_id": pid,
            "quick_cmd": "./vf check %s --tier quick" % pid,
            "thorough_cmd": "./vf check %s --tier thorough" % pid,
            "evidence_file": "/verif/evidence/%s.json" % pid,
            "replay_cmd_template": "./vf replay {path}",
            "engine": "vf",
            "level_claimed": {"category": "model_checking", "text": m["level_text"], "design_ref": m.get("design_ref", "DESIGN.md section 9, " + pid)},
            "level_note": m["level_note"],
            "technique": m["technique"],
        })
    base["checks"] = checks
    props = [json.loads(l)["id"] for l in open(os.path.join(core.VERIF, "properties.jsonl"))]
    na_file = os.path.join(core.VERIF, "not_applicable.json")
    reasons = json.load(open(na_file)) if os.path.exists(na_file) else {}
    na = []
    for p in props:
        if p not in claimed:
            na.append({"property_id": p, "reason": reasons.get(p, "check not yet built in this round (planned in DESIGN.md section 9); not claimed")})
    base["not_applicable"] = na
    base["engines"] = [{"name": "vf", "path": "/verif/vf", "serves_properties": sorted(claimed),
                        "kind_free_text": "TLA+ specification under /verif/spec checked by TLC (MC / simulate / GEN) and bound to /repo by replay and trace validation drivers under /verif/harness and /verif/checks"}]
    with open(os.path.join(core.VERIF, "MANIFEST.json"), "w") as f:
        json.dump(base, f, indent=1)
    # merge known_findings.d/*.json into the single committed known-findings file
    import glob
    merged, seen = [], set()
    for kf in sorted(glob.glob(os.path.join(core.VERIF, "known_findings.d", "*.json"))):
        for k in json.load(open(kf)).get("findings", []):
            if (k["property"], k["key"]) not in seen:
                seen.add((k["property"], k["key"]))
                merged.append(k)
    with open(os.path.join(core.VERIF, "known_findings.json"), "w") as f:
        json.dump({"_comment": "generated by ./vf manifest from known_findings.d/*.json; status known = recorded genuine defect (check prints KNOWN-FINDING), fixed = repaired by the named fix: commit in /repo (suppresses nothing)",
                   "findings": merged}, f, indent=1)
    r = subprocess.run(["python3-vt", "-c", "import json,jsonschema,sys; jsonschema.validate(json.load(open(sys.argv[1])), json.load(open('/root/.vp/MANIFEST.schema.json'))); print('MANIFEST valid,', len(json.load(open(sys.argv[1]))['checks']), 'checks')",
                        os.path.join(core.VERIF, "MANIFEST.json")], capture_output=True, text=True)
    print(r.stdout + r.stderr)


def cmd_setup(a):
    # everything runs from source; verify the tool chain is usable offline
    ok = True
    for cmd in (["java", "-version"], [core.PY, "-c", "import twisted, foolscap, zfec"],):
        if subprocess.run(cmd, capture_output=True).returncode != 0:
            print("setup: FAILED", cmd)
            ok = False
    for d in ("evidence", "replays"):
        os.makedirs(os.path.join(core.VERIF, d), exist_ok=True)
    e = dict(os.environ)
    e["PYTHONPATH"] = os.pathsep.join([os.path.join(core.REPO, "src"), os.path.join(core.VERIF, "shims")])
    if subprocess.run([core.PY, "-c", "import allmydata.storage.server, allmydata.immutable.upload, allmydata.mutable.filenode"],
                      env=e, capture_output=True).returncode != 0:
        print("setup: FAILED importing allmydata from", core.REPO)
        ok = False
    print("setup ok" if ok else "setup failed")
    sys.exit(0 if ok else 1)


def cmd_replay(a):
    obj = json.load(open(a.path))
    print(json.dumps(obj, indent=1)[:20000])


def main():
    ap = argparse.ArgumentParser()
    sub = ap.add_subparsers(dest="cmd", required=True)
    c = sub.add_parser("check"); c.add_argument("id"); c.add_argument("--tier"); c.add_argument("--seed", type=int); c.set_defaults(f=cmd_check)
    c = sub.add_parser("all"); c.add_argument("ids", nargs="*"); c.add_argument("--tier", default="quick"); c.add_argument("-j", type=int, default=4)
    c.add_argument("--seed", type=int); c.add_argument("-v", "--verbose", action="store_true"); c.set_defaults(f=cmd_all)
    c = sub.add_parser("extra"); c.add_argument("name"); c.add_argument("--tier"); c.add_argument("--seed", type=int); c.set_defaults(f=cmd_extra)
    c = sub.add_parser("manifest"); c.set_defaults(f=cmd_manifest)
    c = sub.add_parser("setup"); c.set_defaults(f=cmd_setup)
    c = sub.add_parser("replay"); c.add_argument("path"); c.set_defaults(f=cmd_replay)
    a = ap.parse_args()
    a.f(a)


if __name__ == "__main__":
    main()
