#!/bin/sh
# tools/mutants_all.sh <ID> [pattern]  -- run the quick check of <ID> against every mutants/<ID>_*.diff (MC skipped: Spec unchanged)
ID="$1"; PAT="${2:-$ID}"
for f in "$(dirname "$0")"/../mutants/${PAT}_*.diff; do
  case "$f" in *proposed_fix*) continue;; esac
  printf "%-45s " "$(basename "$f")"
  VERIF_SKIP_MC=${SKIP_MC-1} LINES_MAX=3 "$(dirname "$0")/mutant.sh" "$f" "$ID" 2>&1 | grep -E "VIOLATION|MACHINERY|held|detail" | head -2 | tr '\n' ' ' | cut -c1-260
  echo
done
