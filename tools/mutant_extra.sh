#!/bin/sh
# tools/mutant_extra.sh <patch.diff> <extra-name> [seed]  -- run an extra (./vf extra <name>) against a scratch worktree
# of /repo with the patch applied.  Evidence and replays go to a scratch directory; /repo and /verif/evidence_extra are untouched.
set -e
P="$(readlink -f "$1")"; NAME="$2"; SEED="${3:-0}"
WT=$(mktemp -d /tmp/wt_mutx_XXXX)
rmdir "$WT"
git -C /repo worktree add -q --detach "$WT" HEAD >/dev/null 2>&1
SC=$(mktemp -d /tmp/mutx_ev_XXXX)
trap 'git -C /repo worktree remove --force "$WT" >/dev/null 2>&1; rm -rf "$SC"' EXIT
git -C "$WT" apply "$P"
VERIF_REPO="$WT" VERIF_SKIP_MC="${VERIF_SKIP_MC-1}" VERIF_EVIDENCE="$SC" VERIF_REPLAYS="$SC" "$(dirname "$0")/../vf" extra "$NAME" --tier "${TIER:-quick}" --seed "$SEED" 2>&1 \
  | grep -E "VIOLATION|KNOWN|MACHINERY|detail|held|VIOLATED" | cut -c1-${COLS_MAX:-260} | head -${LINES_MAX:-10}
