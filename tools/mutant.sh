#!/bin/sh
# tools/mutant.sh <patch.diff> <ID> [<ID>...]  -- run checks against a scratch worktree of /repo with the patch applied.
# Evidence and replays of these runs go to a scratch directory; nothing in /repo or /verif/evidence is touched.
set -e
P="$(readlink -f "$1")"; shift
WT=$(mktemp -d /tmp/wt_mut_XXXX)
rmdir "$WT"
git -C /repo worktree add -q --detach "$WT" HEAD >/dev/null 2>&1
trap 'git -C /repo worktree remove --force "$WT" >/dev/null 2>&1; rm -rf "$SC"' EXIT
git -C "$WT" apply "$P"
SC=$(mktemp -d /tmp/mut_ev_XXXX)
for id in "$@"; do
  VERIF_REPO="$WT" VERIF_EVIDENCE="$SC" VERIF_REPLAYS="$SC" "$(dirname "$0")/../vf" check "$id" --tier "${TIER:-quick}" 2>&1 | grep -E "VIOLATION|KNOWN|MACHINERY|detail|held|VIOLATED" | head -${LINES_MAX:-8}
done
