#!/usr/bin/env python3
"""Regenerate the generated parts of DESIGN.md (between the markers
<!-- GEN:findings --> ... <!-- /GEN:findings --> and <!-- GEN:matrix --> ... <!-- /GEN:matrix -->)
from known_findings.json, seeded/*/meta.json, seeded/benign/*/meta.json and mutants/."""
import glob, json, os, re, subprocess

V = os.path.dirname(os.path.dirname(os.path.abspath(__file__)))


def findings():
    kf = json.load(open(os.path.join(V, "known_findings.json")))["findings"]
    out = ["| property | status | key | what |", "|---|---|---|---|"]
    # group keys that share property+status+commit+cause prefix
    seen = {}
    for f in kf:
        what = re.sub(r"\s+", " ", f["what"])[:230].replace("|", "/")
        st = f["status"] + ((" " + f.get("commit", "")) if f["status"] == "fixed" else "")
        sig = (f["property"], st, what[:60])
        if sig in seen:
            seen[sig][2] += 1
            continue
        seen[sig] = [f, what, 1, st]
    for sig, (f, what, n, st) in seen.items():
        key = f["key"] + (" (+%d similar keys)" % (n - 1) if n > 1 else "")
        out.append("| %s | %s | `%s` | %s |" % (f["property"], st, key, what))
    log = subprocess.run(["git", "-C", "/repo", "log", "--format=%h %s", "--grep=^fix:"], capture_output=True, text=True).stdout.strip()
    out.append("")
    out.append("`fix:` commits in /repo (each a minimal repair of a genuine defect first reported by the property's own check on the unchanged tree; the 151 baseline tests pass with all of them, guard off):")
    out.append("")
    out.append("```")
    out.append(log)
    out.append("```")
    return "\n".join(out)


def matrix():
    notes = {}
    np_ = os.path.join(V, "seeded", "lead_notes.json")
    if os.path.exists(np_):
        notes = json.load(open(np_))
    out = ["Independently seeded changes (sub-agents that saw only the property text and a scratch worktree; "
           "demo passes on the original tree, fails with the patch, baseline 151 tests still pass - confirmed by the lead):", "",
           "| seeded change | breaks | what it needs to manifest | quick check verdict |", "|---|---|---|---|"]
    for mp in sorted(glob.glob(os.path.join(V, "seeded", "*", "meta.json"))):
        name = os.path.basename(os.path.dirname(mp))
        m = json.load(open(mp))
        c = m.get("confirmed_by_lead", {})
        vr = c.get("violations_reported", {})
        verdict = ", ".join("%s: %s" % (k, "reported" if int(v) > 0 else "MISSED") for k, v in vr.items())
        note = notes.get(name, "")
        out.append("| seeded/%s: %s | %s | %s | %s%s |" % (name, re.sub(r"\s+", " ", (m.get("summary") or ""))[:160].replace("|", "/"), m.get("property"),
                                                        re.sub(r"\s+", " ", (m.get("needs") or ""))[:170].replace("|", "/"), verdict, (" - " + note) if note else ""))
    out += ["", "Benign changes (sub-agents asked for a legitimate refactoring / policy change after which the property still holds; "
            "the check must stay quiet):", "", "| benign change | property | what changed | quick check verdict |", "|---|---|---|---|"]
    for mp in sorted(glob.glob(os.path.join(V, "seeded", "benign", "*", "meta.json"))):
        name = os.path.basename(os.path.dirname(mp))
        m = json.load(open(mp))
        c = m.get("confirmed_by_lead", {})
        vr = c.get("violations_reported", {})
        verdict = ", ".join("%s: %s" % (k, "quiet" if int(v) == 0 else "FALSE ALARM") for k, v in vr.items())
        note = notes.get(name, "")
        out.append("| seeded/benign/%s | %s | %s | %s%s |" % (name, m.get("property"), re.sub(r"\s+", " ", (m.get("summary") or ""))[:200].replace("|", "/"), verdict,
                                                           (" - " + note) if note else ""))
    out += ["", "Builders' and lead's own mutants (`mutants/<ID>_*.diff`, each reported by the quick check of <ID>; "
            "`mutants/benign/` holds changes on which the checks must stay quiet; `mutants/proposed/` holds proposed and applied repairs):", ""]
    by = {}
    for f in sorted(glob.glob(os.path.join(V, "mutants", "C*.diff"))):
        b = os.path.basename(f)[:-5]
        by.setdefault(b[:3], []).append(b[4:])
    for k in sorted(by):
        out.append("* %s: %s" % (k, ", ".join(by[k])))
    out.append("* benign: " + ", ".join(sorted(os.path.basename(f)[:-5] for f in glob.glob(os.path.join(V, "mutants", "benign", "*.diff")))))
    return "\n".join(out)


def main():
    p = os.path.join(V, "DESIGN.md")
    s = open(p).read()
    for tag, fn in (("findings", findings), ("matrix", matrix)):
        a, b = "<!-- GEN:%s -->" % tag, "<!-- /GEN:%s -->" % tag
        if a in s and b in s:
            s = s[:s.index(a) + len(a)] + "\n" + fn() + "\n" + s[s.index(b):]
    open(p, "w").write(s)


if __name__ == "__main__":
    main()
