#!/bin/sh
# tools/benign_verify.sh <seed-name> <dir-with patch.diff demo.py meta.json> <ID> [<ID>...]
# Confirms an independently produced breaking change (demo passes on original, fails with patch, baseline
# tests still pass), stores it under /verif/seeded/<seed-name>/ and runs the given checks against it.
set -u
NAME="$1"; SRC="$2"; shift 2
V="$(cd "$(dirname "$0")/.." && pwd)"
D="$V/seeded/benign/$NAME"; mkdir -p "$D"
cp "$SRC/patch.diff" "$SRC/demo.py" "$D/" 2>/dev/null; [ -f "$SRC/meta.json" ] && cp "$SRC/meta.json" "$D/meta_agent.json"
WT=$(mktemp -d /tmp/wt_seed_XXXX); rmdir "$WT"
git -C /repo worktree add -q --detach "$WT" HEAD >/dev/null 2>&1
SC=$(mktemp -d /tmp/seed_ev_XXXX)
trap 'git -C /repo worktree remove --force "$WT" >/dev/null 2>&1; rm -rf "$SC"' EXIT
run_demo() { ( cd "$SC" && PYTHONDONTWRITEBYTECODE=1 PYTHONPATH="$WT/src:$V/seeded/_kit/shims" timeout 600 /venv/bin/python "$D/demo.py" >"$SC/demo.$1.log" 2>&1; echo $? ); }
ORIG=$(run_demo orig)
if ! git -C "$WT" apply "$D/patch.diff"; then echo "PATCH DOES NOT APPLY"; exit 2; fi
MUT=$(run_demo mut)
echo "demo: original exit=$ORIG, with patch exit=$MUT"
if [ "${SKIP_BASELINE:-0}" = "0" ]; then
  ( cd "$WT" && /venv/bin/python -m pytest -q -p no:cacheprovider --timeout=900 --continue-on-collection-errors -x --co -q >/dev/null 2>&1; /venv/bin/python -m pytest -q -p no:cacheprovider --timeout=900 --continue-on-collection-errors 2>&1 | tail -1 ) > "$SC/baseline.log"
  BASE=$(cat "$SC/baseline.log"); echo "baseline with patch: $BASE"
else BASE="skipped"; fi
RES=""
for id in "$@"; do
  OUT=$(VERIF_SKIP_MC=${SKIP_MC:-} VERIF_REPO="$WT" VERIF_EVIDENCE="$SC" VERIF_REPLAYS="$SC" "$V/vf" check "$id" --tier "${TIER:-quick}" 2>&1 | grep -E "VIOLATION|MACHINERY|detail|held|VIOLATED" | head -4)
  echo "[$id] $OUT"
  RES="$RES $id:$(echo "$OUT" | grep -c '^VIOLATION')"
done
python3 - "$D" "$ORIG" "$MUT" "$BASE" "$RES" "$*" <<'PY'
import json, sys, os
d, orig, mut, base, res, ids = sys.argv[1:7]
m = {}
p = os.path.join(d, "meta_agent.json")
if os.path.exists(p):
    try: m = json.load(open(p))
    except Exception: m = {}
meta = {"property": m.get("property"), "summary": m.get("summary"), "needs": m.get("needs"), "files": m.get("files"),
        "confirmed_by_lead": {"demo_exit_original": int(orig), "demo_exit_with_patch": int(mut), "baseline_with_patch": base,
                              "checks_run": ids.split(), "violations_reported": dict(x.split(":") for x in res.split())},
        "agent_ran": m.get("ran")}
json.dump(meta, open(os.path.join(d, "meta.json"), "w"), indent=1)
PY
rm -f "$D/meta_agent.json"
