"""Minimal stand-in for the `collections_extended` package (not installable in
this sandbox).  tahoe-lafs uses only RangeMap (storage/immutable.py,
storage/http_client.py).  Semantics follow collections_extended 2.x:
half-open ranges [start, stop), adjacent equal values merged.  Trusted base of
the harness; its range semantics are themselves covered by the C22/C31 checks
(BucketWriter.write / required_ranges are compared with the Spec's sets)."""
from collections import namedtuple

MappedRange = namedtuple("MappedRange", ["start", "stop", "value"])


class RangeMap:
    def __init__(self):
        self._r = []  # sorted, disjoint list of [start, stop, value]

    def _norm(self):
        self._r.sort(key=lambda t: t[0])
        out = []
        for s, e, v in self._r:
            if s >= e:
                continue
            if out and out[-1][1] == s and out[-1][2] == v:
                out[-1][1] = e
            else:
                out.append([s, e, v])
        self._r = out

    def delete(self, start=None, stop=None):
        if start is None:
            start = float("-inf")
        if stop is None:
            stop = float("inf")
        new = []
        for s, e, v in self._r:
            if e <= start or s >= stop:
                new.append([s, e, v])
                continue
            if s < start:
                new.append([s, start, v])
            if e > stop:
                new.append([stop, e, v])
        self._r = new
        self._norm()

    def set(self, value, start=None, stop=None):
        if start is None:
            start = float("-inf")
        if stop is None:
            stop = float("inf")
        if start >= stop:
            return
        self.delete(start, stop)
        self._r.append([start, stop, value])
        self._norm()

    def ranges(self, start=None, stop=None):
        lo = float("-inf") if start is None else start
        hi = float("inf") if stop is None else stop
        res = []
        for s, e, v in self._r:
            if e <= lo or s >= hi:
                continue
            res.append(MappedRange(max(s, lo), min(e, hi), v))
        return res

    def __iter__(self):
        return iter(self.ranges())

    def __len__(self):
        return len(self._r)

    def __bool__(self):
        return bool(self._r)

    def empty(self):
        self._r = []

    def get(self, key, default=None):
        for s, e, v in self._r:
            if s <= key < e:
                return v
        return default

    def __contains__(self, key):
        return any(s <= key < e for s, e, v in self._r)

    def __getitem__(self, key):
        for s, e, v in self._r:
            if s <= key < e:
                return v
        raise KeyError(key)

    def __eq__(self, other):
        return isinstance(other, RangeMap) and self._r == other._r

    def __repr__(self):
        return "RangeMap(%r)" % (self._r,)
