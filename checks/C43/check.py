import os, sys
sys.path.insert(0, os.path.join(os.path.dirname(__file__), "..", "_shared"))
import caps_family


def run(ctx):
    caps_family.run_c43(ctx)
