"""C13: one client serialises whole-node operations on a mutable file / directory.

MC   spec/mutable/MCSerializer: the Deferred-chain mechanism of _do_serialized (code-shaped) with failing
     operations, checked against Mutex / FIFO / NoIdleWait / NoBlock (liveness, WF) / OwnResult / NoLostEdit and as
     a refinement of the abstract serializer (Serializer.tla); the two classic wrong mechanisms are run as well
     and must violate the properties (non-vacuity).
TRACE spec/mutable/TraceSerializer: seeded executions of the real MutableFileNode / DirectoryNode API on a SimGrid
     (random delivery order, injected failures), recorded at _do_serialized, validated event by event.
"""
import json
from vfw.core import MachineryError

MC_CFG = """SPECIFICATION Spec
CONSTANTS
  N = %(N)d
  Kind = "%(Kind)s"
  Mech = "%(Mech)s"
  Faults = TRUE
INVARIANT C13_Mutex
INVARIANT C13_FIFO
INVARIANT C13_NoIdleWait
INVARIANT C13_OwnResult
INVARIANT C13_NoLostEdit
INVARIANT C13_Refines
INVARIANT C13_QuiescentDone
%(live)s
CHECK_DEADLOCK FALSE
"""


def run(ctx):
    ctx.rule = ("MC: every interleaving of N requests (each any operation of the catalogue: read, overwrite, modify "
                "append/no-op/raising, directory set/set-no-overwrite/set-two/delete), finishes (ok, own error, grid "
                "failure with or without effect) and result deliveries. TRACE: per scenario a fresh 5-server grid "
                "(k=2,N=4), one mutable file or directory (SDMF or MDMF), 2..maxops API calls issued through "
                "nodemaker.create_from_cap(cap) at seeded points of the run (most while earlier ones are in progress), "
                "uniformly random delivery order, per-operation fault plan (none / every read fails / every write fails / "
                "one call raises or disconnects); a trace is non-trivial if at least two operations were pending at once "
                "(a Request recorded while another operation was running)")
    ctx.assumptions += ["TLC and the CommunityModules", "the RangeMap shim in /verif/shims",
                        "the recording wrapper around MutableFileNode._do_serialized (harness/serializer_driver.py) logs Start when "
                        "the chain invokes the operation and Finish when its Deferred fires",
                        "no message is lost forever (an operation whose server never answers legitimately blocks the queue)",
                        "an upload() with a servermap older than a later publish, or built while server answers failed, is outside this property (any outcome accepted)"]
    n = 3 if ctx.quick else 4
    for kind in ("file", "dir"):
        consts = dict(N=n, Kind=kind, Mech="chain", live="PROPERTY C13_NoBlock" if kind == "file" else "")
        ctx.constants["MC_" + kind] = {k: v for k, v in consts.items() if k != "live"}
        try:
            ctx.mc("mutable/MCSerializer", MC_CFG % consts, name="MC serializer %s" % kind, timeout=3000)
        except MachineryError as e:
            if "Temporal property" not in str(e):
                raise
            # lib/vfw/core.py files this TLC message under errors; it is a verdict of the Spec
            ctx.report("spec:MCSerializer:C13_NoBlock", "TLC: liveness property C13_NoBlock violated in mutable/MCSerializer (%s)" % kind,
                       replay={"kind": "tlc-counterexample", "tlc_output": str(e)[-20000:]})
    # non-vacuity: the wrong mechanisms must be caught by the same properties
    negatives = (("immediate", "C13_Mutex"),) if ctx.quick else (("immediate", "C13_Mutex"), ("noresume", "C13_NoIdleWait"))
    for mech, expect in negatives:
        r = ctx.mc("mutable/MCSerializer", MC_CFG % dict(N=2, Kind="dir", Mech=mech,
                                                         live=""),
                   name="MC negative %s" % mech, expect_ok=False, timeout=3000)
        ctx.runs[-1]["violated"] = sorted(set(r.violated))
        ctx.notes.append("mechanism %s violates %s" % (mech, sorted(set(r.violated))))
        if expect not in r.violated:
            ctx.report("spec:vacuous:%s" % mech, "the wrong mechanism '%s' does not violate %s: the property is too weak" % (mech, expect))

    ntr = 110 if ctx.quick else 2500
    maxops = 4 if ctx.quick else 6
    traces = ctx.impl("harness/serializer_driver.py", ["--n", ntr, "--maxops", maxops])
    for tr in traces:
        running = 0
        concurrent = False
        for e in tr["events"]:
            if e["ev"] == "Start":
                running += 1
            elif e["ev"] == "Finish":
                running -= 1
            elif e["ev"] == "Request" and running > 0:
                concurrent = True
        ctx.count(json.dumps(tr["events"], sort_keys=True) if concurrent else None)
    for tr in traces[:3]:
        ctx.sample({"consts": {k: tr["consts"][k] for k in ("kind", "format", "init", "calls")}, "events": tr["events"][:14]}, limit=3)
    errs = {}
    for tr in traces:
        for e in tr["events"]:
            if e["ev"] == "Finish":
                k = "%s:%s%s" % (e["st"], e.get("error", ""), ":faulty" if e["faulty"] else "")
                errs[k] = errs.get(k, 0) + 1
    ctx.notes.append("operation outcomes in the recorded traces: %s" % json.dumps(errs, sort_keys=True))

    def key_of(tr, l, clause):
        return "trace:%s:%s" % (clause, tr["events"][l - 1]["ev"])

    ctx.trace("mutable/TraceSerializer", traces, key_of=key_of, batch=500,
              what_of=lambda tr, l, c: "real %s node (%s) disagrees with Serializer.tla at event %d %s: clause %s" % (
                  tr["consts"]["kind"], tr["consts"]["format"], l, json.dumps(tr["events"][l - 1]), c))
