"""C42 - the backup database reuses caps only for unchanged content.

Design level: TLC model-checks spec/frontends/MCBackupDB (tables of BackupDB_v2 as sets of rows, one
operator per method) against the property stated over ghost records of the most recent uploads.
Implementation level: seeded histories on a real BackupDB_v2 (sqlite file, real local files, interposed
ctime / clock / random) are validated event by event by TLC against TraceBackupDB: every answer
(was_uploaded, should_check, was_created) and all four tables after every call.
"""
import json


def mc_cfg(maxops, names):
    return ("SPECIFICATION Spec\nCONSTANTS\n  Paths = {\"p0\", \"p1\"}\n  Caps = {\"cA\", \"cB\"}\n  DirCaps = {\"dA\", \"dB\"}\n"
            "  Names = %s\n  StatVals = {0, 1}\n  MaxOps = %d\n  Rnd = 500\n"
            "INVARIANT C42_FileReuseOnlyUnchanged\nINVARIANT C42_DirReuseOnlySameContents\nINVARIANT Inv_DBOK\n"
            "PROPERTY C42_StaleRowDeleted\nCHECK_DEADLOCK FALSE\n" % (names, maxops))


def key_of(tr, l, clause):
    return "trace:%s:%s" % (clause, tr["events"][l - 1]["ev"])


def what_of(tr, l, clause):
    e = tr["events"][l - 1]
    return "real BackupDB_v2 vs BackupDB.tla at event %d %s: clause %s" % (
        l, json.dumps({k: v for k, v in e.items() if k != "obs"}, ensure_ascii=False)[:260], clause)


def run(ctx):
    q = ctx.quick
    ctx.rule = ("MC: every history (<= MaxOps calls) of check_file(path, stat, use_timestamps) / did_upload / did_check_healthy / "
                "check_directory(contents) / did_create / did_check_healthy / clock advance / lost caps or last_upload rows over 2 paths, "
                "2 file caps, stat fields in {0,1}; TRACE: seeded histories of %s calls on a real BackupDB_v2 over sqlite with real files "
                "(size, mtime set on disk; ctime, clock, random interposed): local changes of any subset of size/mtime/ctime/content, renames, "
                "the tool's check -> upload / check-healthy protocol, results used late, directory snapshots over 3 names (one non-ASCII) x 3 caps, "
                "clock jumps around the 30/60-day thresholds, deleted caps / last_upload rows, close + reopen. A history is non-trivial "
                "if some check_file or check_directory is answered with a cap (a reuse decision)." % ("30" if q else "60"))
    ctx.assumptions += [
        "TLC and the CommunityModules",
        "a directory's key is its exact contents (collisions of backupdb_dirhash are outside the model)",
        "os.stat is interposed only to replace st_ctime; time.time and random.random of the module are scripted",
        "caps are passed as bytes, as tahoe_backup.py does",
        "the observation reads the sqlite file through a second connection after every call",
    ]
    consts = dict(Paths=2, Caps=2, DirCaps=2, Names='{"n0"}', StatVals="{0,1}", MaxOps=4 if q else 5)
    ctx.constants["MC"] = consts
    ctx.mc("frontends/MCBackupDB", mc_cfg(consts["MaxOps"], consts["Names"]), name="MC BackupDB", timeout=3000)
    n = 120 if q else 1500
    ev = 30 if q else 60
    traces = ctx.impl("harness/backupdb_driver.py", ["--n", n, "--events", ev])
    for tr in traces:
        reuse = [e["ev"] for e in tr["events"] if e["ev"] in ("CheckFile", "CheckDir") and e["res"]["cap"]]
        ctx.count(json.dumps([[e["ev"], e.get("path"), e.get("st"), e.get("cap"), e.get("contents")] for e in tr["events"]],
                             sort_keys=True) if reuse else None)
    ctx.sample({"events": [{k: v for k, v in e.items() if k != "obs"} for e in traces[0]["events"][:8]],
                "tables_after_event_8": traces[0]["events"][7]["obs"]}, limit=2)
    allev = [e for tr in traces for e in tr["events"]]
    ctx.notes.append("events: %d; check_file answered with a cap: %d, without: %d; check_directory with a cap: %d, without: %d; "
                     "should_check true: %d; stale rows deleted: %d" % (
                         len(allev),
                         sum(1 for e in allev if e["ev"] == "CheckFile" and e["res"]["cap"]),
                         sum(1 for e in allev if e["ev"] == "CheckFile" and not e["res"]["cap"]),
                         sum(1 for e in allev if e["ev"] == "CheckDir" and e["res"]["cap"]),
                         sum(1 for e in allev if e["ev"] == "CheckDir" and not e["res"]["cap"]),
                         sum(1 for e in allev if e["ev"] in ("CheckFile", "CheckDir") and e["res"]["should"]),
                         sum(1 for tr in traces for i, e in enumerate(tr["events"]) if e["ev"] == "CheckFile" and i > 0 and
                             len(e["obs"]["files"]) < len(tr["events"][i - 1]["obs"]["files"]))))
    ctx.trace("frontends/TraceBackupDB", traces, key_of=key_of, what_of=what_of, batch=500)
    ctx.exhaustive = False
