import os, sys
sys.path.insert(0, os.path.join(os.path.dirname(__file__), "..", "_shared"))
import storage_family


def run(ctx):
    storage_family.run(ctx, "C25", ["imm", "mut"], ["Inv_StateOK"], ["C25_NoBackdate", "C25_UnknownRenew"],
                       ["lease"], ["AddLease", "RenewLease"])
