"""C08: servers_of_happiness(sharemap) = size of a maximum matching, whatever the construction order.

GEN: TLC enumerates every relation between <= 4 servers and <= 4 shares (quick: modulo renaming of
servers, thorough: all 65 536) with the Spec's value, and checks its three definitions of the maximum
matching against each other.  The driver replays each relation into the real function under several
dict/set constructions; TRACE: seeded relations up to 30 x 30 are judged by TLC (augmenting paths)."""
import json, sys, os
sys.path.insert(0, os.path.join(os.path.dirname(__file__), '..', '..', 'lib'))
from vfw import core


def run(ctx):
    q = ctx.quick
    consts = dict(MaxSrv=4, MaxSh=4, Canon="TRUE" if q else "FALSE", DefLimit=9 if q else 10)
    ctx.constants["GenHappiness"] = consts
    cfg = "SPECIFICATION Spec\nCONSTANTS\n" + "".join("  %s = %s\n" % kv for kv in consts.items()) + \
          "INVARIANT C08_AugAgrees\nINVARIANT C08_DefAgrees\nINVARIANT C08_Bounds\nCHECK_DEADLOCK FALSE\n"
    cases, r = ctx.gen("immutable/GenHappiness", cfg, timeout=1500, coverage=False)
    ctx.exhaustive = True
    nvar = 5 if q else 6
    out = ctx.impl("harness/happiness_driver.py", ["--mode", "c08cases"], input_obj={"cases": [{"rows": c["rows"]} for c in cases], "nvar": nvar})
    res = out["results"]
    if len(res) != len(cases):
        raise RuntimeError("driver returned %d results for %d cases" % (len(res), len(cases)))
    ctx.rule = ("GEN: every relation between 4 servers and 4 shares (rows may be empty; %s), each replayed into "
                "servers_of_happiness under %d constructions of the sharemap (insertion orders, server id types, DictOfSets, "
                "renamed sparse share numbers, keys with empty server sets); TRACE: seeded random relations up to 30 x 30 "
                "(sparse, dense, chains, hubs, permutation+noise) under 4 constructions, judged by TLC. A case is non-trivial "
                "if some server holds >= 2 shares and some share is on >= 2 servers (a greedy choice can be wrong)."
                % ("modulo renaming of servers" if q else "all 65 536", nvar))
    for c, rr in zip(cases, res):
        rows = c["rows"]
        multi = any(len(x) >= 2 for x in rows) and any(sum(1 for x in rows if t in x) >= 2 for t in range(4))
        ctx.count(json.dumps(rows) if multi else None, n=len(rr["got"]))
        wrong = [(v, g) for v, g in zip(rr["variants"], rr["got"]) if g != c["mm"]]
        if wrong:
            vals = {str(g) for g in rr["got"]}
            kind = "no_value" if any(isinstance(g, str) for _, g in wrong) else ("order_dependent" if len(vals) > 1 else "value")
            ctx.report("case:C08_%s" % kind,
                       "servers_of_happiness returned %r for rows %r under %s; maximum matching (Spec) = %d" % (wrong[0][1], rows, wrong[0][0], c["mm"]),
                       replay={"kind": "gen-case", "rows": rows, "expected": c["mm"], "got": rr})
    ctx.sample({"rows": cases[len(cases) // 2]["rows"], "spec_mm": cases[len(cases) // 2]["mm"], "impl": res[len(cases) // 2]})
    # seeded large relations, judged in TRACE mode
    n = 150 if q else 2500
    out = ctx.impl("harness/happiness_driver.py", ["--mode", "c08random", "--n", n, "--nvar", 4, "--maxs", 30, "--maxt", 30])
    traces = out["traces"]
    for t in traces:
        ctx.count(json.dumps(t["consts"]["adj"], sort_keys=True) if t["consts"]["ns"] > 4 else None, n=len(t["events"]))
    ctx.sample({"random_relation": traces[0]["consts"], "events": traces[0]["events"]})
    ctx.trace("immutable/TraceHappiness", traces, invariants=("TraceOK", "AlgorithmsAgree"), batch=500,
              key_of=lambda tr, l, c: "trace:%s" % c,
              what_of=lambda tr, l, c: "servers_of_happiness returned %s (%s) under %s for relation %s; TLC clause %s" % (
                  tr["events"][l - 1]["got"], tr["events"][l - 1]["err"], tr["events"][l - 1]["variant"], json.dumps(tr["consts"]["adj"]), c))
    # the call sites named by the statement ("used ... in check results"): the happiness reported in real check
    # results (immutable check / verify / check-and-repair, mutable check) must be the maximum matching of the
    # share map reported in the same result; layouts with duplicated share numbers and several shares per server
    rtraces = ctx.impl("harness/happiness_results_driver.py", ["--n", 14 if q else 150])
    if not rtraces:
        raise core.MachineryError("no check results recorded")
    sites = {}
    for t in rtraces:
        sites[t["consts"]["site"]] = sites.get(t["consts"]["site"], 0) + 1
        ctx.count("result:" + json.dumps(t["consts"]["adj"], sort_keys=True) if len(t["consts"]["adj"]) > 2 else None)
    ctx.notes.append("check results judged, by call site: %s" % json.dumps(sites, sort_keys=True))
    ctx.sample({"check_result": rtraces[0]["consts"], "events": rtraces[0]["events"]})
    ctx.trace("immutable/TraceHappiness", rtraces, invariants=("TraceOK", "AlgorithmsAgree"), batch=500,
              name="TRACE TraceHappiness (happiness in real check results)",
              key_of=lambda tr, l, c: "trace:%s:%s" % (c, tr["consts"]["site"].split("_verify")[0]),
              what_of=lambda tr, l, c: "the %s result reports happiness %s for the share map %s; TLC clause %s" % (
                  tr["consts"]["site"], tr["events"][l - 1]["got"], json.dumps(tr["consts"]["adj"]), c))
    # the call site "used for upload decisions": the Encoder re-evaluates the value at every loss of a share writer
    lconsts = dict(NSrv=3, NSh=3, Canon="TRUE", MaxSeq=3, Maximal="TRUE") if q else dict(NSrv=3, NSh=3, Canon="TRUE", MaxSeq=3, Maximal="FALSE")
    ctx.constants["GenEncoderLoss"] = lconsts
    lcfg = "SPECIFICATION Spec\nCONSTANTS\n" + "".join("  %s = %s\n" % kv for kv in lconsts.items()) + \
           "INVARIANT C08_TableIsMatching\nINVARIANT C08_LossMonotone\nINVARIANT C08_DoomMeaning\nCHECK_DEADLOCK FALSE\n"
    lcases, r = ctx.gen("immutable/GenEncoderLoss", lcfg, outname="loss_cases.ndjson", timeout=3000, coverage=False)
    lres = ctx.impl("harness/encoder_loss_driver.py", [], input_obj={"cases": lcases}, timeout=3000)["results"]
    if len(lres) != len(lcases):
        raise core.MachineryError("encoder_loss_driver returned %d results for %d cases" % (len(lres), len(lcases)))
    ndoom = 0
    for cs, rr in zip(lcases, lres):
        writers = sorted(int(sh) for sh in cs["cfg"] if cs["cfg"][sh]["w"])
        multi = any(len(cs["cfg"][sh]["pre"]) + (1 if cs["cfg"][sh]["w"] else 0) >= 2 for sh in cs["cfg"])
        ctx.count(json.dumps([cs["cfg"], cs["happy"], cs["seq"]], sort_keys=True) if (multi and cs["seq"]) else None)
        ndoom += cs["doom"] != 0
        what = None
        if rr["kind"] in ("raised", "none"):
            what = "encoder_%s_%s" % (rr["kind"], rr.get("cls", ""))
        elif cs["doom"] == 0:
            if rr["kind"] != "success":
                what = "gave_up_though_happy"
            elif rr["failed"] != len(cs["seq"]) or rr["placed"] != sorted(set(writers) - set(cs["seq"])):
                what = "shares_placed_differ"
        else:
            if rr["kind"] == "success" or rr["failed"] > cs["doom"]:
                what = "continued_though_unhappy"
            elif rr["cls"] != "UploadUnhappinessError":
                what = "failure_class_%s" % rr["cls"]
            elif rr["failed"] < cs["doom"]:
                what = "gave_up_though_happy"
        if what:
            ctx.report("case:C08_upload_decision:%s" % what,
                       "Encoder with share map %s, happy %d, writers lost in the order %s (phases %s): the Spec's happiness after each loss is %s "
                       "(doomed at loss %d, 0 = never); the real upload ended as %s after %d failed writer calls, placed %s"
                       % (json.dumps(cs["cfg"], sort_keys=True), cs["happy"], cs["seq"], rr["phases"], cs["hs"], cs["doom"],
                          rr["kind"] + (":" + rr.get("cls", "") if rr.get("cls") else ""), rr["failed"], rr["placed"]),
                       replay={"kind": "gen-case", "driver": "harness/encoder_loss_driver.py", "case": cs, "got": rr})
    ctx.notes.append("upload decisions: %d Encoder runs (share maps over %d servers x %d shares modulo renaming of servers, every happy the map "
                     "satisfies, every order of writer losses up to the dooming one); %d of them doomed by a loss"
                     % (len(lcases), lconsts["NSrv"], lconsts["NSh"], ndoom))
    mid = len(lcases) // 2
    ctx.sample({"encoder_loss_case": lcases[mid], "real": lres[mid]})
    ctx.assumptions += ["the writers of an upload are played by recording fakes (harness/encoder_driver.py); each loss happens in a phase of its own",
                        "TLC and the CommunityModules", "the three Spec definitions of maximum matching agree beyond the sizes TLC compared them on "
                        "(Def vs Rec: <= %d edges; Rec vs Aug: every generated case and every recorded relation with <= 7 servers and <= 30 edges)" % consts["DefLimit"],
                        "PYTHONHASHSEED=0: set iteration orders are varied through server id types and salts, not through the hash seed"]
