"""C08: servers_of_happiness(sharemap) = size of a maximum matching, whatever the construction order.

GEN: TLC enumerates every relation between <= 4 servers and <= 4 shares (quick: modulo renaming of
servers, thorough: all 65 536) with the Spec's value, and checks its three definitions of the maximum
matching against each other.  The driver replays each relation into the real function under several
dict/set constructions; TRACE: seeded relations up to 30 x 30 are judged by TLC (augmenting paths)."""
import json, sys, os
sys.path.insert(0, os.path.join(os.path.dirname(__file__), '..', '..', 'lib'))
from vfw import core


def run(ctx):
    q = ctx.quick
    consts = dict(MaxSrv=4, MaxSh=4, Canon="TRUE" if q else "FALSE", DefLimit=9 if q else 10)
    ctx.constants["GenHappiness"] = consts
    cfg = "SPECIFICATION Spec\nCONSTANTS\n" + "".join("  %s = %s\n" % kv for kv in consts.items()) + \
          "INVARIANT C08_AugAgrees\nINVARIANT C08_DefAgrees\nINVARIANT C08_Bounds\nCHECK_DEADLOCK FALSE\n"
    cases, r = ctx.gen("immutable/GenHappiness", cfg, timeout=1500, coverage=False)
    ctx.exhaustive = True
    nvar = 5 if q else 6
    out = ctx.impl("harness/happiness_driver.py", ["--mode", "c08cases"], input_obj={"cases": [{"rows": c["rows"]} for c in cases], "nvar": nvar})
    res = out["results"]
    if len(res) != len(cases):
        raise RuntimeError("driver returned %d results for %d cases" % (len(res), len(cases)))
    ctx.rule = ("GEN: every relation between 4 servers and 4 shares (rows may be empty; %s), each replayed into "
                "servers_of_happiness under %d constructions of the sharemap (insertion orders, server id types, DictOfSets, "
                "renamed sparse share numbers, keys with empty server sets); TRACE: seeded random relations up to 30 x 30 "
                "(sparse, dense, chains, hubs, permutation+noise) under 4 constructions, judged by TLC. A case is non-trivial "
                "if some server holds >= 2 shares and some share is on >= 2 servers (a greedy choice can be wrong)."
                % ("modulo renaming of servers" if q else "all 65 536", nvar))
    for c, rr in zip(cases, res):
        rows = c["rows"]
        multi = any(len(x) >= 2 for x in rows) and any(sum(1 for x in rows if t in x) >= 2 for t in range(4))
        ctx.count(json.dumps(rows) if multi else None, n=len(rr["got"]))
        wrong = [(v, g) for v, g in zip(rr["variants"], rr["got"]) if g != c["mm"]]
        if wrong:
            vals = {str(g) for g in rr["got"]}
            kind = "no_value" if any(isinstance(g, str) for _, g in wrong) else ("order_dependent" if len(vals) > 1 else "value")
            ctx.report("case:C08_%s" % kind,
                       "servers_of_happiness returned %r for rows %r under %s; maximum matching (Spec) = %d" % (wrong[0][1], rows, wrong[0][0], c["mm"]),
                       replay={"kind": "gen-case", "rows": rows, "expected": c["mm"], "got": rr})
    ctx.sample({"rows": cases[len(cases) // 2]["rows"], "spec_mm": cases[len(cases) // 2]["mm"], "impl": res[len(cases) // 2]})
    # seeded large relations, judged in TRACE mode
    n = 150 if q else 2500
    out = ctx.impl("harness/happiness_driver.py", ["--mode", "c08random", "--n", n, "--nvar", 4, "--maxs", 30, "--maxt", 30])
    traces = out["traces"]
    for t in traces:
        ctx.count(json.dumps(t["consts"]["adj"], sort_keys=True) if t["consts"]["ns"] > 4 else None, n=len(t["events"]))
    ctx.sample({"random_relation": traces[0]["consts"], "events": traces[0]["events"]})
    ctx.trace("immutable/TraceHappiness", traces, invariants=("TraceOK", "AlgorithmsAgree"), batch=500,
              key_of=lambda tr, l, c: "trace:%s" % c,
              what_of=lambda tr, l, c: "servers_of_happiness returned %s (%s) under %s for relation %s; TLC clause %s" % (
                  tr["events"][l - 1]["got"], tr["events"][l - 1]["err"], tr["events"][l - 1]["variant"], json.dumps(tr["consts"]["adj"]), c))
    # the call sites named by the statement ("used ... in check results"): the happiness reported in real check
    # results (immutable check / verify / check-and-repair, mutable check) must be the maximum matching of the
    # share map reported in the same result; layouts with duplicated share numbers and several shares per server
    rtraces = ctx.impl("harness/happiness_results_driver.py", ["--n", 14 if q else 150])
    if not rtraces:
        raise core.MachineryError("no check results recorded")
    sites = {}
    for t in rtraces:
        sites[t["consts"]["site"]] = sites.get(t["consts"]["site"], 0) + 1
        ctx.count("result:" + json.dumps(t["consts"]["adj"], sort_keys=True) if len(t["consts"]["adj"]) > 2 else None)
    ctx.notes.append("check results judged, by call site: %s" % json.dumps(sites, sort_keys=True))
    ctx.sample({"check_result": rtraces[0]["consts"], "events": rtraces[0]["events"]})
    ctx.trace("immutable/TraceHappiness", rtraces, invariants=("TraceOK", "AlgorithmsAgree"), batch=500,
              name="TRACE TraceHappiness (happiness in real check results)",
              key_of=lambda tr, l, c: "trace:%s:%s" % (c, tr["consts"]["site"].split("_verify")[0]),
              what_of=lambda tr, l, c: "the %s result reports happiness %s for the share map %s; TLC clause %s" % (
                  tr["consts"]["site"], tr["events"][l - 1]["got"], json.dumps(tr["consts"]["adj"]), c))
    ctx.assumptions += ["TLC and the CommunityModules", "the three Spec definitions of maximum matching agree beyond the sizes TLC compared them on "
                        "(Def vs Rec: <= %d edges; Rec vs Aug: every generated case and every recorded relation with <= 7 servers and <= 30 edges)" % consts["DefLimit"],
                        "PYTHONHASHSEED=0: set iteration orders are varied through server id types and salts, not through the hash seed"]
