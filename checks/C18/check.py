"""C18  Read-only directory access is transitive; no write-cap leaks to read-cap holders.

Spec: spec/dir/DirPack.tla (entry = name, ro field, Enc(directory writekey, rw), metadata; Unpack by an opener with or
without the writekey; create_from_cap / UnknownNode / from_string constraints), spec/dir/GenDirPack.tla (entry level:
C18_ReaderNoWrite, C18_ReaderSameObject, C18_ReaderSeesAll, C18_NoLeak, C18_WriterSees over every way of linking a
child), spec/dir/MCDirTree.tla (induction over paths of depth <= 3: once no write-cap, never a write-cap).
Conformance: every generated case replayed on the real code (the reader's and the writer's node, the packed plaintext
searched for the child's write-cap strings and base32 writekeys); trees of real directories (depth <= 3, SDMF / MDMF /
immutable, children of every kind) opened through write-cap and read-cap, every descendant's get_write_uri() /
is_readonly() / is_unknown() and every mutable directory's plaintext downloaded through the read-cap judged by
spec/dir/TraceDirTree.tla.
"""
import os, sys

sys.path.insert(0, os.path.join(os.path.dirname(__file__), "..", "_shared"))
import dir_family

INVS = ["C18_ReaderNoWrite", "C18_ReaderSameObject", "C18_ReaderSeesAll", "C18_NoLeak", "C18_WriterSees", "C19_ErrorNodesRefused"]


def run(ctx):
    cases, namecases, pairs = dir_family.run_pack(ctx, "C18", INVS)
    dir_family.run_trees(ctx, cases, namecases, pairs)
    ctx.rule += ("; TREES: seeded trees of real directories (depth 1-3, 0-2 sub-directories and 1-8 other children per directory, children drawn "
                 "from the accepted cases), non-trivial when the read-cap walk reaches depth >= 2")
    # the SFTP frontend: two sessions of one gateway on one directory, one with the write cap, one with the read cap only.
    # What the read-only session asks for is refused and changes nothing - in particular not the other session's pending writes.
    import json
    straces = ctx.impl("harness/sftp_sessions_driver.py", ["--n", 40 if ctx.quick else 400])
    nb = 0
    for tr in straces:
        b = [e for e in tr["events"] if e["ev"] == "BOp"]
        nb += len(b)
        ctx.count(json.dumps([[e["ev"], e.get("op", ""), e.get("name", ""), e.get("st", "")] for e in tr["events"]]) if b else None)
    ctx.sample({"sftp_sessions": [{k: v for k, v in e.items() if k not in ("listing",)} for e in straces[0]["events"][:10]]})
    ctx.notes.append("SFTP sessions: %d histories, %d requests of the read-only session (remove / rename / posix-rename / mkdir / rmdir / "
                     "setAttrs / open for writing), all refused; the write session's uploads and in-place updates are read back at the end" % (len(straces), nb))
    ctx.trace("frontends/TraceSftpSessions", straces, batch=400, name="TRACE frontends/TraceSftpSessions",
              key_of=lambda tr, l, c: "trace:%s:%s" % (c, tr["events"][l - 1].get("op", tr["events"][l - 1]["ev"])),
              what_of=lambda tr, l, c: "two SFTP sessions on one directory: event %d %s: clause %s" % (
                  l, json.dumps({k: v for k, v in tr["events"][l - 1].items() if k != "listing"})[:300], c))
    ctx.assumptions += ["SFTP leg: real SFTPUserHandler objects (one per session) over a real client's NodeMaker on the SimGrid; no SSH transport"]

