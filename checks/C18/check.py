"""C18  Read-only directory access is transitive; no write-cap leaks to read-cap holders.

Spec: spec/dir/DirPack.tla (entry = name, ro field, Enc(directory writekey, rw), metadata; Unpack by an opener with or
without the writekey; create_from_cap / UnknownNode / from_string constraints), spec/dir/GenDirPack.tla (entry level:
C18_ReaderNoWrite, C18_ReaderSameObject, C18_ReaderSeesAll, C18_NoLeak, C18_WriterSees over every way of linking a
child), spec/dir/MCDirTree.tla (induction over paths of depth <= 3: once no write-cap, never a write-cap).
Conformance: every generated case replayed on the real code (the reader's and the writer's node, the packed plaintext
searched for the child's write-cap strings and base32 writekeys); trees of real directories (depth <= 3, SDMF / MDMF /
immutable, children of every kind) opened through write-cap and read-cap, every descendant's get_write_uri() /
is_readonly() / is_unknown() and every mutable directory's plaintext downloaded through the read-cap judged by
spec/dir/TraceDirTree.tla.
"""
import os, sys

sys.path.insert(0, os.path.join(os.path.dirname(__file__), "..", "_shared"))
import dir_family

INVS = ["C18_ReaderNoWrite", "C18_ReaderSameObject", "C18_ReaderSeesAll", "C18_NoLeak", "C18_WriterSees", "C19_ErrorNodesRefused"]


def run(ctx):
    cases, namecases, pairs = dir_family.run_pack(ctx, "C18", INVS)
    dir_family.run_trees(ctx, cases, namecases, pairs)
    ctx.rule += ("; TREES: seeded trees of real directories (depth 1-3, 0-2 sub-directories and 1-8 other children per directory, children drawn "
                 "from the accepted cases), non-trivial when the read-cap walk reaches depth >= 2")
