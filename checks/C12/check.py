import os, sys
sys.path.insert(0, os.path.join(os.path.dirname(__file__), "..", "_shared"))
import mutconc_family as fam


def run(ctx):
    q = ctx.quick
    ctx.rule = ("MC: every interleaving of W publishers' map-update queries, read-test-write requests, answers and finish "
                "steps over the constants listed (PublishProtocol.tla; servers = read-test-write of Storage.tla). "
                "TRACE: W real MutableFileNodes (distinct objects, one write-cap) overwrite concurrently on the SimGrid; all "
                "deliveries interleaved by a seeded random policy (mode conc, some with injected faults) and by a bounded "
                "DFS over delivery choices (mode dfs); server-side events, each publisher's result and the final share "
                "versions are validated by TLC against the Spec. Non-trivial = some write failed its test vector or "
                "some writer finished with UncoordinatedWriteError.")
    ctx.assumptions += ["TLC and the CommunityModules", "the SimGrid harness delivers a request and its answer in one step (answers "
                        "that travel separately are covered by the MC with SplitAnswers)",
                        "version id = checkstring (seqnum, root hash[, IV]) read back from the share prefix",
                        "no writer stops midway (no lost messages) in the executions that are judged for C12_Survive"]
    # design level
    fam.mc(ctx, "MC W=2 " + ("C12Quick" if q else "C12Thorough"), 2, "C12Quick" if q else "C12Thorough")
    fam.mc_expect_violation(ctx, "VACUITY publisher without test vectors", "C12_TAS", 2, "C12Tiny1", variant="notest")
    fam.mc_expect_violation(ctx, "VACUITY bound (W+1)k<=N needed (k=2,N=3, failing requests)", "C12_SurviveWithoutBound", 2, "C12Tiny2F",
                            inv=["C12_SurviveWithoutBound"], props=[])
    if not q:
        fam.mc(ctx, "MC W=3 C12W3 (answers merged with execution)", 3, "C12W3")
    # implementation level
    fam.drive(ctx, "C12", [("conc", 130 if q else 2600), ("dfs", 120 if q else 2400)])
