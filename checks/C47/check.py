import os, sys
sys.path.insert(0, os.path.join(os.path.dirname(__file__), "..", "_shared"))
import mutconc_family as fam


def run(ctx):
    q = ctx.quick
    ctx.rule = ("MC: one publisher (creation and overwrite), 1..5 servers, k=2 N=3, a request may fail before it is executed or "
                "after (answer lost), map-update queries may fail, all answer orders. TRACE: single-writer creations and overwrites "
                "(SDMF and MDMF) on SimGrids of 1..12 servers with permanently failing servers, faults on any query or write and a "
                "seeded random delivery order, plus concurrent writers with faults; claim vs acknowledged writes vs share versions "
                "on disk are validated by TLC. Non-trivial = at least one injected fault.")
    ctx.assumptions += ["TLC and the CommunityModules", "faults: a call raises / the connection drops before the request is executed, or the "
                        "request is executed and the answer is replaced by a connection error; messages are never lost silently (a "
                        "publisher waiting for a silent server does not report at all, by design)",
                        "version id = checkstring (seqnum, root hash[, IV]) read back from the share prefix"]
    fam.mc(ctx, "MC W=1 " + ("C47Quick" if q else "C47Thorough"), 1, "C47Quick" if q else "C47Thorough")
    fam.mc_expect_violation(ctx, "VACUITY publisher ignores a failed test", "C47_SuccessGuard", 2, "C12Tiny1", variant="ignorefail",
                            inv=[], props=["C47_SuccessGuard"])
    if not q:
        fam.mc(ctx, "MC W=2 C47W2 (faults, answers merged with execution)", 2, "C47W2")
    fam.drive(ctx, "C47", [("single", 300 if q else 5000), ("conc", 60 if q else 1200)])
