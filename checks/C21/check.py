"""C21  Deep traversal visits every reachable object exactly once.

Spec: spec/dir/DeepTraverse.tla (TDir shaped like dirnode._deep_traverse_dirnode / _deep_traverse_dirnode_children with the
shared found-set; Stats; the C21 clauses Complete / Once / DistinctPaths / LinkIdentity / PathsResolve stated over a
reported visit list without TDir).
  MC    spec/dir/MCDeepTraverse.tla: every graph buildable from a root by <= MaxLinks links over <= MaxObjs objects
        (shared sub-directories, cycles, self links, one object through write- and read-cap, literal files, unknown caps);
        the clauses are invariants of the traversal of every graph; the graphs are dumped.
  TRACE the dumped graphs (seeded sample in quick, all in thorough up to a cap) and seeded graphs of 5-40 objects
        (also immutable and literal directories) are built from real directories; build_manifest() and
        start_deep_stats() run from the root opened through write-cap and read-cap; every reported path is resolved
        with get_child_at_path(); spec/dir/TraceDeepTraverse.tla judges the reports.
"""
import json, os, random, re, sys

sys.path.insert(0, os.path.join(os.path.dirname(__file__), "..", "_shared"))
import dir_family
from vfw import core

INVS = ["C21_Complete_", "C21_Once_", "C21_DistinctPaths_", "C21_LinkIdentity_", "C21_PathsResolve_", "C21_ReadOnlyWalkSame"]


def parse_dump(path):
    graphs = []
    with open(path) as f:
        txt = f.read()
    for block in re.split(r"^State \d+:\s*$", txt, flags=re.M)[1:]:
        m = re.search(r"^/\\ G = (.*?)(?=^/\\ |\Z)", block, flags=re.M | re.S)
        g = core.parse_tla_value(" ".join(m.group(1).split()))
        kids = {}
        for o, v in g["kids"].items():
            if isinstance(v, list):
                kids[o] = [{"name": i + 1, "to": x["to"], "lvl": x["lvl"]} for i, x in enumerate(v)]
            else:
                kids[o] = [{"name": int(k), "to": x["to"], "lvl": x["lvl"]} for k, x in sorted(v.items(), key=lambda kv: int(kv[0]))]
        graphs.append({"type": g["type"], "kids": kids, "root": "o1", "src": "tlc"})
    return graphs


def run(ctx):
    q = ctx.quick
    ctx.rule = ("MC: all graphs reachable by adding <= MaxLinks links (to existing or new objects of the listed types, names from "
                "1..MaxNames, through write- or read-cap) to a root directory. TRACE: a seeded sample of those graphs plus seeded "
                "graphs of 5-40 objects, each built from real directories and walked from the root through write-cap and read-cap; "
                "a graph is non-trivial if some object has two links leading to it or a directory links itself / an ancestor")
    ctx.assumptions += ["TLC and the CommunityModules", "the driver's table between objects and the caps of the real objects it created "
                        "(files, mutable files and unknown children are caps only: the traversal never reads them)",
                        "names are two-digit numbers so that the code's sorted() order is the Spec's numeric order",
                        "deep-check walkers (DeepChecker) are not driven: they share deep_traverse with the two walkers that are",
                        "1 storage server, k=n=1"]
    consts = {"Types": '{"dir", "file", "lit", "unk", "mfile"}', "MaxObjs": 3 if q else 4, "MaxLinks": 3 if q else 4, "MaxNames": 2}
    ctx.constants["MC"] = consts
    cfg = "SPECIFICATION Spec\nCONSTANTS\n" + "".join("  %s = %s\n" % kv for kv in consts.items()) + \
          "".join("INVARIANT %s\n" % i for i in INVS) + "CHECK_DEADLOCK FALSE\n"
    dump = os.path.join(ctx.workdir, "graphs")
    r = ctx.mc("dir/MCDeepTraverse", cfg, name="MC DeepTraverse (graphs)", timeout=3000, extra=["-dump", dump])
    graphs = parse_dump(dump + ".dump")
    if len(graphs) != r.states:
        raise core.MachineryError("dump has %d graphs, TLC found %d states" % (len(graphs), r.states))
    rng = random.Random("C21-%d" % ctx.seed)
    budget = 250 if q else 3000
    if len(graphs) > budget:
        graphs = rng.sample(graphs, budget)
    else:
        ctx.exhaustive = True
    traces = ctx.impl("harness/dir_driver.py", ["--mode", "c21", "--n", 20 if q else 150], input_obj={"graphs": graphs}, timeout=6000)
    for tr in traces:
        c = tr["consts"]
        indeg = {}
        for o, ks in c["kids"].items():
            for k in ks:
                indeg[k["to"]] = indeg.get(k["to"], 0) + 1
        nontrivial = any(v > 1 for v in indeg.values()) or indeg.get(c["root"], 0) > 0
        ctx.count(json.dumps(c, sort_keys=True) if nontrivial else None)
    big = max(traces, key=lambda t: len(t["consts"]["type"]))
    ctx.sample({"src": big["src"], "objects": len(big["consts"]["type"]), "reported_visits": len(big["events"][0]["vis"]),
                "stats": big["events"][1], "first_visits": big["events"][0]["vis"][:6]})
    ctx.sample({"src": traces[5]["src"], "graph": traces[5]["consts"], "manifest": traces[5]["events"][0]["vis"]})
    ctx.trace("dir/TraceDeepTraverse", traces, batch=400 if q else 250,
              key_of=lambda tr, l, c: "trace:%s:%s" % (c, tr["events"][l - 1]["ev"]),
              what_of=lambda tr, l, c: "real directory graph (%d objects, %s): %s of the walk through the %s-cap violates %s" % (
                  len(tr["consts"]["type"]), tr["src"], tr["events"][l - 1]["ev"], tr["events"][l - 1]["via"], c))
