"""C09: mutable files read back what one writer wrote.

MC    spec/mutable/MCMutableOps  (a) table: the segment-wise, code-shaped MDMF update (start/end segment fetch,
      TransformingUploadable.read, re-encoded segment range, tail size) and the code-shaped partial read
      (Retrieve._set_segment) equal the reference byte-string semantics for every (format, size, offset, length,
      segment size) in the bounds; (b) sequences of create/overwrite/modify/update with the history-based
      properties C09_ReadYourWrites, C09_UpdateLocal, C09_UpdateSucceeds, C09_ReadRefines.
GEN   spec/mutable/GenMutableOps: single-update cases (old size, offset, length) for 6-byte segments with the
      Spec's expected contents, replayed into the real code.
TRACE spec/mutable/TraceMutableOps: the replayed cases and seeded operation sequences (SDMF and MDMF, 6-byte
      segments, seeded delivery order), validated event by event against the reference semantics.
"""
import json, random

MC_CFG = """SPECIFICATION Spec
CONSTANTS
  Mode = "%(Mode)s"
  Formats = {"SDMF", "MDMF"}
  SegSizes = %(SegSizes)s
  MaxN = %(MaxN)d
  MaxL = %(MaxL)d
  MaxSteps = %(MaxSteps)d
%(props)s
CHECK_DEADLOCK FALSE
"""
TABLE_PROPS = "INVARIANT C09_UpdateRefines\nINVARIANT C09_ReadRefines"
SEQ_PROPS = "INVARIANT C09_ReadRefines\nINVARIANT C09_UpdateSucceeds\nINVARIANT C09_ReadYourWrites\nPROPERTY C09_UpdateLocal"
GEN_CFG = """SPECIFICATION Spec
CONSTANTS
  SS = 6
  MaxN = %d
  Lens = %s
INVARIANT C09_UpdateLocal
CHECK_DEADLOCK FALSE
"""
STALE = "_stale_size"


def key_of(tr, l, clause):
    ev = tr["events"][l - 1]["ev"]
    if clause.endswith(STALE):
        return "trace:update_with_stale_cached_size:%s:%s" % (clause[:-len(STALE)], ev)
    return "trace:%s:%s" % (clause, ev)


def what_of(tr, l, clause):
    e = dict(tr["events"][l - 1])
    for k in ("data", "res"):
        if k in e:
            e[k] = "%d bytes" % len(e[k])
    return "real %s file disagrees with MutableOps.tla at event %d %s: clause %s" % (tr["consts"]["fmt"], l, json.dumps(e), clause)


def run(ctx):
    ctx.rule = ("MC table: every (format, old size 0..MaxN, offset 0..size, length 1..MaxL, segment size); MC seq: every "
                "sequence of MaxSteps operations after create. GEN: all single updates (old size 0..MaxN, offset 0..size, "
                "length in Lens) for 6-byte segments; the quick tier replays a seeded sample stratified by class (inside one "
                "segment, across segments, extend, append, append at a segment boundary), each as create, update, download, "
                "two partial reads, second update, download. Seeded sessions: create (size around 0,1,2,4,8 segments) + 3..8 "
                "operations (update with offset/length at segment boundaries +-1 and growing to power-of-two segment counts, "
                "partial read, download, overwrite, modify append/prepend/truncate/no-op), SDMF and MDMF, uniformly random "
                "delivery order of the server responses; a trace is non-trivial if it contains an in-place update that crosses "
                "or touches a segment boundary, or a partial read")
    ctx.assumptions += ["TLC and the CommunityModules", "the RangeMap shim in /verif/shims",
                        "allmydata.mutable.publish.DEFAULT_MUTABLE_MAX_SEGMENT_SIZE = 6 set at run time (boundary arithmetic is "
                        "scale-free in the segment size)",
                        "reads are requested inside the domain Retrieve accepts (0 <= offset < size, offset+size <= size) or as "
                        "'offset to the end'; updates have 0 <= offset <= size and at least one byte",
                        "one client, no faults (concurrency and faults are C10-C13)"]
    q = ctx.quick
    table = dict(Mode="table", SegSizes="{4, 6}" if q else "{2, 4, 6}", MaxN=13 if q else 26, MaxL=7 if q else 14, MaxSteps=0, props=TABLE_PROPS)
    seq = dict(Mode="seq", SegSizes="{4}", MaxN=8 if q else 9, MaxL=4 if q else 5, MaxSteps=2 if q else 3, props=SEQ_PROPS)
    ctx.constants["MC_table"] = {k: v for k, v in table.items() if k != "props"}
    ctx.constants["MC_seq"] = {k: v for k, v in seq.items() if k != "props"}
    ctx.mc("mutable/MCMutableOps", MC_CFG % table, name="MC table", timeout=3000)
    ctx.mc("mutable/MCMutableOps", MC_CFG % seq, name="MC seq", timeout=3000)

    maxn, lens = (26, "{1, 2, 5, 6, 7, 12, 13}")
    ctx.constants["GEN"] = {"SS": 6, "MaxN": maxn, "Lens": lens}
    cases, r = ctx.gen("mutable/GenMutableOps", GEN_CFG % (maxn, lens))
    rng = random.Random(ctx.seed)
    byclass = {}
    for c in sorted(cases, key=lambda c: (c["n"], c["o"], c["len"])):
        byclass.setdefault(c["class"] + ("+pow2" if c["pow2"] else ""), []).append(c)
    per = 7 if q else 150
    chosen = []
    for k in sorted(byclass):
        chosen += rng.sample(byclass[k], min(per, len(byclass[k])))
    ctx.notes.append("GEN: %d cases in %d classes %s; replayed %d" % (len(cases), len(byclass), {k: len(v) for k, v in sorted(byclass.items())}, len(chosen)))
    if len(chosen) == len(cases):
        ctx.exhaustive = True
    traces = ctx.impl("harness/mutops_driver.py", ["--mode", "cases"], input_obj={"cases": chosen})
    traces += ctx.impl("harness/mutops_driver.py", ["--mode", "seeded", "--n", 60 if q else 1500, "--ops", 8])
    for tr in traces:
        nontrivial = False
        for e in tr["events"]:
            if e["ev"] == "Read":
                nontrivial = True
            if e["ev"] == "Update" and tr["consts"]["fmt"] == "MDMF":
                o, n = e["o"], len(e["data"])
                if o // 6 != (o + n - 1) // 6 or o % 6 == 0 or (o + n) % 6 == 0:
                    nontrivial = True
        ctx.count(json.dumps(tr["events"], sort_keys=True) if nontrivial else None)
    for tr in traces[:1] + traces[-2:]:
        ctx.sample({"consts": tr["consts"], "events": [dict(e, **{k: "%d bytes %s" % (len(e[k]), e[k][:8]) for k in ("data", "res") if k in e})
                                                        for e in tr["events"][:8]]}, limit=3)
    ctx.trace("mutable/TraceMutableOps", traces, key_of=key_of, what_of=what_of, batch=400)
