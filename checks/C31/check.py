import os, sys, json
sys.path.insert(0, os.path.join(os.path.dirname(__file__), "..", "_shared"))
import http_family as hf

INV = ["Inv_StateOK", "C31_Completion"]
PROPS = ["C31_Agree", "C31_CompletionAnswer", "C31_RangeRead"]


def run(ctx):
    ctx.rule = ("MC: interleavings of authorised requests to every route (allocation, chunked writes with overlaps and overruns, aborts, range reads up to "
                "and past the end, read-test-write, listings, leases, advisories, timeouts): the HTTP answer read the way the client reads it must be the "
                "answer of the Storage.tla operator on the same state (C31_Agree), 201 exactly when every byte was acknowledged (C31_Completion*), range "
                "conversion stated byte by byte (C31_RangeRead). TRACE: one seeded history per trace executed twice at the same virtual instants: through the "
                "real StorageClientImmutables/Mutables/General over StubTreq against HTTPServer, and directly on a twin StorageServer (BucketWriter.write + "
                "close when complete, abort, get_buckets/read, slot_readv, slot_testv_and_readv_and_writev, add_lease, advise_corrupt_share); every event "
                "carries both results and both servers' share files; TLC judges the HTTP answer, the direct answer, their agreement and both states against the "
                "same operators; the two storage directories are compared byte by byte at the end of each history. An operation (executed on both paths) is non-trivial "
                "if it is an accepted/conflicting/overrunning write, a range read of an existing share (206/204), an answered read-test-write, or an "
                "accepted allocation, abort, lease or advisory.")
    ctx.assumptions += ["TLC and the CommunityModules", "the RangeMap shim in /verif/shims (used by BucketWriter and the HTTP client's UploadProgress)",
                        "treq.testing.StubTreq and twisted.web as transport; the cooperator runs on zero-delay virtual timers so both servers act at the same instant",
                        "the driver's observation functions (ShareFile/MutableShareFile readers of the code under test read data and leases back)",
                        "legitimate protocol differences are written down in StorageHTTP.tla (DirectView/ClientView): upload addressed by (si, sh) + secret, 404 for a lease on a "
                        "storage index without shares, 404 for a read of a missing share, DataTooLargeError surfaces as 500",
                        "plenty of disk space (allocation under pressure is C28's subject)"]
    consts = dict(Shares='{"0", "1"}', Size=2, MaxOps=2 if ctx.quick else 4, USecrets='{"u1", "u2"}', Enablers='{"wA", "wB"}', AuthMode='"correct"',
                  HdrMode='"few"', Eps=hf.EPS)
    hf.run_mc(ctx, "MC_authorised_interleavings", consts, INV, PROPS, timeout=3000)
    if not ctx.quick:
        hf.run_mc(ctx, "MC_authorised_size3", dict(consts, Size=3, MaxOps=3), INV, PROPS, timeout=3000)
    n = 70 if ctx.quick else 500
    ev = 30 if ctx.quick else 45
    traces = ctx.impl("harness/http_driver.py", ["--mode", "twin", "--n", n, "--events", ev])
    nops = 0
    for i, tr in enumerate(traces):
        reqs = [e for e in tr["events"] if e["ev"] == "Req"]
        nops += len(reqs)
        for e in reqs:
            ep, st = e["r"]["ep"], e["status"]
            nontrivial = "d" in e and ((ep == "write" and st in (200, 201, 409, 500)) or (ep in ("iread", "mread") and st in (204, 206))
                                       or (ep == "rtw" and st == 200) or (ep in ("alloc", "abort", "lease", "icorrupt", "mcorrupt") and st in (200, 204)))
            ctx.count(json.dumps([ep, e["r"]["si"], e["r"]["sh"], e["r"]["a"], st, e["body"]], sort_keys=True) if nontrivial else None)
        t = tr.pop("tree")
        if not t["equal"]:
            kind = "advisory" if all(p.startswith("corruption-advisories") for p in t["diff"]) else ("incoming" if all("incoming" in p for p in t["diff"]) else "share")
            ctx.report("tree:differs:%s" % kind, "the storage directories of the HTTP server and of the directly driven twin differ after the same history: %s" % t["diff"],
                       replay={"kind": "twin-tree-diff", "diff": t["diff"], "trace": tr})
    ctx.sample({"events": [{k: v for k, v in e.items() if k not in ("obs", "obsall", "dobsall")} | ({"d": e["d"]["res"]} if isinstance(e.get("d"), dict) and "res" in e["d"] else {})
                           for e in traces[0]["events"][:6]]}, limit=2)
    ctx.notes.append("%d twin histories, %d operations executed on both paths, %d storage directory pairs compared byte by byte" % (len(traces), nops, len(traces)))
    hf.validate(ctx, "C31", traces, "HTTP path / direct path")
