"""C06: a successful immutable upload meets servers-of-happiness; failures are unhappiness errors; no
partial share is visible to readers.

MC: spec/immutable/MCUploadSelect - one upload over every mix of server modes, pre-existing shares,
allocation plans and fault positions within the constants; the clauses of the statement are invariants
over the real store.  TRACE: real uploads on SimGrid grids (harness/upload_driver.py: 1..8 servers,
read-only / full / small / failing / flaky / slow servers, pre-existing shares from an earlier upload,
one-shot faults on allocate / write / close / abort, random delivery order) are validated by
TraceUpload.tla: TLC replays the storage calls, computes the happiness of the claim itself and accepts
a success only under the guard of the statement."""
import collections, json


def mc_cfg(consts):
    txt = "SPECIFICATION Spec\nCONSTANTS\n" + "".join("  %s = %s\n" % kv for kv in consts.items())
    for inv in ("C06_SuccessMeetsHappiness", "C06_PlacedFinalComplete", "C06_NoPartialVisible", "C06_UnreachableFails",
                "C06_ErrorClass", "C06_FailureLeavesNoIncoming"):
        txt += "INVARIANT %s\n" % inv
    return txt        # deadlock checking stays on: a state without successor and without result would be a hang


def key_of(tr, l, clause):
    return "trace:%s:%s" % (clause, tr["events"][l - 1]["ev"])


def what_of(tr, l, clause):
    c = tr["consts"]
    e = tr["events"][l - 1]
    return ("upload k=%d n=%d happy=%d on servers %s (pre-existing %s): event %d %s rejected by clause %s" % (
        c["k"], c["n"], c["happy"], json.dumps(c["modes"], sort_keys=True), json.dumps(c["pre"], sort_keys=True), l,
        json.dumps(e, sort_keys=True)[:400], clause))


def run(ctx):
    q = ctx.quick
    cfgs = [dict(Servers='{"s1", "s2", "s3"}', NShares=2, Happy=2, ModeSet='{"writable", "readonly", "failing"}', MaxPre=1, MaxFaults=1),
            dict(Servers='{"s1", "s2"}', NShares=3, Happy=2, ModeSet='{"writable", "full", "readonly", "failing"}', MaxPre=2, MaxFaults=2)]
    if not q:
        cfgs += [dict(Servers='{"s1", "s2", "s3"}', NShares=3, Happy=2, ModeSet='{"writable", "readonly", "failing"}', MaxPre=1, MaxFaults=2),
                 dict(Servers='{"s1", "s2", "s3"}', NShares=3, Happy=3, ModeSet='{"writable", "full", "failing"}', MaxPre=2, MaxFaults=1)]
    for i, c in enumerate(cfgs):
        ctx.constants["MCUploadSelect_%d" % i] = c
        ctx.mc("immutable/MCUploadSelect", mc_cfg(c), name="MC upload %d" % i, timeout=3000)
    n = 160 if q else 3000
    out = ctx.impl("harness/upload_driver.py", ["--n", n], timeout=3000)
    traces = out["traces"]
    outcomes = collections.Counter()
    incoming_left = 0
    for t in traces:
        c = t["consts"]
        r = [e for e in t["events"] if e["ev"] in ("Success", "Failure", "Hang")][0]
        if r["ev"] == "Success":
            outcomes["success"] += 1
        elif r["ev"] == "Hang":
            outcomes["hang"] += 1
        elif set(r["mro"]) & {"UploadUnhappinessError", "NoServersError"}:
            outcomes["unhappy:" + r["cls"]] += 1
        else:
            outcomes["died:%s@%s" % (r["cls"], r["where"])] += 1
        qd = t["events"][-1]["disk"]
        if r["ev"] != "Success" and any(qd[s]["incoming"] for s in qd):
            incoming_left += 1
        nontrivial = c["profile"] != "clean" and (any(m != "writable" for m in c["modes"].values()) or any(c["pre"].values()) or c["oneshot"])
        ctx.count(json.dumps([c, t["events"]], sort_keys=True) if nontrivial else None)
    ctx.notes.append("outcomes of the real uploads: %s" % dict(outcomes))
    ctx.notes.append("failed uploads that left un-aborted incoming buckets (invisible to readers, outside the statement, not judged): %d" % incoming_left)
    ctx.notes.append("uploads that die with a non-unhappiness exception while the threshold was reachable are recorded above as died:* and not judged "
                     "(statement silent); the AssertionError of CHKUploader.set_shareholders is never judged (known benign)")
    ctx.sample({"consts": traces[0]["consts"], "events": traces[0]["events"][:12]}, limit=2)
    # clauses of the sibling property C07 (an upload declared unhappy on a fault-free grid where a happy layout exists) are
    # reported by C07's own check
    captured = []
    ctx.report = lambda key, what, replay=None: captured.append((key, what, replay))
    try:
        ctx.trace("immutable/TraceUpload", traces, invariants=("C06_NoPartialVisible_everywhere",), key_of=key_of, what_of=what_of,
                  workers=4, batch=1000, timeout=3000)
    finally:
        del ctx.report
    sib = set()
    for key, wh, replay in captured:
        if ":C07_" in key:
            sib.add(key)
        else:
            ctx.report(key, wh, replay)
    if sib:
        ctx.notes.append("traces cut short by clauses of the sibling property C07 (reported by its own check): %s" % sorted(sib))
    ctx.rule = ("MC: every behaviour of the abstract uploader over the listed constants. TRACE: %d seeded real uploads (1..%d servers, k<=3, n<=6, "
                "happy 1..n; server modes writable/readonly/full (advertised or hidden)/small/failing/flaky/slow; optional earlier upload of the "
                "same storage index on a subset of servers, possibly with another N and deleted shares; up to 3 one-shot faults raise/disconnect on "
                "the n-th allocate/get_buckets/write/close/abort; fifo or random delivery order). Non-trivial: not the clean profile and some "
                "non-writable server, pre-existing share or one-shot fault." % (n, 8 if q else 12))
    ctx.assumptions += ["TLC and the CommunityModules", "harness/grid.py SimGrid and the virtual reactor; fileutil.get_available_space replaced per server",
                        "'complete' on disk = share data equal to the share of a fault-free upload of the same file and parameters on a clean grid",
                        "ground truth 'threshold surely unreachable' = maximum matching over (servers neither removed nor failing on every call) x "
                        "(any share if the server accepts writes, else its pre-existing shares) < happy; flaky/slow/small servers count as capable",
                        "faults 'lose' are injected on get_buckets/allocate_buckets only (the uploader has timeouts there); verdicts depend on the recorded trace only"]
