import os, sys
sys.path.insert(0, os.path.join(os.path.dirname(__file__), "..", "_shared"))
import download_family as fam

NODE_INV = ["TypeOK", "C46_QuiescentResolved", "C46_NoOrphanRequest", "C02_OnlyGenuine", "C02_PrefixOnError", "C03_ErrorClass"]


def run(ctx):
    ctx.rule = ("MC: (1) the DownloadNode layer alone (request queue, _active_segment, fetch ok/fail, decode/ciphertext-hash "
                "ok/fail, later reads) with two readers, every read range, every arrival order, under weak fairness: "
                "C46_Terminates (liveness), C46_QuiescentResolved, C46_NoOrphanRequest -- with the intended rule "
                "(ClearOnFailure) it must hold, with the code's rule TLC must show the stuck state; (2) node + fetcher + "
                "finder + abstract shares with faulty servers and dishonest encoders.  TRACE: seeded scenarios on the real "
                "downloader (profile c46: tampering encoder in ~45% of uploads, shares shorter than their offset table, "
                "damaged/deleted/substituted shares, raising/disconnecting/losing/late servers, 2-4 reads per scenario "
                "sequentially, concurrently, after a failure and at quiescence, on one or two nodes; in ~30% of the scenarios one reader goes away - its consumer calls stopProducing - while others wait); the scheduler "
                "drains every call, fires every timer, finally fails lost calls, then logs Quiescent.  Non-trivial = any "
                "damage, fault, late server, tampered upload or more than one read.")
    ctx.assumptions += fam.COMMON_ASSUMPTIONS
    # ---- design level
    fam.mc_holds(ctx, "MC node layer, intended rule", readers=2, numsegs=2, full=False, clear=True, ranges="R_any2",
                 badsegs=2, invariants=NODE_INV)
    fam.mc_demo(ctx, "MC node layer, code rule (ClearOnFailure=FALSE)", ["C46_QuiescentResolved", "C46_NoOrphanRequest", "temporal"],
                readers=2, numsegs=2, full=False, clear=False, ranges="R_any2", badsegs=2, invariants=NODE_INV)
    # readers that go away while others wait (stopProducing -> _cancel_request)
    fam.mc_holds(ctx, "MC node layer, readers may go away", readers=3 if not ctx.quick else 2, numsegs=2, full=False, clear=True, ranges="R_any2",
                 badsegs=1, invariants=NODE_INV, stop="restart")
    fam.mc_demo(ctx, "MC node layer, cancel forgets to start the next segment", ["C46_QuiescentResolved", "C46_NoOrphanRequest", "temporal"],
                readers=2, numsegs=2, full=False, clear=True, ranges="R_any2", badsegs=0, invariants=NODE_INV, stop="norestart")
    if ctx.quick:
        fam.mc_holds(ctx, "MC full layer", readers=1, numsegs=2, ranges="R_all2", faulty=1, fmodes=("dyhb", "flaky"),
                     badsegs=1, maxout=2)
    else:
        fam.mc_holds(ctx, "MC full layer", readers=1, numsegs=2, ranges="R_any2", dmg=1, dvals=("forged", "other", "short"),
                     faulty=1, fmodes=("dyhb", "read", "flaky"), badsegs=1, maxout=2)
        fam.mc_holds(ctx, "MC full layer, two readers", readers=2, numsegs=2, ranges="R_any2", faulty=1, fmodes=("flaky",),
                     badsegs=1, maxout=2)
    # ---- implementation level
    fam.run_traces(ctx, "C46", "c46", 300 if ctx.quick else 3000)
