"""C17: key and secret derivations match the specification (spec/caps/KeyDerivation.tla)."""
import json


def run(ctx):
    ctx.rule = ("MC: one state per derivation of KeyDerivation.tla; TLC checks closure, acyclicity, distinct domain-separating tags, "
                "lengths and the authority lattice (what is / is not computable from a weaker party's view). GEN: TLC emits the term "
                "table; an independent interpreter (hashlib only) evaluates the terms on seeded inputs of the documented lengths and "
                "each value is compared with every call site of the real code that computes it (hashutil, uri classes, SecretHolder, "
                "MutableFileNode, derive_mutable_keys, dirnode) and, end to end on a SimGrid, with the secrets / storage indexes real "
                "uploads, publishes, overwrites and lease renewals present to each storage server and with bytes at rest (mutable share "
                "data key, encrypted signing key, directory child write-cap key). Every comparison is non-trivial (keyed by derivation@site).")
    ctx.assumptions += ["TLC and the CommunityModules", "SHA-256 (hashlib) and AES-CTR (cryptography) as primitives",
                        "harness/kd_interp.py (independent interpreter of the terms) and the published lease test vectors",
                        "tag strings not spelled out in docs/specifications are frozen in KeyDerivation.tla as the deployed constants"]
    cfg = "SPECIFICATION Spec\n" + "".join("INVARIANT %s\n" % i for i in (
        "C17_Closed", "C17_Acyclic", "C17_TagsDistinct", "C17_Lengths", "C17_Lattice", "C17_NoEscalation"))
    table, r = ctx.gen("caps/KeyDerivationGen", cfg, outname="kd_table.ndjson", env={"_JAVA_OPTIONS": "-XX:TieredStopAtLevel=1"})
    ctx.exhaustive = True
    ctx.constants["derivations"] = sorted(table[0]["table"].keys())
    unit, e2e = (60, 6) if ctx.quick else (3000, 150)
    res = ctx.impl("harness/kd_driver.py", ["--unit", unit, "--e2e", e2e], input_obj=table[0])
    for site, n in res["per_site"].items():
        ctx.count(site, n)
    for s in res["samples"]:
        ctx.sample(s, limit=4)
    ctx.notes.append("comparisons: %d (unit %d); end-to-end calls observed: %s" % (res["comparisons"], res["unit_comparisons"], json.dumps(res["e2e"])))
    need = {"allocate_buckets", "slot_writev", "add_lease", "shares_decrypted", "dir_entries"}
    missing = [k for k in need if not res["e2e"].get(k)]
    if missing and not res["mismatches"]:
        raise RuntimeError("end-to-end part observed no %s" % missing)
    for m in res["mismatches"]:
        for _ in range(m["count"]):
            ctx.report(m["key"], m["what"], replay={"kind": "derivation-mismatch", "examples": m["examples"],
                                                     "how": "evaluate the term of KeyDerivation.tla with harness/kd_interp.py on the inputs (base32) and compare with the named call site"})
