import os, sys
sys.path.insert(0, os.path.join(os.path.dirname(__file__), "..", "_shared"))
import download_family as fam


def run(ctx):
    ctx.rule = ("MC: node + fetcher + finder + abstract shares; the adversary gives every component of every share "
                "instance (offset table, UEB, share-hash chain, block-hash tree, ciphertext-hash tree, each block) a "
                "symbolic content genuine | other (consistent with another file/encoding) | forged | short, within the "
                "bounds in `constants`, plus dishonest encoders and lying instances (thorough); every consumer write "
                "and result of the model is judged by the contract clauses.  A run with block validation switched off "
                "must be caught by TLC.  TRACE: seeded scenarios on the real downloader (profile c02: 40-100% of the "
                "share instances damaged by layout field through the real offset table, truncated, bit-flipped, "
                "replaced by shares of another file or of another encoding under the same key, lying instances whose "
                "file changes between deliveries, tampering encoder in ~20% of uploads; in ~30% of the scenarios chained reads on one node: a read ending at P, then two overlapping reads from P); every chunk that reaches "
                "the consumer is compared with the plaintext.  Non-trivial = any damage, fault, tampered upload or "
                "more than one read.")
    ctx.assumptions += fam.COMMON_ASSUMPTIONS
    dv = ("forged", "other", "short")
    if ctx.quick:
        fam.mc_holds(ctx, "MC full layer, 1 damaged component", readers=1, numsegs=1, ranges="R_all1", dmg=1, dvals=dv, badsegs=1)
    else:
        fam.mc_holds(ctx, "MC full layer, 2 damaged components", readers=1, numsegs=1, ranges="R_all1", dmg=2, dvals=dv, badsegs=1)
        fam.mc_holds(ctx, "MC full layer, 2 segments, lying instance", readers=1, numsegs=2, ranges="R_all2", dmg=1, dvals=dv,
                     badsegs=0, liars=1, tamper=2)
    fam.mc_demo(ctx, "MC block validation switched off", ["C02_OnlyGenuine", "C03_NoFalseSuccess", "C03_Contract", "C03_ErrorClass"],
                readers=1, numsegs=1, ranges="R_all1", dmg=1, dvals=("forged",), validate="NoChecksBlk", liveness=False)
    fam.mc_demo(ctx, "MC ciphertext-hash check switched off", ["C02_OnlyGenuine"],
                readers=1, numsegs=1, ranges="R_all1", badsegs=1, validate="NoChecksSeg", liveness=False)
    fam.run_traces(ctx, "C02", "c02", 300 if ctx.quick else 3000)
