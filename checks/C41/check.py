"""C41 -- the web API never exceeds the authority of the capability used.

GEN: spec/frontends/WebAuthority.tla enumerates requests (operation x start cap x path x arguments) over a small
tree with mixed authority and computes, per request, whether it must be performed or refused, which objects may
change, and how much authority over every object the response may reveal; TLC checks the clauses of the property
over every row (stated by explicit quantification over the steps of the access path).
Conformance: every row is replayed through the real web Root on a real client and real storage servers; the
driver reports the HTTP status, which objects' share files changed, whether new objects appeared, and which
write keys / read keys of the tree occur in the response.  Python only compares with the Spec's row.
"""
import os, random, sys

INVS = ["C41_PerformedOnlyWithWriteAuthority", "C41_ReadOnlyStartRefused", "C41_ReadOnlyStepRefused",
        "C41_RefusedChangesNothing", "C41_PerformedChangesSomething", "C41_NoWriteCapThroughReadOnly",
        "C41_NothingThroughVerify", "C41_RevealOnlyReachable", "C41_PrivateNeedsToken"]


def describe(c):
    a = c["args"]
    extra = {k: v for k, v in a.items() if v not in ("", [], None) and not (k == "to_start" and v.get("auth") == "none")}
    return "%s $%s.%s/%s %s" % (c["op"], c["start"]["obj"], c["start"]["auth"], "/".join(c["path"]), extra or "")


def run(ctx):
    rng = random.Random(ctx.seed)
    cfg = "SPECIFICATION Spec\n" + "".join("INVARIANT %s\n" % i for i in INVS)
    cases, r = ctx.gen("frontends/WebAuthority", cfg, timeout=900)
    ctx.exhaustive = True
    cases.sort(key=lambda c: (c["kind"], c["op"], c["start"]["obj"], c["start"]["auth"], c["path"], str(c["args"])))
    performed = [i for i, c in enumerate(cases) if c["expect"] == "performed"]
    others = [i for i, c in enumerate(cases) if c["expect"] != "performed"]
    if ctx.quick:
        # every refused / read / private row; of the control rows (write authority all the way: the request must be
        # performed and must change exactly the Spec's objects) one per operation plus a seeded sample
        byop = {}
        for i in performed:
            byop.setdefault(cases[i]["op"], []).append(i)
        chosen = {rng.choice(v) for v in byop.values()}
        rest = [i for i in performed if i not in chosen]
        chosen |= set(rng.sample(rest, min(len(rest), 14)))
        sel = others + sorted(chosen)
    else:
        sel = others + performed
    rng.shuffle(sel)
    requests = []
    for n, i in enumerate(sel):
        c = cases[i]
        requests.append({"id": n, "case": i, "op": c["op"], "start": c["start"], "path": c["path"], "args": c["args"],
                         "may_appear": c["may_appear"]})
    ctx.constants.update({"tree": "ROOT{f,lit,m,romut(ro),sub,rosub(ro)->D2,d2rw->D2,idir->ID(immutable dir)} SUB{f,m} D2{f,m,d} D3{f} ID{f}",
                          "starts": "ROOT.{write,read,verify} D2.{read,write} SUB.write ID.read M1.{write,read,verify} M3.{read,write}",
                          "rows": len(cases), "rows_expect_performed": len(performed)})
    out = ctx.impl("harness/web_auth_driver.py", ["--jobs", 3 if ctx.quick else 6], {"requests": requests}, timeout=3000)
    res = out["results"]

    stats = {"refused": 0, "performed": 0, "read": 0, "private": 0, "dropped_connection": 0}
    statuses = {}
    for rq in requests:
        c = cases[rq["case"]]
        o = res[str(rq["id"])]
        what = "%s [%s] -> status %s changed=%s new_objects=%d leaks=%s %s" % (
            describe(c), o["http"], o["status"], o["changed"], o["new_objects"], o["leaks"], o["error"])
        base = "C41:%s:%s" % (c["op"], c["shape"])
        replay = {"kind": "web-authority-case", "case": c, "observed": o,
                  "how": "harness/web_auth_driver.py builds the tree of WebAuthority.tla and sends the request"}
        nontrivial = c["kind"] == "modify" or c["start"]["auth"] != "write"
        ctx.count("%s:%s:%s:%s" % (c["op"], c["shape"], c["expect"], "/".join(c["path"])) if nontrivial else None)
        ok2xx = 200 <= o["status"] < 400
        statuses.setdefault("%s:%s" % (c["expect"], o["status"]), 0)
        statuses["%s:%s" % (c["expect"], o["status"])] += 1

        def bad(problem, key=None):
            ctx.report(key=key or (base + ":" + problem), what="%s: %s; Spec row: expect=%s changed=%s" % (problem, what, c["expect"], c["changed"]),
                       replay=replay)

        for obj, lvl in o["leaks"]:
            bad("response_reveals_%s_authority" % lvl, key="C41:leak_%s:%s:%s" % (lvl, c["op"], c["shape"]))
        if c["kind"] == "modify" and c["expect"] == "refused":
            stats["refused"] += 1
            if o["status"] == -1:
                stats["dropped_connection"] += 1
            if ok2xx:
                bad("not_refused")
            if o["changed"]:
                bad("refused_but_grid_changed")
            if o["new_objects"]:
                bad("refused_but_new_object", key="C41:refused_but_new_object:%s:%s" % (c["op"], c["shape"]))
        elif c["kind"] == "modify":
            stats["performed"] += 1
            if not ok2xx:
                bad("control_not_performed")
            elif sorted(o["changed"]) != sorted(c["changed"]):
                bad("control_changed_other_objects")
        elif c["kind"] == "read":
            stats["read"] += 1
            if c["expect"] == "ok" and o["status"] != 200:
                raise RuntimeError("read request did not succeed (harness problem?): " + what)
            if o["changed"] or o["new_objects"]:
                bad("read_changed_grid")
        elif c["kind"] == "private":
            stats["private"] += 1
            if c["expect"] == "refused" and o["status"] != 401:
                bad("private_area_admitted_without_token", key="C41:private:%s:status_%s" % (c["shape"], o["status"]))
            if c["expect"] == "admitted" and o["status"] == 401:
                bad("private_area_refused_right_token", key="C41:private:%s:status_401" % c["shape"])
        if len(ctx.samples) < 4 and c["kind"] == "modify" and rq["id"] % 41 == 5:
            ctx.sample({"request": describe(c), "http": o["http"], "shape": c["shape"], "spec": {"expect": c["expect"], "changed": c["changed"]},
                        "real": {"status": o["status"], "changed": o["changed"], "new_objects": o["new_objects"], "leaks": o["leaks"]}})
    if stats["performed"] == 0 or stats["refused"] == 0:
        raise RuntimeError("vacuous run: %s" % stats)
    ctx.rule = ("every row of the Spec's table whose outcome is refused / read / private is replayed (in a seeded order, dealt to 3 (thorough: 6) workers, each one history on "
                "one gateway whose node cache holds live rw nodes of every object); rows that must be performed are all replayed in "
                "thorough and one per operation plus a seeded sample in quick, each followed by restoring the share files and a fresh "
                "gateway. non-trivial = a modifying request, or a read through a read-only/verify cap; distinct key = (op, shape, expectation, path)")
    ctx.notes.append("requests replayed: %s; restores after performed requests: %d" % (stats, out["restores"]))
    ctx.notes.append("status histogram (expectation:status): %s" % dict(sorted(statuses.items())))
    ctx.notes.append("refusals observed as HTTP errors (mostly 500 NotWriteableError, 400/404/405/501) or, for mkdir through a read-only "
                     "directory, a dropped connection (status -1: web/common.py _getChild_failed builds ErrorPage(code=None)); any of "
                     "these counts as refused")
    ctx.assumptions += [
        "the grid state is the set of share files of all servers; 'changes nothing' = no share file of an existing object differs and no new storage index appears",
        "a response 'contains' authority over an object iff the base32 write key (resp. read key) of that object occurs in its headers or body",
        "operations that only renew leases or repair shares (t=check with repair/add-lease) are not modifying operations of the property and are not generated",
    ]
