"""C44 Helper-assisted uploads are equivalent to direct uploads.

MC    spec/immutable/MCHelper (Helper.tla): ciphertext fetched in chunks into the helper's persistent
      incoming file, interruption after any helper->client call, resumed and repeated uploads, loss of
      shares, pre-existing shares; C44_* invariants against the direct upload (cap and shares made from Ct).
TRACE harness/helper_driver.py: real Helper / CHKUploadHelper / CHKCiphertextFetcher joined to the real
      AssistedUploader / RemoteEncryptedUploadable by ControlledRefs on SimGrid; injected failures and
      disconnects on the helper->client calls; caps and share bytes compared with a direct upload on a twin
      grid; TraceHelper.tla evaluates every event with the operators of Helper.tla.
"""
import json

SPEC = "immutable/MCHelper"
TRACE = "immutable/TraceHelper"
INVS = ["C44_CapEqual", "C44_SharesEqual", "C44_IncomingIsPrefix", "C44_NoRefetch", "C44_ReaderForward", "C44_Complete"]


def cfg(size, chunk, n, maxint, maxup, resume="fetched"):
    txt = ("SPECIFICATION Spec\nCONSTANTS\n  Size = %d\n  Chunk = %d\n  N = %d\n  ResumeAt = \"%s\"\n  MaxInterrupts = %d\n  MaxUploads = %d\n"
           % (size, chunk, n, resume, maxint, maxup))
    txt += "".join("INVARIANT %s\n" % i for i in INVS) + "PROPERTY C44_AlreadyPresentNoPush\nCHECK_DEADLOCK FALSE\n"
    return txt


def key_of(tr, l, clause):
    return "trace:%s:%s" % (clause, tr["events"][l - 1]["ev"])


def what_of(tr, l, clause):
    return ("real helper-assisted upload disagrees with Helper.tla at event %d (%s) of scenario %s (size=%d chunk=%d k=%d N=%d): clause %s"
            % (l, tr["events"][l - 1]["ev"], tr["consts"]["idx"], tr["consts"]["Size"], tr["consts"]["Chunk"], tr["consts"]["K"],
               tr["consts"]["N"], clause))


def run(ctx):
    q = ctx.quick
    ctx.rule = ("MC: all interleavings of upload start, get_size, chunk fetches, rename, encode+push, interruption of the "
                "session at any point, loss of shares, over every set of pre-existing shares. TRACE: seeded scenarios (k 1..3, "
                "N<=5, 2..5 servers, file 56..400 bytes fetched in 1..6 chunks, optional pre-existing shares from a direct upload): "
                "0..3 interrupted uploads (failure or disconnect injected on the j-th get_size / read_encrypted / "
                "get_all_encoding_parameters call, j over every chunk), then an uninterrupted upload (resume), a repeated upload "
                "(already present), optionally deletion of shares and another upload; reference = direct upload of the same "
                "data / convergence secret / parameters on a twin grid. Non-trivial: at least one interruption or pre-existing "
                "share; key = parameters + interruption plan + event list.")
    ctx.assumptions += ["TLC and the CommunityModules", "the RangeMap shim in /verif/shims",
                        "SimGrid ControlledRef stands for the foolscap connection between client and helper (calls delivered in FIFO order)",
                        "CHKCiphertextFetcher.CHUNK_SIZE lowered at run time so that small files need several chunks",
                        "storage servers answer without faults while the helper pushes shares (C06 covers those faults)",
                        "share bytes = share data inside the container (lease area excluded)"]
    if q:
        mcs = [("quick", 7, 2, 2, 2, 4)]
    else:
        mcs = [("t1", 9, 2, 3, 3, 5), ("t2", 7, 3, 2, 3, 5), ("t3", 4, 1, 1, 4, 6)]
    for (name, size, chunk, n, mi, mu) in mcs:
        ctx.constants["MC_" + name] = {"Size": size, "Chunk": chunk, "N": n, "MaxInterrupts": mi, "MaxUploads": mu}
        ctx.mc(SPEC, cfg(size, chunk, n, mi, mu), name="MC Helper " + name, timeout=3000)
    if not q:
        r = ctx.mc(SPEC, cfg(7, 2, 2, 2, 3, resume="zero"), name="MC Helper demo ResumeAt=zero", expect_ok=False, timeout=600)
        if not r.violated:
            from vfw.core import MachineryError
            raise MachineryError("sensitivity demonstration failed: ResumeAt=zero not noticed")
        ctx.notes.append("demonstration: a fetcher that restarts at offset 0 violates %s in the model (expected)" % r.violated)

    traces = ctx.impl("harness/helper_driver.py", ["--n", 110 if q else 2500])
    stats = {"interrupted_uploads": 0, "resumed_midway": 0, "already_present": 0, "uploads": 0, "bypass_fetch": 0}
    for tr in traces:
        evs = tr["events"]
        faults = [e for e in evs if e.get("fault")]
        ends = [e for e in evs if e["ev"] == "end"]
        stats["uploads"] += len(ends)
        stats["interrupted_uploads"] += len([e for e in ends if e["outcome"] != "ok"])
        stats["resumed_midway"] += len([e for e in evs if e["ev"] == "start" and e["incoming"] > 0])
        stats["bypass_fetch"] += len([e for e in evs if e["ev"] == "start" and e["encoding"]])
        stats["already_present"] += len([e for e in evs if e["ev"] == "start" and e["answer"] == "present"])
        nontrivial = bool(faults) or bool(tr["consts"]["pre"])
        ctx.count(json.dumps([tr["consts"], [[e["ev"], e.get("fault", ""), e.get("offset", 0)] for e in evs]], sort_keys=True)
                  if nontrivial else None)
    for tr in [t for t in traces if any(e.get("fault") for e in t["events"])][:3]:
        ctx.sample({"consts": tr["consts"], "events": tr["events"][:14]}, limit=3)
    ctx.notes.append("driver statistics: %s" % json.dumps(stats, sort_keys=True))
    rej = ctx.trace(TRACE, traces, key_of=key_of, what_of=what_of, batch=1500)
    ctx.notes.append("traces rejected: %d of %d" % (len(rej), len(traces)))
