"""C38 On-disk and wire encodings round-trip; malformed encodings are rejected.
Spec: spec/util/Encodings.tla (strict canonical decoders for base32, base62, netstring, URI extension block; field tables
of lease records and container headers).  spec/util/GenEncodings.tla enumerates values and single-token mutations of valid
encodings, checks round-trip / canonicity laws of the Spec on every case and prints the Spec's verdict; the cases are replayed
into the real code (harness/encodings_driver.py).  spec/util/TraceEncodings.tla validates seeded longer random values."""
import json

KINDS = '{"b32dec", "b32enc", "b62enc", "b62dec", "netsplit", "netenc", "uebunpack", "uebpack", "lease", "header"}'


def run(ctx):
    q = ctx.quick
    ctx.rule = ("GEN: base32 texts: every string of <= 2 symbols over the alphabet plus three outside characters, a grid of 3-symbol strings and, for "
                "lengths 4..16, three prefixes x every last symbol (every value of the unused trailing bits); base32 of every byte string of <= 1 byte, "
                "4 x 256 two-byte strings and edge patterns up to 11 bytes; base62 of every <= 1-byte string, 4 x 256 two-byte strings, every text of "
                "<= 2 digits and grids of 3 and 4 digits; split_netstring on six valid framings (prefix/position, numstrings, required_trailer) and "
                "every single-token mutation of them (delete one byte, replace or insert one of '0129:,a+ -'); unpack_extension on every such mutation "
                "of four packed URI extension blocks; pack_extension; lease records (immutable / mutable) with every pair of edge values of the two "
                "32-bit fields and records one byte short / long; immutable container header for versions 1,2 x nine maximum sizes around 2^31, 2^32; "
                "mutable container header for versions 1,2. A case is non-trivial if the Spec's strict verdict is reject or the value is non-empty. "
                "TRACE: seeded random values (base32 up to 40 bytes, netstring sequences with prefix/trailer, damaged netstrings, URI extension blocks).")
    ctx.assumptions += ["TLC and the CommunityModules", "numbers in the Spec stay below 2^31: base62 is enumerated for values < 2^16 only; 32/64-bit "
                        "fields are handled as big-endian byte strings", "the driver's mapping between alphabet characters and symbol values",
                        "lenient forms (Python int() length prefixes and integer values, duplicate / empty UEB keys, base62.a2b which validates nothing) "
                        "are computed by the Spec's lenient operators, counted in the notes and excluded from the verdict (DESIGN.md section 10)"]
    cfg = ("SPECIFICATION Spec\nCONSTANTS\n  Kinds = %s\nINVARIANT C38_RoundTrip\nINVARIANT C38_Canonical\nINVARIANT C38_LenientExtendsStrict\n"
           "CHECK_DEADLOCK FALSE\n" % KINDS)
    ctx.constants["GEN"] = {"Kinds": KINDS}
    r = ctx.mc("util/GenEncodings", cfg, name="GEN+MC encodings", timeout=3000, coverage=False)
    cases = [json.loads(json.loads(p)) for p in r.prints if p.startswith('"{')]
    if len(cases) < 5000:
        raise RuntimeError("GEN produced only %d cases" % len(cases))
    for c in cases:   # -coverage is off (9x slower here); one Init state per case
        ctx.actions["GenEncodings.Init." + c["kind"]] = ctx.actions.get("GenEncodings.Init." + c["kind"], 0) + 1
    out = ctx.impl("harness/encodings_driver.py", ["--mode", "replay"], input_obj=cases)
    for c in cases:
        st = c.get("strict")
        nontrivial = (st is not None and not st["ok"]) or any(c.get(f) for f in ("bytes", "items", "value", "max_size", "nodeid"))
        ctx.count(json.dumps({k: v for k, v in c.items() if k in ("kind", "text", "bytes", "data", "num", "pos", "trailer", "items", "variant",
                                                                   "value", "version", "max_size")}, sort_keys=True) if nontrivial else None)
    ctx.notes.append("cases per family: %s" % out["stats"])
    ctx.notes.append("lenient forms accepted by the code exactly as the Spec's lenient reading predicts (excluded from the verdict): %s; examples: %s" % (
        out["lenient"], json.dumps(out["lenient_samples"])[:900]))
    for want in ("netsplit", "b32dec", "lease"):
        for c in cases:
            if c["kind"] == want and (c.get("strict", {"ok": True})["ok"] is False or want == "lease"):
                ctx.sample(c, limit=3)
                break
    ctx.exhaustive = True
    for m in out["mismatches"]:
        ctx.report("case:%s" % m["kind"], "real encoder/decoder disagrees with Encodings.tla: %s %s" % (m["kind"], json.dumps(m.get("detail"))[:300] if m.get("detail") else ""),
                   replay={"kind": "gen-case", "case": m.get("case"), "detail": m.get("detail")})
    # ---- TRACE: seeded longer values ----
    nt, ne = (12, 40) if q else (200, 60)
    traces = ctx.impl("harness/encodings_driver.py", ["--mode", "trace", "--n", nt, "--events", ne])
    for tr in traces:
        ctx.count(json.dumps(tr["events"], sort_keys=True)[:5000])
    ctx.sample({"events": traces[0]["events"][:3]}, limit=4)
    ctx.trace("util/TraceEncodings", traces, batch=100, workers=4,
              key_of=lambda tr, l, clause: "trace:%s:%s" % (clause, tr["events"][l - 1]["ev"]),
              what_of=lambda tr, l, clause: "real encoder/decoder disagrees with Encodings.tla at event %d: %s %s" % (
                  l, clause, json.dumps(tr["events"][l - 1])[:300]))
