import os, sys
sys.path.insert(0, os.path.join(os.path.dirname(__file__), "..", "_shared"))
import storage_family


def run(ctx):
    storage_family.run(ctx, "C22", ["imm"],
                       ["Inv_StateOK", "C22_Visible", "C22_ReadBack"], ["C22_RejectedWriteNoChange", "C22_NoTrace"],
                       ["imm"], ["Write", "Close", "Abort", "Read"])
