"""C04 Random-access and concurrent immutable reads.

1. MC   spec/immutable/MCDownloadReads (operators in DownloadReads.tla): several Segmentations on ONE
        DownloadNode - shared request queue, active segment, eventual queue, cancel handles, guessed vs real
        segment size (wrong-segment / bad-segment-number retry), consumers pausing / resuming / stopping
        between turns or inside write() - in every interleaving: each surviving read gets exactly its slice
        (C04_Slice, C04_Prefix), a stopped read a prefix, CTR positions stay aligned, the queue is always
        served, and (liveness, under weak fairness of the node's own steps) no read is starved by what the
        other consumers do (C04_Isolation).
2. GEN  spec/immutable/GenReads: (offset,size) classes around segment / AES-block boundaries, EOF, past EOF,
        size=None for CHK and literal files, with the Spec's slice length and number of writes.
3. The driver issues them as single reads and as seeded scenarios of 2..4 concurrent reads on one real
   ImmutableFileNode / LiteralFileNode with scheduled pause / resume / stop.
4. TLC validates every recorded execution (TraceImmutableReads).
"""
import json, os, random, sys
sys.path.insert(0, os.path.join(os.path.dirname(__file__), "..", "_shared"))
import immutable_family as fam

SAFETY = ["TypeOK", "C04_Prefix", "C04_Slice", "C04_NoSpuriousError", "C04_CtrAligned", "C04_OnePiecePerSegment",
          "C04_QueueServed", "C04_QuiescentResolved"]


def set_of(xs):
    return "{" + ", ".join(str(x) for x in xs) + "}"


def mc_cfg(c, live=False):
    t = "SPECIFICATION Spec\nCONSTANTS\n"
    t += "  Readers = %s\n  FSize = %d\n  FSeg = %d\n  Guess = %d\n  Offs = %s\n  Szs = %s\n  WithNone = %s\n  MaxEnv = %d\n" % (
        set_of(c["Readers"]), c["FSize"], c["FSeg"], c["Guess"], set_of(c["Offs"]), set_of(c["Szs"]),
        "TRUE" if c["WithNone"] else "FALSE", c["MaxEnv"])
    if live:
        t += "INVARIANT C04_QueueServed\nPROPERTY C04_Isolation\n"
    else:
        t += "SYMMETRY Sym\n" + "".join("INVARIANT %s\n" % i for i in SAFETY)
    return t + "CHECK_DEADLOCK FALSE\n"


def run(ctx):
    q = ctx.quick
    ctx.rule = ("MC: every interleaving of reads (offset,size from the constants), segment arrivals, eventual-queue turns and "
                "consumer pause/resume/stop within MaxEnv; GEN: (offset,size) classes enumerated by GenReads.tla per file; the "
                "driver runs a seeded sample of them as single reads (batches of 6 on one node) and seeded scenarios of 2..4 "
                "concurrent reads on one fresh node with a seeded delivery order and consumer schedule. A single read is "
                "non-trivial if its slice is not empty and not the whole file; a scenario is non-trivial if at least two reads "
                "overlap in time and at least one consumer paused or stopped. Distinct cases are counted by their event list.")
    ctx.assumptions += ["TLC and the CommunityModules", "harness/grid.py (SimGrid) delivers every remote call exactly once in the chosen order",
                        "byte equality of delivered data is decided by the observer in harness/immutable_driver.py (`matches`)",
                        "segment fetches themselves (share finder / fetcher / hash validation) are below this model: a fetch "
                        "either completes or, for a segment number past the end, fails (faults are C02/C03/C46)",
                        "the RangeMap shim in /verif/shims"]
    # 1. design level
    safety = [dict(Readers=["ra", "rb"], FSize=5, FSeg=2, Guess=6, Offs=[0, 3], Szs=[1, 9], WithNone=True, MaxEnv=2),
              dict(Readers=["ra", "rb"], FSize=5, FSeg=4, Guess=2, Offs=[0, 4], Szs=[9], WithNone=False, MaxEnv=1)]
    live = [dict(Readers=["ra", "rb"], FSize=3, FSeg=1, Guess=2, Offs=[0, 1], Szs=[2], WithNone=True, MaxEnv=1)]
    if not q:
        safety = [dict(Readers=["ra", "rb"], FSize=5, FSeg=2, Guess=6, Offs=[0, 1, 2, 3, 5, 7], Szs=[0, 1, 2, 3, 9], WithNone=True, MaxEnv=2),
                  dict(Readers=["ra", "rb"], FSize=7, FSeg=4, Guess=2, Offs=[0, 3, 4, 6], Szs=[1, 9], WithNone=True, MaxEnv=2),
                  dict(Readers=["ra", "rb", "rc"], FSize=5, FSeg=2, Guess=6, Offs=[0, 3], Szs=[9], WithNone=False, MaxEnv=2),
                  dict(Readers=["ra", "rb"], FSize=4, FSeg=1, Guess=1, Offs=[0, 2], Szs=[2, 9], WithNone=False, MaxEnv=3)]
        live = [dict(Readers=["ra", "rb"], FSize=5, FSeg=2, Guess=6, Offs=[0, 3], Szs=[1, 9], WithNone=False, MaxEnv=2),
                dict(Readers=["ra", "rb"], FSize=5, FSeg=4, Guess=2, Offs=[0, 4], Szs=[9], WithNone=False, MaxEnv=2)]
    for i, c in enumerate(safety):
        ctx.constants["MCDownloadReads_safety_%d" % i] = c
        ctx.mc("immutable/MCDownloadReads", mc_cfg(c), name="MC MCDownloadReads safety %d" % i, timeout=3000)
    for i, c in enumerate(live):
        ctx.constants["MCDownloadReads_liveness_%d" % i] = c
        ctx.mc("immutable/MCDownloadReads", mc_cfg(c, live=True), name="MC MCDownloadReads liveness %d" % i, timeout=3000)
    # 2. the Spec's table of read classes
    rows, r = ctx.gen("immutable/GenReads", 'SPECIFICATION Spec\nCONSTANTS\n  Tier = "%s"\nINVARIANT TableOK\n' % ("quick" if q else "thorough"))
    files = [x for x in rows if "files" in x][0]["files"]
    reads = sorted([x for x in rows if "files" not in x], key=lambda c: (c["f"], c["off"], c["size"]))
    ctx.constants["GenReads"] = {"files": files, "classes": len(reads)}
    nsingle = 48 if q else 10 ** 6
    nscen = 36 if q else 400
    out = ctx.impl("harness/immutable_driver.py", ["--mode", "reads"],
                   input_obj={"files": files, "reads": reads, "nsingle": nsingle, "nscen": nscen}, timeout=3000)
    traces = list(out["uploads"])
    # 3. GEN replay: observed slice length / number of writes against the Spec-computed ones
    for item in out["singles"]:
        traces.append(item["trace"])
        done = {e["r"]: e.get("res") for e in item["trace"]["events"] if e.get("ev") == "Done"}
        for j, ob in enumerate(item["obs"]):
            c = ob["case"]
            f = files[c["f"]]
            ctx.count("single/%d/%d/%d" % (c["f"], c["off"], c["size"]) if 0 < c["len"] < f["size"] else None)
            lt = item["trace"]["consts"].get("guess") == "lt"
            if not ob["finished"] or done.get("r%d" % j) != "ok":
                # the read ended in an error or never completed (wrong data is judged below, never excused)
                ctx.report("case:read:failed%s" % (":guess_smaller_than_real" if lt else ""),
                           "read(offset=%d, size=%s) of a %d-byte file (k=%d, maxseg=%d) did not complete (%d bytes delivered), the Spec says %d bytes" % (
                               c["off"], "None" if c["size"] < 0 else c["size"], f["size"], f["k"], f["maxseg"], ob["nbytes"], c["len"]),
                           replay={"kind": "gen-case", "file": f, "case": c, "observed": ob, "trace": item["trace"]})
                continue
            for field, want, got in (("slice_length", c["len"], ob["nbytes"]), ("writes", c["pieces"], ob["nwrites"])):
                if want != got:
                    ctx.report("case:read:%s" % field,
                               "read(offset=%d, size=%s) of a %d-byte file (k=%d, maxseg=%d): %s is %r, the Spec says %r" % (
                                   c["off"], "None" if c["size"] < 0 else c["size"], f["size"], f["k"], f["maxseg"], field, got, want),
                               replay={"kind": "gen-case", "file": f, "case": c, "observed": ob, "trace": item["trace"]})
    for tr in out["scenarios"]:
        traces.append(tr)
        evs = tr["events"]
        disturbed = any(e["ev"] in ("Pause", "Stop") for e in evs)
        firstdone = min([i for i, e in enumerate(evs) if e["ev"] == "Done"] or [len(evs)])
        concurrent = sum(1 for e in evs[:firstdone] if e["ev"] == "Read") >= 2
        ctx.count(json.dumps(evs, sort_keys=True) if (disturbed and concurrent) else None)
    for tr in out["scenarios"][:40]:
        if any(e["ev"] == "Stop" for e in tr["events"]) and any(e["ev"] == "Pause" for e in tr["events"]):
            ctx.sample({"consts": tr["consts"], "events": tr["events"][:40]}, limit=2)
    if out["singles"]:
        ctx.sample({"consts": out["singles"][0]["trace"]["consts"], "events": out["singles"][0]["trace"]["events"][:14]}, limit=3)
    ctx.notes.append("recorded events: %s" % json.dumps(fam.trace_stats(traces), sort_keys=True))
    # 4. every real execution is accepted by the Spec
    fam.validate(ctx, traces, "C04", "TRACE TraceImmutableReads (single reads + concurrent scenarios)")
