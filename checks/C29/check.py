"""C29: share containers survive a server crash.

harness/crash_driver.py runs every operation of a seeded workload on a real
StorageServer under a crash layer (one step per write(2)/truncate/rename/unlink/
create that reaches the OS), kills it after EVERY step index, restarts a new
server on the directory and records what the real code reads back.  TLC
(spec/storage/TraceShareFileDisk over ShareFileDisk.tla) rebuilds the crashed disk
from the recorded steps, recovers it with the Spec's own reading of the container
formats, checks that this equals what the real code read (binding) and decides
C29_Others, C29_LeaseOnly, C29_AllOrNothing, C29_Discard on it."""
import json, os

FAMILY = {"imm": "immutable", "mut": "mutable"}


def position(c):
    """Structural name of the crash point: which kind of step was the last to reach the disk."""
    steps = c["steps"]
    if not steps:
        return "crash_before_first_step"
    if c["crash_at"] == c["nsteps"]:
        return "operation_completed"
    s = steps[-1]
    kind = c["paths"].get(s["p"], {}).get("kind")
    if s["k"] == "write" and kind == "imm":
        if s["off"] == 8 and len(s["data"]) == 4:
            return "crash_after_lease_count"
        if s["off"] == 0:
            return "crash_after_header"
        if len(s["data"]) == 72 and s["p"] in c["fs0"] and s["off"] >= len(c["fs0"][s["p"]]):
            return "crash_between_record_and_count"
        if len(s["data"]) == 72:
            return "crash_after_lease_record_rewrite"
        return "crash_after_data_write"
    if s["k"] == "write":
        if s["off"] == 84:
            return "crash_after_data_length"
        if s["off"] == 92:
            return "crash_after_extra_lease_offset"
        return "crash_after_write"
    return "crash_after_%s" % s["k"]


def key_of(tr, l, clause):
    c = tr["consts"]
    fam, op = c["op"].split("_", 1)
    return "C29:%s:%s:%s:%s" % (FAMILY[fam], op, position(c), clause)


def what_of(tr, l, clause):
    c = tr["consts"]
    last = c["steps"][-1] if c["steps"] else None
    if last:
        last = {k: (v if k != "data" else "%d bytes" % len(v)) for k, v in last.items()}
    return ("%s: crash after step %d of %d (last step %s), restart: clause %s fails"
            % (c["op"], c["crash_at"], c["nsteps"], json.dumps(last), clause))


def run(ctx):
    ctx.rule = ("every operation of the seeded workload (immutable upload with a second share left in progress, allocate on "
                "an existing bucket, add_lease / renew_lease on immutable and mutable shares holding 1..6 leases, mutable "
                "creation, in-place write, growth of a container holding > 4 leases, truncation, deletion of a share and of a "
                "bucket) x every crash index 0..N of its recorded step sequence; one evaluation = one real crash + restart; "
                "non-trivial = the crash falls strictly inside the operation")
    ctx.assumptions += ["TLC and the CommunityModules", "a crash is a process kill: every write(2) that was issued persists, in order "
                        "(no power-loss reordering); the crash layer interposes io.FileIO under Python's own buffering, so steps are "
                        "the real system calls", "the driver's observation uses the real readers (get_buckets/read, slot_readv, get_leases)",
                        "the 32-byte magic of mutable containers is not re-checked by the Spec's recovery"]
    traces = ctx.impl("harness/crash_driver.py", [])
    # an operation or a restart that raised (no crash layer involved): the Spec has no such step - reported as it is
    for tr in [t for t in traces if "exception" in t]:
        c = tr["consts"]
        ctx.report("C29:%s:raised_%s" % (c["op"], tr["exception"].split(":")[0]),
                   "%s (scenario %d%s) raised %s at %s" % (c["op"], c["scenario"], (", restart after a crash at step %d" % c["crash_at"]) if "crash_at" in c else "",
                                                         tr["exception"], tr.get("where", "?")),
                   replay={"kind": "crash-scenario-exception", "consts": c, "exception": tr["exception"], "where": tr.get("where")})
    traces = [t for t in traces if "exception" not in t]
    ops = {}
    for tr in traces:
        c = tr["consts"]
        ops.setdefault((c["scenario"], c["op"]), c["nsteps"])
        inside = 0 < c["crash_at"] < c["nsteps"]
        ctx.count("%s#%d@%d" % (c["op"], c["scenario"], c["crash_at"]) if inside else None)
    for tr in traces:
        c = tr["consts"]
        if c["op"] == "imm_add_lease" and c["crash_at"] == 1:
            o = tr["events"][0]["obs"]
            ctx.sample({"op": c["op"], "crash_at": 1, "nsteps": c["nsteps"],
                        "steps": [{k: (v if k != "data" else "%d bytes" % len(v)) for k, v in s.items()} for s in c["steps"]],
                        "data_length_before": len(c["fs0"]["final/iA/0"]) - 12 - 72 * (len(o["final/iA/0"]["leases"])),
                        "data_length_read_after_restart": len(o["final/iA/0"]["data"])}, limit=2)
            break
    ctx.sample({"operations": ["%s: %d steps" % (k[1], v) for k, v in sorted(ops.items())][:12]})
    ctx.constants["workload"] = {"operations": len(ops), "crash_points": len(traces)}
    ctx.exhaustive = True
    by_header = os.environ.get("C29_IMM_RECOVERY", "filesize") == "header"   # only to try mutants/C29_proposed_fix.diff
    cfg = ("SPECIFICATION TraceSpec\nCONSTANT ImmByHeader = %s\nINVARIANT TraceOK\nCHECK_DEADLOCK FALSE\n"
           % ("TRUE" if by_header else "FALSE"))
    ctx.constants["ImmByHeader"] = by_header
    ctx.trace("storage/TraceShareFileDisk", traces, cfg=cfg, key_of=key_of, what_of=what_of, batch=300)
    ctx.notes.append("%d operations, %d crash points (every step index of every operation), each with a real restart" % (len(ops), len(traces)))
