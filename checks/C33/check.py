"""C33 Grid-manager certificates grant permission only when valid.

GEN: spec/net/GenGridManager enumerates key sets x certificate sets x times with
the Spec's verdicts (and checks the property clauses over the table);
harness/gridmanager_driver.py replays every case into the real
allmydata.grid_manager with real ed25519 keys and signatures."""
import json

CFG = """SPECIFICATION Spec
CONSTANTS
  Signers = {"g1", "g2", "g3"}
  Configurable = {"g1", "g2"}
  Subjects = {"self", "other"}
  Expiries = {10, 20}
  Nows = {5, 10, 15, 20, 25}
  MaxCerts = %d
INVARIANT C33_Exact
INVARIANT C33_BadCertsIrrelevant
INVARIANT C33_NoKeysPermitsAll
INVARIANT C33_ExpiryMonotone
INVARIANT C33_MoreCertsNeverRevoke
CHECK_DEADLOCK FALSE
"""


def cert_class(case, c):
    if c["tamper"] != "none":
        return "tampered_" + c["tamper"]
    if c["signer"] not in case["keys"]:
        return "unconfigured_signer"
    if c["subject"] != "self":
        return "other_server"
    return "valid_until_%d" % c["expires"]


def run(ctx):
    maxcerts = 2 if ctx.quick else 3
    ctx.constants.update(Signers=["g1", "g2", "g3"], Configurable=["g1", "g2"], Subjects=["self", "other"],
                         Expiries=[10, 20], Nows=[5, 10, 15, 20, 25], MaxCerts=maxcerts)
    ctx.rule = ("GEN: every set of <= MaxCerts certificates over signer {configured or not} x subject {this server, other} x "
                "expiry {10, 20} x tamper {none, certificate bytes, signature}, every subset of the configurable keys, "
                "evaluated at now = 5, 10, 15, 20, 25 (before / at / after each expiry); every case is replayed: real "
                "_GridManager.sign certificates, create_grid_manager_verifier built once and called at every time twice in "
                "shuffled order, validate_grid_manager_certificate for every (key, certificate) pair. One evaluation = one "
                "call of the predicate; non-trivial = at least one configured key and one certificate")
    ctx.assumptions += ["TLC and the CommunityModules",
                        "the instant now = expires is excluded from the verdict (Spec verdict 'either': both answers accepted); "
                        "the code answers 'not permitted' there (expires > now)",
                        "the driver rebinds allmydata.grid_manager.current_datetime_with_zone while signing so that expiries fall on the abstract grid",
                        "certificates whose signed content is not a well-formed certificate are not generated"]
    ctx.exhaustive = True
    cases, r = ctx.gen("net/GenGridManager", CFG % maxcerts, timeout=3000)
    out = ctx.impl("harness/gridmanager_driver.py", [], input_obj=cases)
    res = out["results"]
    if len(res) != len(cases):
        raise RuntimeError("driver returned %d results for %d cases" % (len(res), len(cases)))
    either = 0
    for case, got in zip(cases, res):
        classes = sorted(cert_class(case, c) for c in case["certs"])
        nontrivial = bool(case["keys"]) and bool(case["certs"])
        replay = {"kind": "gen-case", "case": case, "real": got, "base": out["base"], "unit_s": out["unit_s"]}
        if got["err"]:
            ctx.report("case:exception:%s" % got["err"].split(":")[0], "grid_manager raised %s on certificates %s" % (got["err"], classes), replay)
            continue
        exp = dict(zip(case["nows"], case["verdicts"]))
        seen = {}
        for n, ans in got["answers"]:
            ctx.count(json.dumps([case["keys"], case["certs"], n], sort_keys=True) if nontrivial else None)
            if n in seen and seen[n] != ans:
                ctx.report("case:predicate_not_stable", "the verifier gave two answers at the same time %d for %s" % (n, classes), replay)
            seen[n] = ans
            e = exp[n]
            if e == "either":
                either += 1
            elif e == "permit" and not ans:
                ctx.report("case:denied_but_spec_permits", "keys %s, certificates %s, now %d: Spec permits, code denies" % (case["keys"], classes, n), replay)
            elif e == "deny" and ans:
                why = sorted(set(c for c in classes if not c.startswith("valid")) | set("expired_%d" % c["expires"] for c in case["certs"] if cert_class(case, c).startswith("valid") and n > c["expires"]))
                ctx.report("case:permitted_but_spec_denies:%s" % "+".join(why),
                           "keys %s, certificates %s, now %d: Spec denies, code permits" % (case["keys"], classes, n), replay)
        if got["sig"] != case["sigok"]:
            ctx.report("case:signature_verdict", "validate_grid_manager_certificate disagrees with SigOK for %s: spec %s real %s" % (classes, case["sigok"], got["sig"]), replay)
        # bad_cert is called once per (certificate, configured key) pair that does not verify
        want_bad = 0
        for ci, c in enumerate(case["certs"]):
            for si, s in enumerate(case["signers"]):
                if s in case["keys"] and not case["sigok"][ci][si]:
                    want_bad += 1
        if case["keys"] and got["badcalls"] != want_bad:
            ctx.report("case:bad_cert_callbacks", "bad_cert called %d times, Spec's SigOK table gives %d for %s" % (got["badcalls"], want_bad, classes), replay)
        if nontrivial:
            ctx.sample({"keys": case["keys"], "certs": case["certs"], "nows": case["nows"], "spec_verdicts": case["verdicts"],
                        "real_answers": sorted(set((n, a) for n, a in got["answers"]))}, limit=3)
    ctx.notes.append("%d predicate calls fell on the instant now = expires of the last valid certificate (verdict 'either', not judged); "
                     "the code answered 'not permitted' in all of them" % either if all(
                         not a for case, got in zip(cases, res) for n, a in got["answers"] if dict(zip(case["nows"], case["verdicts"]))[n] == "either")
                     else "%d predicate calls fell on the instant now = expires (verdict 'either', not judged)" % either)
    ctx.notes.append("time grid of this run: base %s, unit %s s" % (out["base"], out["unit_s"]))

    # The place where the client consults the predicate: upload_permitted() of the server objects a real
    # StorageFarmBroker builds from announcements (first announcements and re-announcements with other
    # certificates, entries that are not certificates at all), judged by TraceServerOrder.tla (clauses C33_*).
    n, ev = (60, 14) if ctx.quick else (800, 24)
    traces = ctx.impl("harness/serverorder_driver.py", ["--cfgmode", "direct", "--n", n, "--events", ev])
    nperm = 0
    for tr in traces:
        for e in tr["events"]:
            if e["ev"] == "Permits":
                for sid, ans in e["res"].items():
                    nperm += 1
                    ctx.count(json.dumps([tr["consts"]["keys"], sid, e["now"], e["client"], len(tr["events"])]) if tr["consts"]["keys"] else None)
    captured = []
    ctx.report = lambda key, what, replay=None: captured.append((key, what, replay))
    try:
        ctx.trace("net/TraceServerOrder", traces, batch=800,
                  key_of=lambda tr, l, clause: "trace:%s:%s" % (clause, tr["events"][l - 1]["ev"]),
                  what_of=lambda tr, l, clause: "real StorageFarmBroker / server objects disagree with GridManager.tla at event %d: clause %s; keys %s, event %s"
                  % (l, clause, tr["consts"]["keys"], json.dumps(tr["events"][l - 1])[:500]))
    finally:
        del ctx.report
    other = set()
    for key, wh, replay in captured:
        if ":C33_" in key:
            ctx.report(key, wh, replay)
        else:
            other.add(key)
    if other:
        ctx.notes.append("traces cut short by clauses of the sibling property C32 (reported by its own check): %s" % sorted(other))
    ctx.notes.append("broker leg: %d scenarios, %d upload_permitted() answers of real server objects judged" % (len(traces), nperm))
