import os, sys
sys.path.insert(0, os.path.join(os.path.dirname(__file__), "..", "_shared"))
import storage_family


def run(ctx):
    storage_family.run(ctx, "C28", ["imm"], ["Inv_StateOK"], ["C28_NoOvercommit_Inv", "C28_Release", "C22_NoTrace"],
                       ["imm"], ["Allocate", "SetFree"])
