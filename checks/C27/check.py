"""C27: the share crawler covers every bucket each cycle (exactly once without a
kill in the middle of a slice); cycle numbers.

Design: exhaustive TLC of spec/storage/MCCrawler (Crawler.tla + ghost variables).
Conformance: TLC (-simulate on SimCrawler.tla) writes behaviours of Crawler.tla -
schedules of slice ends, kills, restarts, directory changes with the Spec state
after every action - and harness/crawler_driver.py forces a real ShareCrawler
through each of them in lock step."""
import json, os


def mc_cfg(consts):
    txt = "SPECIFICATION Spec\nCONSTANTS\n"
    for k, v in consts.items():
        txt += "  %s = %s\n" % (k, v)
    txt += ("INVARIANT TypeOK\nINVARIANT C27_CycleNums_Inv\nPROPERTY C27_Cover\nPROPERTY C27_Once\n"
            "PROPERTY C27_CycleNums\nCHECK_DEADLOCK FALSE\n")
    return txt


def run(ctx):
    ctx.rule = ("MC: all initial bucket sets within Universe, a slice end after any bucket or prefix, kills at every "
                "point (bounded number), restarts, bucket directories added/removed between slices. REPLAY: behaviours "
                "of Crawler.tla drawn by TLC -simulate (seeded), each forced on a real ShareCrawler subclass over the "
                "share directory of a real StorageServer with real uploads; every step compares hook calls (bucket, "
                "cycle), volatile position, state file and bucket directories with the Spec state. A behaviour is "
                "non-trivial if it contains a slice end or a kill inside a slice.")
    ctx.assumptions += ["TLC and the CommunityModules",
                        "the driver's abstraction: NP of the 1024 prefix directories are mapped to the Spec's prefixes, "
                        "all other prefix directories stay empty and are never interrupted",
                        "a kill is a BaseException raised from a crawler hook or from the time source; save_state's "
                        "write-then-rename is taken to be atomic",
                        "directory changes happen only while the crawler has yielded (it runs synchronously)"]
    if ctx.quick:
        mccs = [dict(NP=3, Universe="{11, 12, 21}", MaxBuckets=3, MaxCycles=2, MaxKills=1, MaxChanges=1)]
    else:
        mccs = [dict(NP=3, Universe="{11, 12, 13, 21, 22, 31}", MaxBuckets=6, MaxCycles=2, MaxKills=2, MaxChanges=1)]
    ctx.constants["MC"] = mccs
    cov = {}
    for n, mcc in enumerate(mccs):
        r = ctx.mc("storage/MCCrawler", mc_cfg(mcc), name="MC crawler %d" % n, timeout=3000)
        for k, v in r.coverage.items():
            cov[k] = cov.get(k, 0) + v[0]
    ctx.exhaustive = True
    for a in ("MProcessBucket", "MFinishPrefix", "MSliceEnd", "MKill", "MRestart", "MFinishCycle", "MSaveCycle", "MAddBucket", "MRemoveBucket"):
        if cov and not cov.get(a, 0):
            ctx.notes.append("MC: action %s never taken" % a)

    # behaviours of the Spec for the replay
    nbeh = 110 if ctx.quick else 2500
    simc = dict(NP=3, Universe="{11, 12, 13, 21, 22, 31}", MaxBuckets=5, MaxSteps=40 if ctx.quick else 60,
                MaxKills=2, MaxChanges=2)
    ctx.constants["SIM"] = simc
    bdir = os.path.join(ctx.workdir, "behaviours")
    os.makedirs(bdir, exist_ok=True)
    cfg = "SPECIFICATION SSpec\nCONSTANTS\n" + "".join("  %s = %s\n" % kv for kv in simc.items()) + "CHECK_DEADLOCK FALSE\n"
    ctx.sim("storage/SimCrawler", cfg, nbeh, simc["MaxSteps"] + 10, name="GEN behaviours", env={"OUT_DIR": bdir},
            workers=1, deadlock=False, timeout=3000)
    files = [f for f in os.listdir(bdir) if f.endswith(".json")]
    if len(files) < nbeh * 0.9:
        from vfw.core import MachineryError
        raise MachineryError("only %d of %d behaviours written" % (len(files), nbeh))
    res = ctx.impl("harness/crawler_driver.py", ["--np", 3], input_obj={"dir": bdir, "want_keys": True})
    states = set()
    steps = 0
    for x in res:
        acts = x["actions"]
        steps += x["steps"]
        inslice_kill = any(a == "Kill" and i > 0 and acts[i - 1] not in ("SliceEnd", "SaveCycle", "Restart", "AddBucket", "RemoveBucket", "Kill")
                           for i, a in enumerate(acts))
        nontrivial = ("SliceEnd" in acts) or inslice_kill
        ctx.count("|".join(acts) if nontrivial else None)
        for k in x["keys"]:
            states.add(tuple(k))
        if not x["ok"]:
            ctx.report(key="replay:%s" % x["kind"],
                       what="real ShareCrawler leaves the Spec behaviour at step %d: %s %s" % (x["steps"], x["kind"], json.dumps(x["detail"])[:400]),
                       replay={"kind": "spec-behaviour-replay", "driver": "harness/crawler_driver.py", "prefix_positions": x["prefixes"],
                               "divergence": x["kind"], "detail": x["detail"], "real_log": x["log"], "behaviour": x.get("behaviour")})
    for x in res[:2]:
        ctx.sample({"prefix_positions": x["prefixes"], "real_log_first_12": x["log"][:12]})
    ctx.notes.append("replayed %d behaviours, %d Spec steps executed on the real crawler, %d distinct (action, Spec state) pairs"
                     % (len(res), steps, len(states)))
