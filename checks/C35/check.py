"""C35 Merkle hash trees accept only genuine leaves.
MC (spec/util/MCHashTree): adversarial set_hashes calls on symbolic hashes, properties C35_Sound,
C35_Complete, C35_Rollback (+ Monotone, Remembers, NeededOK).
GEN (spec/util/GenHashTree): every transition of that state graph, with the Spec's verdict and
expected tree, replayed into a real IncompleteHashTree (harness/hashtree_driver.py).
TRACE (spec/util/TraceHashTree): seeded histories of real trees up to 64 leaves."""
import json

ALTS = '{"g", "f", "s", "m"}'


def mc_cfg(advmin, advmax, advcalls, dupsmall, ordmax, ordcalls):
    return ("SPECIFICATION Spec\nCONSTANTS\n  AdvMin = %d\n  AdvMax = %d\n  AdvCalls = %d\n  DupSmallMax = %d\n  OrdMax = %d\n  OrdCalls = %d\n"
            "INVARIANT C35_Sound\nINVARIANT NeededOK\nPROPERTY C35_Rollback\nPROPERTY C35_Complete\n"
            "PROPERTY C35_Monotone\nPROPERTY C35_Remembers\nCHECK_DEADLOCK FALSE\n" % (advmin, advmax, advcalls, dupsmall, ordmax, ordcalls))


def gen_cfg(minl, maxl, full, dsmall, dlarge):
    return ("SPECIFICATION Spec\nCONSTANTS\n  MinLeaves = %d\n  MaxLeaves = %d\n  FullPairsMax = %d\n  Alts = %s\n"
            "  DupsSmall = %s\n  DupsLarge = %s\nCHECK_DEADLOCK FALSE\n" % (minl, maxl, full, ALTS, dsmall, dlarge))


KEYS = {"C35_Sound": "a call the Spec rejects was accepted by the real tree",
        "C35_Complete": "a call the Spec accepts (genuine hashes) was rejected by the real tree",
        "C35_Rollback": "a rejected call changed the real tree",
        "exception_class": "exception class differs from every class the Spec allows",
        "tree_contents": "node list after an accepted call differs from the Spec's tree",
        "needed_hashes": "needed_hashes differs from the Spec",
        "unexpected_exception": "set_hashes raised something other than BadHashError/NotEnoughHashesError",
        "tree_shape": "real HashTree size/first leaf differs from the Spec",
        "genuine_tree_padding": "real HashTree (padding, pair hashes) is not the Spec's genuine tree"}


def run(ctx):
    q = ctx.quick
    ctx.rule = ("MC: every leaf x every choice genuine/forged/swapped-with-sibling/missing for the leaf and each node of its "
                "sibling chain, MaxCalls consecutive calls, trees of MinLeaves..MaxLeaves leaves, trusted root preset. "
                "GEN: one case per transition of that graph (all pairs of calls for small n; for larger n every single call and "
                "every call after an accepted first call), replayed into a real IncompleteHashTree: exception class, needed_hashes "
                "and the complete node list compared after each call. A case is non-trivial if it contains a rejected call or a second call. "
                "TRACE: seeded histories (validation orders, forged/swapped/dropped/extra hashes, with and without trusted root) "
                "of real trees with up to 64 leaves; non-trivial if some call is rejected.")
    ctx.assumptions += ["TLC and the CommunityModules", "distinct hash terms are distinct hashes (collision freedom of SHA-256d tagged hashes)",
                        "the driver's mapping between hash terms and real hashes (harness/hashtree_driver.py: World.dec/enc)"]
    # ---- MC ----
    # (AdvMin, AdvMax, AdvCalls, DupSmallMax, OrdMax, OrdCalls): adversarial calls on AdvMin..AdvMax leaves (all three ways of
    # passing the leaf hash up to DupSmallMax leaves) and validation orders of OrdCalls leaves on 1..OrdMax leaves, in one TLC run
    runs = [(1, 4, 2, 3, 8, 3)] if q else [(1, 8, 2, 4, 8, 8), (1, 4, 3, 0, 1, 1)]
    for (a, b, calls, dsm, om, oc) in runs:
        ctx.constants["MC_adv%d_%d_calls%d" % (a, b, calls)] = {"AdvMin": a, "AdvMax": b, "AdvCalls": calls, "DupSmallMax": dsm,
                                                              "OrdMax": om, "OrdCalls": oc}
        # -coverage is switched off: with the recursive operators it doubles the run time
        ctx.mc("util/MCHashTree", mc_cfg(a, b, calls, dsm, om, oc), name="MC hashtree adv n=%d..%d x%d, orders n<=%d x%d" % (a, b, calls, om, oc),
               timeout=3000, coverage=False)
    # ---- GEN + replay ----
    gmax, full = (4, 2) if q else (8, 2)
    ctx.constants["GEN"] = {"MinLeaves": 1, "MaxLeaves": gmax, "FullPairsMax": full}
    r = ctx.mc("util/GenHashTree", gen_cfg(1, gmax, full, '{"no", "same", "diff"}', '{"no"}'), name="GEN hashtree", timeout=3000,
               coverage=False)
    cases = [json.loads(json.loads(p)) for p in r.prints if p.startswith('"{')]
    ncases = sum(1 for c in cases if "calls" in c)
    # -coverage is off (see above); every printed case is one Call transition of GenHashTree
    ctx.actions["GenHashTree.Call"] = ncases
    ctx.actions["MCHashTree.Call"] = sum(r_["transitions"] for r_ in ctx.runs if r_.get("run", "").startswith("MC hashtree"))
    if ncases < 1000:
        raise RuntimeError("GEN produced only %d cases" % ncases)
    out = ctx.impl("harness/hashtree_driver.py", ["--mode", "replay"], input_obj=cases)
    st = out["stats"]
    ctx.count(None, st["cases"] - st["nontrivial"])
    for c in cases:
        if "calls" in c and (len(c["calls"]) > 1 or c["calls"][0]["res"] != ["ok"]):
            ctx.count(json.dumps(c, sort_keys=True))
    ctx.notes.append("replayed %d cases / %d set_hashes calls / %d tree-shape headers; real outcomes %s" % (
        st["cases"], st["calls"], st["headers"], st["outcomes"]))
    for c in cases:
        if "calls" in c and len(c["calls"]) == 2 and c["calls"][1]["res"] != ["ok"] and c["n"] >= 3:
            ctx.sample(c, limit=2)
            if len(ctx.samples) >= 2:
                break
    ctx.exhaustive = True
    for m in out["mismatches"]:
        ctx.report("case:%s" % m["kind"], "real hashtree vs Spec (n=%s): %s" % (m.get("n"), KEYS.get(m["kind"], m["kind"])),
                   replay={"kind": "gen-case", "case": m.get("case"), "call_index": m.get("call_index"), "real": m.get("detail")})
    # ---- TRACE ----
    nt, ne = (30, 30) if q else (300, 50)
    traces = ctx.impl("harness/hashtree_driver.py", ["--mode", "trace", "--n", nt, "--events", ne, "--maxleaves", 64])
    for tr in traces:
        rej = any(e["ev"] == "set" and e["res"] != "ok" for e in tr["events"])
        ctx.count(json.dumps(tr["events"], sort_keys=True) if rej else None)
    ctx.sample({"consts": traces[0]["consts"], "events": [{k: (v if k != "tree" else "...") for k, v in e.items() if k != "shape"}
                                                           for e in traces[0]["events"][1:6]]}, limit=3)
    ctx.trace("util/TraceHashTree", traces, batch=100 if q else 150, workers=4,
              key_of=lambda tr, l, clause: "trace:%s:%s" % (clause, tr["events"][l - 1]["ev"]),
              what_of=lambda tr, l, clause: "real IncompleteHashTree (n=%d) disagrees with HashTree.tla at event %d (%s): %s" % (
                  tr["consts"]["n"], l, tr["events"][l - 1]["ev"], clause))
