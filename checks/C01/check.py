"""C01 Immutable upload/download round-trip.

1. MC   spec/immutable/MCImmutableFile: encoder loop -> shares -> any order of block responses -> decode,
        tail trimming, range trimming, at the level of byte positions; C01_RoundTrip, C01_NoPadDelivered,
        C01_InOrder, the assertions of the code (C01_NoError) and the arithmetic lemmas of Layout.tla.
2. GEN  spec/immutable/GenLayout: the Spec enumerates (size,k,N,maxseg,version) around the literal threshold
        and the segment / k boundaries, with every number the uploader must commit to.
3. The driver uploads each tuple (plus seeded random tuples, k<=N<=16, sizes to 300 KiB) with the real
   Uploader on a SimGrid of 1..N+3 servers and downloads it under seeded random delivery orders.
4. The observed UEB / offset table / allocated size are compared with the Spec-computed ones, and every
   recorded execution is validated by TLC (TraceImmutableReads).
"""
import json, os, random, sys
sys.path.insert(0, os.path.join(os.path.dirname(__file__), "..", "_shared"))
import immutable_family as fam

INVS = ["C01_NoError", "C01_NoPadDelivered", "C01_InOrder", "C01_RoundTrip", "C01_LayoutLemmas", "C01_ShareData"]


def set_of(xs):
    return "{" + ", ".join(str(x) for x in xs) + "}"


def mc_cfg(c):
    t = "SPECIFICATION Spec\nCONSTANTS\n"
    t += "  Sizes = %s\n  Ks = %s\n  ExtraN = %s\n  MaxSegs = %s\n  PartialReads = %s\n" % (
        set_of(c["Sizes"]), set_of(c["Ks"]), set_of(c["ExtraN"]), set_of(c["MaxSegs"]), "TRUE" if c["PartialReads"] else "FALSE")
    return t + "".join("INVARIANT %s\n" % i for i in INVS)


def gen_cfg(c):
    t = "SPECIFICATION Spec\nCONSTANTS\n"
    for k in ("KsG", "ExtraG", "MaxSegsG", "V2MaxSegs", "LitSizes"):
        t += "  %s = %s\n" % (k, set_of(c[k]))
    t += "  Multiples = %d\nINVARIANT TableOK\n" % c["Multiples"]
    return t


def compare_case(ctx, case, ev):
    """GEN replay: the real uploader's numbers against the Spec-computed ones (case['d'])."""
    def bad(field, want, got):
        ctx.report("case:layout:%s" % field,
                   "upload of size=%d k=%d N=%d maxseg=%d v%d: %s is %r, Layout.tla says %r" % (
                       case["size"], case["k"], case["N"], case["maxseg"], case["version"], field, got, want),
                   replay={"kind": "gen-case", "case": case, "observed": ev})
    if ev.get("outcome") != "ok":
        return bad("upload_outcome", "ok", ev.get("what", ev.get("outcome")))
    if bool(ev.get("lit")) != bool(case["lit"]):
        return bad("literal", case["lit"], ev.get("lit"))
    if case["lit"]:
        if ev["litlen"] != case["size"] or not ev["litmatches"]:
            bad("literal_data", case["size"], ev["litlen"])
        return
    d = case["d"]
    pairs = [("segment_size", d["segment_size"], ev["ueb"]["segment_size"]),
             ("num_segments", d["num_segments"], ev["ueb"]["num_segments"]),
             ("tail_codec_params", [d["tail_padded"], case["k"], case["N"]], ev["ueb"]["tail_codec_params"]),
             ("codec_params", [d["segment_size"], case["k"], case["N"]], ev["ueb"]["codec_params"]),
             ("ueb_size", d["ueb_size"], ev["ueb_len"]),
             ("block_size", d["block_size"], ev["hdr"]["block_size"]),
             ("share_data_size", d["share_data_size"], ev["hdr"]["data_size"]),
             ("offsets", d["offsets"], {k: ev["hdr"][k] for k in d["offsets"]}),
             ("allocated", d["allocated"], ev["allocated"])]
    for f, want, got in pairs:
        if want != got:
            bad(f, want, got)


def run(ctx):
    q = ctx.quick
    ctx.rule = ("MC: every parameter tuple of the constants, every order of block responses; GEN: tuples (size,k,N,maxseg,"
                "layout version) enumerated by GenLayout.tla around the literal threshold and the multiples of the segment "
                "size (-1, 0, +1, +k-1, +k), each uploaded and downloaded by the real code on a SimGrid with a seeded number "
                "of servers (1..N+3), happy value and delivery order; plus seeded random tuples with 1<=k<=N<=16 and sizes "
                "up to 300 KiB (120 KiB in quick). A case is non-trivial if the file has at least two segments or its tail "
                "needs padding; distinct cases are counted by (size,k,N,maxseg,version).")
    ctx.assumptions += ["TLC and the CommunityModules", "harness/grid.py (SimGrid) delivers every remote call exactly once in the chosen order",
                        "zfec's k-of-N contract (property C36) - the MC model abstracts blocks to tokens",
                        "byte equality of delivered data is decided by the observer in harness/immutable_driver.py (`matches`)",
                        "the RangeMap shim in /verif/shims"]
    # 1. design level
    mcs = [dict(Sizes=list(range(1, 12)), Ks=[1, 2, 3], ExtraN=[0, 1], MaxSegs=[1, 2, 3, 4, 7], PartialReads=False)] if q else [
        dict(Sizes=list(range(1, 33)), Ks=[1, 2, 3, 4], ExtraN=[0, 1, 2], MaxSegs=[1, 2, 3, 4, 5, 7, 8, 9, 16], PartialReads=False),
        dict(Sizes=list(range(1, 10)), Ks=[1, 2, 3], ExtraN=[1], MaxSegs=[1, 2, 3, 4], PartialReads=True)]
    for i, c in enumerate(mcs):
        ctx.constants["MCImmutableFile_%d" % i] = c
        ctx.mc("immutable/MCImmutableFile", mc_cfg(c), name="MC MCImmutableFile %d" % i, timeout=3000)
    # 2. the Spec's boundary table
    gc = (dict(KsG=[1, 2, 3], ExtraG=[0, 2], MaxSegsG=[1, 2, 3, 4, 7, 8, 9, 16, 64], V2MaxSegs=[7], LitSizes=[0, 1, 54, 55], Multiples=1)
          if q else
          dict(KsG=[1, 2, 3, 4, 7, 16], ExtraG=[0, 1, 3], MaxSegsG=[1, 2, 3, 4, 7, 8, 9, 16, 64, 1000], V2MaxSegs=[3, 7, 16],
               LitSizes=[0, 1, 2, 54, 55], Multiples=2))
    ctx.constants["GenLayout"] = gc
    cases, r = ctx.gen("immutable/GenLayout", gen_cfg(gc))
    cases.sort(key=lambda c: json.dumps(c, sort_keys=True))
    total = len(cases)
    if q:
        rng = random.Random("c01-sample-%d" % ctx.seed)
        lit = [c for c in cases if c["lit"]]
        chk = [c for c in cases if not c["lit"]]
        rng.shuffle(chk)
        rng.shuffle(lit)
        cases = chk[:130] + lit[:8]
        ctx.notes.append("quick tier replays a seeded sample of %d of the %d GEN tuples; thorough replays all" % (len(cases), total))
    else:
        ctx.exhaustive = True
    nrandom = 40 if q else 700
    out = ctx.impl("harness/immutable_driver.py", ["--mode", "layout"], input_obj={"cases": cases, "nrandom": nrandom}, timeout=3000)
    traces = []
    for item in out:
        c, tr = item["case"], item["trace"]
        traces.append(tr)
        up = tr["events"][0]
        nontrivial = None
        if up.get("outcome") == "ok" and not up.get("lit"):
            tailpad = up["ueb"]["tail_codec_params"][0]
            if up["ueb"]["num_segments"] >= 2 or tailpad != (c["size"] - (up["ueb"]["num_segments"] - 1) * up["ueb"]["segment_size"]):
                nontrivial = "%d/%d/%d/%d/%d" % (c["size"], c["k"], c["N"], c["maxseg"], c.get("version", 1))
        ctx.count(nontrivial)
        if "d" in c or c.get("lit"):
            compare_case(ctx, c, up)
    for item in out[:2] + out[-2:]:
        tr = item["trace"]
        ctx.sample({"case": {k: v for k, v in item["case"].items() if k != "d"}, "upload": tr["events"][0],
                    "events_after_upload": [e for e in tr["events"][1:] if e["ev"] != "Write"][:8],
                    "writes": sum(1 for e in tr["events"] if e["ev"] == "Write")})
    ctx.notes.append("recorded events: %s" % json.dumps(fam.trace_stats(traces), sort_keys=True))
    # 3. every real execution is a behaviour of the Spec
    fam.validate(ctx, traces, "C01", "TRACE TraceImmutableReads (uploads + downloads)")
