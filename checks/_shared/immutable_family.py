"""Shared pieces of the immutable-file checks C01, C04 (and the literal clauses used by C05): trace
validation against spec/immutable/TraceImmutableReads.tla and reporting with structural keys."""
import json


def key_of(tr, l, clause):
    ev = tr["events"][l - 1]["ev"] if 0 < l <= len(tr["events"]) else "?"
    # cold reads on a node whose guessed segment size is smaller than the real one: known finding of C04
    suffix = ":guess_smaller_than_real" if tr.get("consts", {}).get("guess") == "lt" else ""
    return "trace:%s:%s%s" % (clause, ev, suffix)


def what_of(prefix):
    def f(tr, l, clause):
        c = tr["consts"]
        e = tr["events"][l - 1] if 0 < l <= len(tr["events"]) else {}
        small = {k: v for k, v in e.items() if k not in ("hdr", "ueb", "share_lens")}
        return ("%s: real execution rejected by TraceImmutableReads at event %d, clause %s; file size=%s k=%s N=%s maxseg=%s "
                "version=%s; event %s" % (prefix, l, clause, c.get("size"), c.get("k"), c.get("N"), c.get("maxseg"),
                                          c.get("version"), json.dumps(small)[:300]))
    return f


def validate(ctx, traces, prefix, name, batch=400):
    """TLC trace validation; every rejection is reported with key trace:<clause>:<event kind>."""
    return ctx.trace("immutable/TraceImmutableReads", traces, key_of=key_of, what_of=what_of(prefix), batch=batch, name=name)


def trace_stats(traces):
    n = {}
    for tr in traces:
        for e in tr["events"]:
            k = e["ev"] + ((":" + e["res"]) if e["ev"] == "Done" else "")
            n[k] = n.get(k, 0) + 1
    return n
