"""Helpers shared by the directory checks C18-C21 (spec/dir/*, harness/dir_driver.py)."""
import glob, json, os, re

from vfw import core


def parse_behaviours(prefix):
    """TLC `-simulate file=<prefix>` dumps -> list of behaviours, each a list of {var: value}."""
    out = []
    for fn in sorted(glob.glob(prefix + "_*")):
        with open(fn) as f:
            txt = f.read()
        states = []
        for block in re.split(r"^STATE_\d+ ==\s*$", txt, flags=re.M)[1:]:
            block = block.split("\n\\* <")[0]
            block = re.sub(r"^=+\s*$", "", block, flags=re.M)
            st = {}
            for part in re.split(r"^/\\ ", block, flags=re.M):
                part = part.strip()
                if not part:
                    continue
                var, val = part.split(" = ", 1)
                st[var.strip()] = core.parse_tla_value(" ".join(val.split()))
            states.append(st)
        out.append(states)
    return out


def unseq(v):
    """TLC prints an empty function as <<>>: turn empty lists into {} recursively (records only)."""
    if isinstance(v, list):
        return {} if not v else [unseq(x) for x in v]
    if isinstance(v, dict):
        return {k: unseq(x) for k, x in v.items()}
    return v


# ------------------------------------------------------------------------------------------------ C19 / C18
KINDS = '{"CHK", "LIT", "DIR2-CHK", "DIR2-LIT", "SSK", "MDMF", "DIR2", "DIR2-MDMF", "FUT", "FUTW", "FUTM"}'
# the class of inputs on which the code deviates from the intent written in DirPack.tla (reported by C18)
C18_CLASS = "ro_slot_known_writecap"


def capstr(c):
    return "none" if c["kind"] == "none" else "%s%s:%s" % (c["pfx"], c["kind"], c["lvl"])


def given_str(g):
    return "rw=%s,ro=%s" % (capstr(g["rw"]), capstr(g["ro"]))


def gen_pack_cases(ctx, invs):
    cfg = "SPECIFICATION Spec\nCONSTANTS\n  Kinds = %s\n" % KINDS + "".join("INVARIANT %s\n" % i for i in invs) + "CHECK_DEADLOCK FALSE\n"
    namefile = os.path.join(ctx.workdir, "names.ndjson")
    cases, r = ctx.gen("dir/GenDirPack", cfg, env={"NAME_FILE": namefile})
    names = [json.loads(l) for l in open(namefile) if l.strip()]
    ctx.constants["GEN"] = {"Kinds": KINDS, "cases": len(cases)}
    return cases, [n for n in names if "raw" in n], [n for n in names if "first" in n]


def compare_entry(exp, got, who):
    """-> name of the first field of the `who` view that differs from the Spec's expectation, or None"""
    x, g = exp[who], got[who]
    if x["kept"] != g["kept"]:
        return "kept"
    if x["kept"] and x["n"] != g["n"]:
        for f in ("known", "rw", "ro", "err", "mutable", "dir"):
            if x["n"][f] != g["n"][f]:
                return "node." + f
    if g["kept"] and g["md"] != "md":
        return "metadata"
    return None


def run_pack(ctx, pid, invs):
    q = ctx.quick
    c18 = pid == "C18"
    ctx.rule = ("GEN: GenDirPack enumerates every (rw slot, ro slot) combination of caps of each kind with each prefix x directory kind, "
                "with the Spec-computed node, pack status, stored ro field and unpacked nodes for write-cap and read-cap openers. "
                "Each case is replayed with seeded concrete caps / Unicode names (5 name classes x foreign-writer flag) / nested JSON "
                "metadata; real directories of 0-50 children are assembled from accepted cases. A case is non-trivial when the child is "
                "not a plain immutable file cap given once (i.e. prefixes, both slots, mutable or unknown kinds are involved)")
    ctx.assumptions += ["TLC and the CommunityModules", "the driver's table between the Spec's cap records and concrete cap strings, and its "
                        "table of (decomposed, NFC) name pairs (checked against unicodedata at start)",
                        "AES / hashing of the rw-cap superencryption are exercised but their strength is not judged",
                        "1 storage server, k=n=1"]
    cases, namecases, pairs = gen_pack_cases(ctx, invs)
    ctx.exhaustive = True
    reps = 6 if q else 40
    inp = {"cases": cases, "namecases": namecases, "pairs": pairs}
    obs = ctx.impl("harness/dir_driver.py", ["--mode", "c19cases", "--n", reps], input_obj=inp)
    for o in obs:
        c = cases[o["case"]]
        plain = c["g"]["rw"]["kind"] == "none" and c["g"]["ro"]["pfx"] == "" and c["g"]["ro"]["kind"] in ("CHK", "LIT")
        ctx.count(None if plain else "%s|%s|%s" % (given_str(c["g"]), c["dirkind"], json.dumps(o.get("name"))))
        cls = c["cls"]
        if cls == C18_CLASS and not c18:
            continue            # judged by C18 (the deviation is an authority leak, not a round-trip failure)
        where = "%s in a %s directory" % (given_str(c["g"]), c["dirkind"])

        def rep(field, what):
            key = "%s:%s:%s" % (cls, field, c["dirkind"]) if cls else "case:%s:%s" % (field, c["dirkind"])
            ctx.report(key, "%s: %s" % (where, what), replay={"kind": "gen-case", "case": c, "observed": o})
        if o["n"] != c["n"]:
            rep("node", "create_from_cap gives %s, Spec %s" % (json.dumps(o["n"]), json.dumps(c["n"])))
            if cls == C18_CLASS and o["pack"] == "ok":
                if o.get("knows_w") or (o.get("r", {}).get("n", {}).get("rw", {}).get("kind", "none") != "none"):
                    ctx.report("%s:leak:%s" % (cls, c["dirkind"]), "%s: the directory plaintext holds the child's write-cap and a read-cap holder of the "
                               "directory obtains a writeable node (reader view %s)" % (where, json.dumps(o.get("r"))),
                               replay={"kind": "gen-case", "case": c, "observed": o})
            continue
        if o["pack"] != c["pack"]:
            rep("pack", "packing answers %s, Spec %s" % (o["pack"], c["pack"]))
            continue
        if c["pack"] != "ok":
            continue
        nm = o["name"]
        exp_name = [n for n in namecases if n["raw"] == nm["raw"] and n["foreign"] == nm["foreign"]][0]
        if nm.get("stored") != exp_name["stored"]:
            rep("stored_name", "stored name %r, Spec %r" % (nm.get("stored"), exp_name["stored"]))
        elif (c["w"]["kept"] or c["r"]["kept"]) and nm.get("listed") != exp_name["listed"]:
            for who in ("w", "r"):
                o[who]["kept"] = c[who]["kept"]; o[who].setdefault("n", c[who]["n"])      # reported as a name problem, once
            rep("listed_name", "listed name %r for raw %r (foreign=%s), Spec %r" % (nm.get("listed"), nm["raw"], nm["foreign"], exp_name["listed"]))
        if not c18 and o["stored_ro"] != c["stored_ro"]:
            rep("stored_ro", "plaintext ro field %s, Spec %s" % (capstr(o["stored_ro"]), capstr(c["stored_ro"])))
        if c18 and o["knows_w"] != c["knows_w"]:
            rep("plaintext_leak", "the plaintext a read-cap holder can decrypt contains a write-cap / writekey of the child")
        for who in (("r", "w") if c18 else ("w", "r")):
            f = compare_entry(c, o, who)
            if f:
                rep("%s_view.%s" % ("writer" if who == "w" else "reader", f),
                    "%s view after unpack: %s, Spec %s" % ("write-cap" if who == "w" else "read-cap", json.dumps(o[who]), json.dumps(c[who])))
                break
    ctx.sample({"given": given_str(cases[obs[7]["case"]]["g"]), "dirkind": cases[obs[7]["case"]]["dirkind"],
                "spec": {k: cases[obs[7]["case"]][k] for k in ("pack", "stored_ro")}, "observed": {k: obs[7].get(k) for k in ("pack", "stored_ro", "name")}})

    nd = 60 if q else 800
    dirs = ctx.impl("harness/dir_driver.py", ["--mode", "c19dirs", "--n", nd], input_obj=inp)
    for b in dirs:
        ctx.count("dir|%s|%s|%d|%s" % (b["dirkind"], b["how"], b["n"], b["dircap"]) if b["n"] > 1 else None)
        if b["bad"] >= 0:
            want = cases[b["bad"]]["pack"]
            if b["status"] != want:
                ctx.report("dir:refusal:%s:%s" % (b["dirkind"], b["how"]),
                           "a %s directory (%s) given %s among %d children answered %s, Spec %s" % (
                               b["dirkind"], b["how"], given_str(cases[b["bad"]]["g"]), b["n"], b["status"], want),
                           replay={"kind": "real-directory", "batch": b, "case": cases[b["bad"]]})
            elif b["how"] == "set_children" and b.get("listed_names", {}).get("w", 0) != 0:
                ctx.report("dir:refusal_not_atomic:%s" % b["dirkind"], "a refused set_children left %d entries behind" % b["listed_names"]["w"],
                           replay={"kind": "real-directory", "batch": b})
            continue
        if b["status"] != "ok":
            ctx.report("dir:create:%s:%s" % (b["dirkind"], b["how"]), "creating a directory of accepted children failed: %s" % b["status"],
                       replay={"kind": "real-directory", "batch": b})
            continue
        for e in b["entries"]:
            c = cases[e["case"]]
            for who in (("r", "w") if c18 else ("w", "r")):
                f = compare_entry(c, e, who)
                if f:
                    ctx.report("dir:%s_view.%s:%s" % ("writer" if who == "w" else "reader", f, b["dirkind"]),
                               "real %s directory (%s, %d children): child %s listed through the %s as %s, Spec %s" % (
                                   b["dirkind"], b["how"], b["n"], given_str(c["g"]), "write-cap" if who == "w" else "read-cap",
                                   json.dumps(e[who]), json.dumps(c[who])),
                               replay={"kind": "real-directory", "entry": e, "case": c, "batch": {k: v for k, v in b.items() if k != "entries"}})
                    break
        exp_n = len(b["entries"])
        for who in ("w", "r"):
            kept = sum(1 for e in b["entries"] if cases[e["case"]][who]["kept"])
            if b["listed_names"][who] != kept:
                ctx.report("dir:entry_count:%s" % b["dirkind"], "directory lists %d names through the %s view, Spec %d" % (b["listed_names"][who], who, kept),
                           replay={"kind": "real-directory", "batch": b})
    ok = [b for b in dirs if b["status"] == "ok" and b["entries"]]
    if ok:
        ctx.sample({"real_directory": {k: v for k, v in ok[0].items() if k != "entries"}, "first_entry": ok[0]["entries"][0]})
    return cases, namecases, pairs


TREE_INVS = ["C18_Transitive", "C18_ReadOnlyNodes", "C18_WriterSees", "C18_SameObject"]


def run_trees(ctx, cases, namecases, pairs):
    q = ctx.quick
    consts = {"Kinds": KINDS, "MaxDepth": 3 if q else 4}
    ctx.constants["MC_tree"] = consts
    cfg = "SPECIFICATION Spec\nCONSTANTS\n  Kinds = %s\n  MaxDepth = %d\n" % (KINDS, consts["MaxDepth"]) + \
          "".join("INVARIANT %s\n" % i for i in TREE_INVS) + "CHECK_DEADLOCK FALSE\n"
    ctx.mc("dir/MCDirTree", cfg, name="MC DirTree (paths)")
    n = 40 if q else 400
    trees = ctx.impl("harness/dir_driver.py", ["--mode", "c18trees", "--n", n], input_obj={"cases": cases, "namecases": namecases, "pairs": pairs})
    for t in trees:
        deep = any(e["ev"] == "path" and e["via"] == "r" and len(e["steps"]) >= 2 for e in t["events"])
        ctx.count(json.dumps(t["events"], sort_keys=True) if deep else None)
    big = max(trees, key=lambda t: len(t["events"]))
    ctx.sample({"tree_root": big["consts"], "events": len(big["events"]),
                "deepest_reader_path": max((e for e in big["events"] if e["ev"] == "path" and e["via"] == "r"), key=lambda e: len(e["steps"]))})
    ctx.trace("dir/TraceDirTree", trees, batch=200,
              key_of=lambda tr, l, c: "tree:%s" % c,
              what_of=lambda tr, l, c: "real directory tree, event %d (%s): %s" % (l, json.dumps(tr["events"][l - 1])[:600], c))
