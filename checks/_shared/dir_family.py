"""Helpers shared by the directory checks C18-C21 (spec/dir/*, harness/dir_driver.py)."""
import glob, json, os, re

from vfw import core


def parse_behaviours(prefix):
    """TLC `-simulate file=<prefix>` dumps -> list of behaviours, each a list of {var: value}."""
    out = []
    for fn in sorted(glob.glob(prefix + "_*")):
        with open(fn) as f:
            txt = f.read()
        states = []
        for block in re.split(r"^STATE_\d+ ==\s*$", txt, flags=re.M)[1:]:
            block = block.split("\n\\* <")[0]
            block = re.sub(r"^=+\s*$", "", block, flags=re.M)
            st = {}
            for part in re.split(r"^/\\ ", block, flags=re.M):
                part = part.strip()
                if not part:
                    continue
                var, val = part.split(" = ", 1)
                st[var.strip()] = core.parse_tla_value(" ".join(val.split()))
            states.append(st)
        out.append(states)
    return out


def unseq(v):
    """TLC prints an empty function as <<>>: turn empty lists into {} recursively (records only)."""
    if isinstance(v, list):
        return {} if not v else [unseq(x) for x in v]
    if isinstance(v, dict):
        return {k: unseq(x) for k, x in v.items()}
    return v
