"""Shared body of C12 (concurrent writers) and C47 (successful publish is recoverable):
one Spec (spec/mutable/PublishProtocol.tla), one MC module, one trace module, one driver
(harness/mutconc_driver.py).  Each property selects its MC configurations, the driver
modes and the verdict clauses that belong to it."""
import json

INV = ["TypeOK", "C12_Detect", "C12_Survive", "C47_AckStored", "C47_Recoverable", "C47_ErrorWhenFew", "C47_Reports"]
PROPS = ["C12_TAS", "C47_SuccessGuard"]


def mc_cfg(W, configs, variant="code", inv=INV, props=PROPS):
    """configs: name of a configuration set defined in MCPublishProtocol.tla"""
    consts = dict(W=W, Configs=configs, Variant=variant)
    t = "SPECIFICATION Spec\nCONSTANTS\n W = %d\n Configs <- %s\n Variant = \"%s\"\n" % (W, configs, variant)
    for i in inv:
        t += "INVARIANT %s\n" % i
    for p in props:
        t += "PROPERTY %s\n" % p
    t += "CHECK_DEADLOCK FALSE\n"
    return t, consts


def belongs(clause, pid):
    return (pid in clause) or clause.startswith("conf_") or clause in ("unknown_event",)


def mc(ctx, name, *a, **kw):
    workers = kw.pop("workers", None)
    cfg, consts = mc_cfg(*a, **kw)
    ctx.constants[name] = consts
    return ctx.mc("mutable/MCPublishProtocol", cfg, name=name, timeout=3000, workers=workers)


def mc_expect_violation(ctx, name, wanted, *a, **kw):
    """Vacuity demonstration: a deliberately broken variant of the Spec (or a property without its
    premise) must be refuted by TLC; if it is not, the property would be vacuous -> machinery failure."""
    from vfw import core
    cfg, consts = mc_cfg(*a, **kw)
    ctx.constants[name] = consts
    r = ctx.mc("mutable/MCPublishProtocol", cfg, name=name, timeout=3000, expect_ok=False, workers=1)
    if wanted not in r.violated:
        raise core.MachineryError("%s: expected TLC to refute %s, got %r" % (name, wanted, r.violated))
    ctx.notes.append("%s: TLC refutes %s as expected (%d states)" % (name, wanted, r.states))
    return r


def nontrivial_key(tr, pid):
    ev = tr["events"]
    if pid == "C12":
        # some writer met another writer's version (failed test or surprise) or a share changed under a surveyed writer
        res = [e["res"] for e in ev if e["ev"] == "Finish"]
        failed = any(e["ev"] == "Write" and not e["fault"] and not e["wrote"] for e in ev)
        if failed or "UCWE" in res:
            return json.dumps([[e.get(k) for k in ("ev", "w", "s", "sh", "wrote", "res", "fault")] for e in ev])
        return None
    faults = [e for e in ev if e["ev"] in ("Write", "Survey") and e["fault"]]
    if faults:
        return json.dumps([[e.get(k) for k in ("ev", "w", "s", "sh", "wrote", "res", "fault")] for e in ev] + [tr["consts"]["K"], tr["consts"]["N"], tr["consts"]["op"], tr["consts"]["fmt"]])
    return None


def validate(ctx, pid, traces, label):
    other = []

    def key_of(tr, l, clause):
        return "trace:%s:%s" % (clause, tr["events"][l - 1]["ev"])

    def what_of(tr, l, clause):
        e = tr["events"][l - 1]
        return ("real publish (%s, %s, W=%d k=%d N=%d servers=%d) is not a behaviour of PublishProtocol.tla at event %d (%s): clause %s"
                % (tr["meta"].get("mode", label) + " " + tr["consts"]["op"], tr["consts"]["fmt"], len(tr["consts"]["writers"]), tr["consts"]["K"], tr["consts"]["N"],
                   len(tr["consts"]["servers"]), l, json.dumps({k: v for k, v in e.items() if k != "detail"})[:300], clause))

    for tr in traces:
        tr["consts"]["focus"] = pid
    saved = ctx.findings
    ctx.findings = []
    ctx.trace("mutable/TracePublishProtocol", traces, key_of=key_of, what_of=what_of, batch=400)
    mine = ctx.findings
    ctx.findings = saved
    for f in mine:
        clause = f["key"].split(":")[1]
        if belongs(clause, pid):
            ctx.findings.append(f)
        else:
            other.append(f["key"])
    if other:
        ctx.notes.append("%s: traces cut short by clauses of the sibling property (reported by its own check): %s" % (label, sorted(set(other))))


def drive(ctx, pid, modes):
    """modes: list of (mode, n); one driver process, one TLC trace-validation run."""
    traces = ctx.impl("harness/mutconc_driver.py", ["--mode", ",".join(m for m, n in modes), "--n", ",".join(str(n) for m, n in modes)])
    for mode, _ in modes:
        mine = [t for t in traces if t["meta"]["mode"] == mode]
        stats = {}
        for tr in mine:
            ctx.count(nontrivial_key(tr, pid))
            for e in tr["events"]:
                if e["ev"] == "Finish":
                    stats[e["res"]] = stats.get(e["res"], 0) + 1
        ctx.notes.append("%s: %d executions, results of the writers: %s" % (mode, len(mine), json.dumps(stats, sort_keys=True)))
        if mine:
            t = max(mine[len(mine) // 2:][:5], key=lambda x: len(x["events"]))
            ctx.sample({"mode": mode, "consts": {k: v for k, v in t["consts"].items() if k != "init"},
                        "events": [{k: v for k, v in e.items() if k not in ("obs", "reads", "detail", "dl_detail")} for e in t["events"]][:14]}, limit=4)
    validate(ctx, pid, traces, "+".join(m for m, n in modes))
    return traces
