"""Shared body of the storage-server checks C22, C23, C24, C25, C28: one Spec
(spec/storage/Storage.tla), one driver (harness/storage_driver.py), one trace
spec (TraceStorage.tla); each property selects its MC config, driver profiles
and the verdict clauses that belong to it."""
import json

GENERIC = ("StateOK", "unknown_event")


def belongs(clause, pid):
    return (pid in clause) or clause in GENERIC


def mc_cfg(profile, quick, invariants, properties):
    if profile == "imm":
        consts = dict(Sizes="{2}", FreeValues="{3, 5}", MaxWriters=3 if quick else 3, MaxOps=4 if quick else 7,
                      Enablers='{"wA"}', Shares='{"0", "1"}')
    else:
        consts = dict(Sizes="{2}", FreeValues="{5}", MaxWriters=0, MaxOps=2 if quick else 3,
                      Enablers='{"wA", "wB"}', Shares='{"0", "1"}')
    txt = "SPECIFICATION Spec\nCONSTANTS\n  SIsI = {\"i0\"}\n  SIsM = {\"m0\"}\n  Bytes = {0, 1}\n  RSecrets = {\"r0\", \"r1\"}\n  Conns = {\"k0\"}\n"
    txt += "  Profile = \"%s\"\n" % profile
    for k, v in consts.items():
        txt += "  %s = %s\n" % (k, v)
    for i in invariants:
        txt += "INVARIANT %s\n" % i
    for p in properties:
        txt += "PROPERTY %s\n" % p
    txt += "CHECK_DEADLOCK FALSE\n"
    return txt, consts


def run(ctx, pid, mc_profiles, invariants, properties, drv_profiles, nontrivial):
    ctx.rule = ("MC: exhaustive interleavings of the storage server's entry points over the constants listed; "
                "TRACE: seeded histories of calls on a real StorageServer behind FoolscapStorageServer, one event per "
                "Spec operator with the server's answer and the share files read back; a trace is non-trivial if it "
                "contains at least one event of the kinds: %s" % ", ".join(nontrivial))
    ctx.assumptions += ["TLC and the CommunityModules", "the RangeMap shim in /verif/shims", "the driver's observation of share files "
                        "(ShareFile/MutableShareFile readers of the code under test are used to read data and leases back)",
                        "the driver does not generate lease additions on a full disk (NoSpace after an iteration-order dependent prefix)"]
    for prof in mc_profiles:
        cfg, consts = mc_cfg(prof, ctx.quick, invariants, properties)
        ctx.constants["MC_" + prof] = consts
        ctx.mc("storage/MCStorage", cfg, name="MC storage %s" % prof, timeout=3000)
    n = 120 if ctx.quick else 1500
    ev = 25 if ctx.quick else 40
    for prof in drv_profiles:
        traces = ctx.impl("harness/storage_driver.py", ["--profile", prof, "--n", n, "--events", ev])
        for tr in traces:
            kinds = {e["ev"] + ":" + (e["res"] if isinstance(e.get("res"), str) else (e["res"].get("status", "") if isinstance(e.get("res"), dict) else ""))
                     for e in tr["events"]}
            ctx.count(json.dumps(tr["events"], sort_keys=True) if any(k.split(":")[0] in nontrivial for k in kinds) else None)
        ctx.sample({"profile": prof, "consts": traces[0]["consts"], "events": [{k: v for k, v in e.items() if k != "obs"} for e in traces[0]["events"][:8]]}, limit=3)
        other = []

        def key_of(tr, l, clause):
            return "trace:%s:%s" % (clause, tr["events"][l - 1]["ev"])

        # first pass: find rejections; those of other properties' clauses only cut the trace short
        import copy
        pending = traces
        rounds = 0
        while pending and rounds < 3:
            rounds += 1
            saved = ctx.findings
            ctx.findings = []
            rej = ctx.trace("storage/TraceStorage", pending, key_of=key_of, batch=400,
                            what_of=lambda tr, l, c: "real StorageServer disagrees with Storage.tla at event %d (%s): clause %s" % (l, tr["events"][l - 1]["ev"], c))
            mine = [f for f in ctx.findings]
            ctx.findings = saved
            keep = {}
            for (ti, l, clause) in rej:
                keep[ti] = (l, clause)
            # re-report only the clauses of this property
            for f in mine:
                clause = f["key"].split(":")[1]
                if belongs(clause, pid):
                    ctx.findings.append(f)
                else:
                    other.append(f["key"])
            pending = []
        if other:
            ctx.notes.append("traces cut short by clauses of other properties (reported by their own checks): %s" % sorted(set(other)))
