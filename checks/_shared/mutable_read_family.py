"""Shared body of C10 (reads return only published versions), C11 (version ordering) and C14 (check and
repair): one Spec (spec/mutable/MutableFile.tla), one model (MCMutableFile.tla), one trace validator
(TraceMutableFile.tla), one driver of the real code (harness/mutread_driver.py).  Each property selects
its MC configuration, the scenario family of the driver and the clauses that belong to it (constant
Focus of the trace validator); verdicts are computed by TLC only."""
import json

ALL_TAMPER = '{"prefixbad", "softbad", "bodybad", "privbad", "offsbad"}'

INV = {
    "C10": ["TypeOK", "C10_OnlyPublished", "C10_Available", "C10_NoForgery_State"],
    "C11": ["TypeOK", "C11_ReadBest", "C11_KeepLooking", "C10_Available", "C10_OnlyPublished"],
    "C14": ["TypeOK", "C14_Health", "C14_NoDiscardNewer", "C14_NoPickCompetitor", "C14_RepairPreserves",
            "C14_FailedRepairNoChange", "C10_NoForgery_State"],
}
PROP = {"C10": ["C10_NoForgery_Step", "C11_Monotone"], "C11": ["C11_Monotone"], "C14": ["C11_Monotone"]}


def mc_cfg(pid, **kw):
    base = dict(K=2, N=3, NumServers=4, MaxVers=3, MaxTamper=2, MaxDown=0, TamperClasses=ALL_TAMPER, RHs="{1}",
                Forge="TRUE", Replay="TRUE", OpKinds='{"read"}', ReadOrder='"fifo"', InitHist='"one"')
    base.update(kw)
    t = "SPECIFICATION Spec\nCONSTANTS\n" + "".join("  %s = %s\n" % kv for kv in base.items())
    t += "".join("INVARIANT %s\n" % i for i in INV[pid]) + "".join("PROPERTY %s\n" % i for i in PROP[pid])
    t += "CHECK_DEADLOCK FALSE\n"
    return t, base


def mc_runs(pid, quick):
    if pid == "C10":
        if quick:
            return [("adversary x read", dict())]
        return [("adversary x read", dict(MaxTamper=3, MaxDown=1)),
                ("adversary x read, any answer order, 5 servers", dict(NumServers=5, MaxTamper=2, ReadOrder='"any"',
                                                                      TamperClasses='{"prefixbad", "bodybad"}'))]
    if pid == "C11":
        if quick:
            return [("stale shares x answer order", dict(NumServers=5, MaxVers=2, TamperClasses="{}", Forge="FALSE",
                                                        ReadOrder='"any"'))]
        return [("stale shares x answer order x unavailable servers",
                 dict(NumServers=5, MaxVers=3, MaxDown=1, TamperClasses='{"prefixbad"}', RHs="{1, 2}", Forge="FALSE",
                      ReadOrder='"any"')),
                ("6 servers, 3 versions", dict(NumServers=6, MaxVers=3, MaxTamper=3, TamperClasses="{}", Forge="FALSE",
                                               ReadOrder='"any"'))]
    if pid == "C14":
        if quick:
            return [("competitors / newer-unrecoverable x check, repair",
                     dict(MaxVers=4, TamperClasses='{"prefixbad", "bodybad", "privbad"}', RHs="{3}", Forge="FALSE",
                          OpKinds='{"check", "repair"}', InitHist='"competitors"'))]
        return [("competitors x check, repair", dict(MaxVers=4, MaxTamper=3, TamperClasses='{"prefixbad", "softbad", "bodybad", "privbad"}',
                                                     RHs="{3}", Forge="FALSE", OpKinds='{"check", "repair"}',
                                                     InitHist='"competitors"')),
                ("history from creation x check, repair", dict(MaxVers=3, MaxTamper=2, MaxDown=1, RHs="{1, 2}", Forge="FALSE",
                                                              TamperClasses='{"prefixbad", "softbad", "bodybad", "privbad"}',
                                                              OpKinds='{"check", "repair"}'))]
    raise KeyError(pid)


NONTRIVIAL = {
    # a trace counts as non-trivial when the layout is not the plain N intact shares of one version
    "C10": "some share is tampered with, fabricated, replayed or duplicated, or a server is unavailable",
    "C11": "some publish or read saw stale shares or unavailable servers",
    "C14": "the layout is not N intact shares of a single version",
}


def nontrivial(tr):
    for e in tr["events"]:
        if e["ev"] == "Layout":
            cells = [(s, sh, x) for s, d in e["L"].items() for sh, x in d.items()]
            if any(x["cls"] != "intact" for (_, _, x) in cells):
                return True
            if len({x["v"] for (_, _, x) in cells}) != 1:
                return True
            if len(cells) != tr["consts"]["N"] or len({sh for (_, sh, _) in cells}) != len(cells):
                return True
            if len(e["up"]) != len(tr["consts"]["servers"]):
                return True
    return False


def run(ctx, pid):
    quick = ctx.quick
    ctx.rule = ("MC: exhaustive exploration of MCMutableFile (writer publishes, adversary tampers/replays/forges/deletes, "
                "servers come and go, then read / check / repair) over the listed constants.  TRACE: seeded scenarios "
                "of family %s executed on real storage servers, real publisher, ServermapUpdater, Retrieve, "
                "MutableChecker and Repairer; every servermap update and every operation result is an event judged by "
                "TLC against the ground-truth layout the harness built%s.  Non-trivial: %s."
                % (pid, "; every 8th scenario: a 9-12 kB file (blocks fetched after the survey), one share vanishes "
                        "after the survey of a read, clause C10_Available_after_vanish" if pid == "C10" else "", NONTRIVIAL[pid]))
    ctx.assumptions += [
        "TLC and the CommunityModules",
        "SHA-256d / RSA are modelled symbolically: a field is genuine for (version, share number) or it is not",
        "ground truth = the harness's own bookkeeping of which bytes it wrote where (share fields located with the "
        "offsets of the real share layout); version identity of observed servermap entries = (seqnum, root hash)",
        "observation hook on ServermapUpdater.update/_got_results (records mode, answering servers, accepted shares)",
        "a read that issues more than 200 corruption advisories or goes quiescent is recorded as 'never returns'",
        "the harness acts as a server-level adversary that keeps the share container (write enabler, leases) valid",
    ]
    for name, kw in mc_runs(pid, quick):
        cfg, consts = mc_cfg(pid, **kw)
        ctx.constants["MC " + name] = consts
        ctx.mc("mutable/MCMutableFile", cfg, name="MC %s: %s" % (pid, name), timeout=3000)
    n = {"C10": 300, "C11": 180, "C14": 220}[pid] if quick else {"C10": 1500, "C11": 800, "C14": 1200}[pid]
    traces = ctx.impl("harness/mutread_driver.py", ["--family", pid, "--n", n], timeout=3000)
    nops = 0
    for tr in traces:
        ops = [e for e in tr["events"] if e["ev"] not in ("Layout", "Map")]
        nops += len(ops)
        key = None
        if nontrivial(tr):
            key = json.dumps([e for e in tr["events"] if e["ev"] == "Layout"][0]["L"], sort_keys=True) + tr["consts"]["fmt"] + \
                json.dumps([(e["ev"], e.get("res") if not isinstance(e.get("res"), dict) else e["res"].get("kind")) for e in ops])
        ctx.count(key)
    ctx.notes.append("%d traces, %d operations of the real code (download_best_version / check / repair / overwrite), "
                     "%d servermap updates observed" % (len(traces), nops,
                                                        sum(1 for tr in traces for e in tr["events"] if e["ev"] == "Map")))
    kinds = {}
    for tr in traces:
        for e in tr["events"]:
            if e["ev"] in ("Read", "Check", "Repair", "Publish"):
                r = e["res"]["kind"] if isinstance(e["res"], dict) else e["res"]
                k = "%s:%s" % (e["ev"], r)
                if e["ev"] == "Check":
                    k += ":verify=%s:healthy=%s" % (e["verify"], e["healthy"])
                kinds[k] = kinds.get(k, 0) + 1
    ctx.notes.append("outcomes observed: %s" % json.dumps(kinds, sort_keys=True))
    for tr in traces[:2]:
        ctx.sample({"consts": tr["consts"], "events": tr["events"][:6]}, limit=2)
    cfg = ("SPECIFICATION TraceSpec\nCONSTANTS\n  K = 2\n  N = 3\n  Focus = \"%s\"\nINVARIANT TraceOK\nCHECK_DEADLOCK FALSE\n" % pid)

    def key_of(tr, l, clause):
        return "trace:%s:%s" % (clause, tr["events"][l - 1]["ev"])

    def what_of(tr, l, clause):
        e = tr["events"][l - 1]
        return ("real code disagrees with MutableFile.tla at event %d (%s) of a %s %s trace: clause %s; observed %s" %
                (l, e["ev"], tr["consts"]["fmt"], tr["consts"]["scen"], clause,
                 json.dumps({k: v for k, v in e.items() if k not in ("L", "how")})[:300]))
    # the encoding (K, N) is a constant of the Spec: one TLC run per encoding that occurs in the batch
    groups = {}
    for tr in traces:
        groups.setdefault((tr["consts"]["K"], tr["consts"]["N"]), []).append(tr)
    for (kk, nn), grp in sorted(groups.items()):
        gcfg_t = cfg.replace("K = 2", "K = %d" % kk).replace("N = 3", "N = %d" % nn)
        ctx.trace("mutable/TraceMutableFile", grp, cfg=gcfg_t, key_of=key_of, what_of=what_of, batch=250,
                  name="TRACE mutable/TraceMutableFile (K=%d, N=%d)" % (kk, nn))
    if not quick:
        # replay of Spec-enumerated layouts: every layout within MaxMods slots of the plain placement
        gcfg = ("SPECIFICATION Spec\nCONSTANTS\n  K = 2\n  N = 3\n  MaxMods = 2\n"
                "  GenClasses = {\"prefixbad\", \"softbad\", \"bodybad\", \"privbad\", \"chainbad\"}\nCHECK_DEADLOCK FALSE\n")
        cases, r = ctx.gen("mutable/GenMutableLayouts", gcfg, timeout=1200)
        if pid == "C11":
            # version ordering: only stale, missing and duplicated intact shares
            cases = [c for c in cases if all(x["cls"] in ("intact", "absent") for d in c["L"].values() for x in d.values())]
        ctx.constants["GEN layouts"] = {"servers": 4, "MaxMods": 2, "cases": len(cases)}
        gtraces = ctx.impl("harness/mutread_driver.py", ["--family", pid], input_obj=cases, timeout=6000)
        for tr in gtraces:
            ctx.count(json.dumps([e for e in tr["events"] if e["ev"] == "Layout"][0]["L"], sort_keys=True) + tr["consts"]["fmt"] + "gen")
        ctx.notes.append("GEN: %d layouts enumerated by GenMutableLayouts.tla (all layouts within 2 slots of the plain placement of "
                         "the newest version on 4 servers) replayed on real servers" % len(gtraces))
        ctx.trace("mutable/TraceMutableFile", gtraces, cfg=cfg, key_of=key_of, what_of=what_of, batch=250)
