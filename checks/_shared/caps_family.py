"""Shared body of the capability checks C15, C16, C43 (spec/caps/Caps.tla, harness/caps_driver.py)."""
import json, os, sys

HERE = os.path.dirname(os.path.abspath(__file__))
sys.path.insert(0, os.path.join(HERE, "..", "..", "harness"))
import caps_lib as L  # noqa: E402  (pure helpers: character classes and the comparison function)

ALL_KINDS = L.KINDS
JVM = {"_JAVA_OPTIONS": "-XX:TieredStopAtLevel=1"}   # short runs: skip the slow C2 warm-up


def tla_set(xs):
    return "{" + ", ".join('"%s"' % x for x in xs) + "}"


def report_mismatches(ctx, mismatches, how):
    """mismatches: [{key, what, count, examples}] from the driver (comparison of Spec-expected and observed)."""
    for m in mismatches:
        for i in range(m["count"]):
            ctx.report(m["key"], m["what"], replay={"kind": "gen-case", "examples": m["examples"], "how": how})


def run_c15(ctx):
    ctx.rule = ("GEN: TLC enumerates, for every cap kind, the canonical token sequence and all single token-level mutations "
                "(replace / insert / delete over the token alphabet of Caps.tla; thorough: also double mutations) in the plain "
                "and the deep-immutable context, with the result of Caps!Parse (kind or Unknown, error class, canonical "
                "re-serialisation); each abstract string is concretised with seeded random characters of the stated classes and "
                "replayed into uri.from_string / to_string (+ re-parse, ==, hash). FUZZ: seeded concrete strings (caps serialised "
                "by the real constructors, character-level mutations, suffixes, random strings) are abstracted exactly and judged "
                "by TLC (CapsEval). A case is non-trivial if the Spec or the code accepts it as a known kind, or a known prefix is present.")
    ctx.assumptions += ["TLC and the CommunityModules", "the character classes of harness/caps_lib.py (concretise/abstract) match the "
                        "classes named in Caps.tla", "MDMF extension fields are read as ':' followed by anything (the statement's allowance)",
                        "SHA-256 based derivations are outside this check (C17)"]
    if ctx.quick:
        full = ["CHK-Verifier", "LIT", "SSK", "MDMF-RO"]
        kinds2 = []
        nconc, nfuzz = 3, 2000
    else:
        full = ALL_KINDS
        kinds2 = ["CHK-Verifier", "MDMF", "LIT"]
        nconc, nfuzz = 3, 40000
    ctx.constants["GEN"] = {"FullKinds": full, "Kinds2": kinds2, "concretisations_per_case": nconc, "fuzz_strings": nfuzz}
    cfg = ("SPECIFICATION Spec\nCONSTANT FullKinds = %s\nCONSTANT Kinds2 = %s\n" % (tla_set(full), tla_set(kinds2)) +
           "".join("INVARIANT %s\n" % i for i in ("C15_Decidable", "C15_Canonical", "C15_RoundTrip", "C15_NeverMisread", "C15_Context")))
    tokf = os.path.join(ctx.workdir, "tokens.json")
    env = dict(JVM)
    env["TOK_FILE"] = tokf
    cases, r = ctx.gen("caps/CapsGen15", cfg, env=env, timeout=3000)
    tokens = json.load(open(tokf))
    ctx.exhaustive = True
    res = ctx.impl("harness/caps_driver.py", ["c15"], input_obj={"cases": cases, "tokens": tokens, "nconc": nconc, "fuzz": nfuzz})
    for c in cases:
        nt = c["kind"] != "Unknown" or any(t.startswith("P:") for t in c["toks"])
        for _ in range(nconc):
            ctx.count("|".join(c["toks"]) + ("/deep" if c["deep"] else "") if nt else None)
    for s in res["samples"]:
        ctx.sample(s, limit=3)
    report_mismatches(ctx, res["mismatches"], "allmydata.uri.from_string(string.encode('latin-1'), deep_immutable=deep)")
    # FUZZ: Spec judges the concrete strings the driver produced
    fuzz = res["fuzz"]
    inp = os.path.join(ctx.workdir, "fuzz_in.json")
    with open(inp, "w") as f:
        json.dump([{"chars": x["chars"], "deep": x["deep"]} for x in fuzz], f)
    env2 = dict(JVM)
    env2["IN_FILE"] = inp
    exp, r2 = ctx.gen("caps/CapsEval", "SPECIFICATION Spec\n", outname="fuzz_expected.ndjson", env=env2, timeout=3000)
    if len(exp) != len(fuzz):
        raise RuntimeError("CapsEval returned %d results for %d strings" % (len(exp), len(fuzz)))
    nacc = 0
    for x, e in zip(fuzz, exp):
        pieces = [L.dec(p) for p in x["pieces"]]
        s = b"".join(pieces)
        if any(c in ("Bl", "Bx", "Dg") for c in x["chars"]):
            raise RuntimeError("abstraction produced an imprecise character: %r" % x["chars"])
        known = e["kind"] != "Unknown" or x["obs"].get("kind") != "Unknown"
        nacc += known
        ctx.count(("fuzz:" + L.enc(s)) if (known or x["chars"][:1] and x["chars"][0][:2] in ("P:", "ro", "im", "F:")) else None)
        found = L.compare_parse(e, x["obs"], pieces)
        if x.get("objkind"):
            if e["kind"] != x["objkind"] or e["lo"] != 1 or e["hi"] != len(pieces):
                found.append(("C15:%s:serialize_outside_grammar" % x["objkind"],
                              "to_string() of a %s object built by the constructor is not a canonical %s string for the Spec (%s)" % (
                                  x["objkind"], x["objkind"], e["kind"])))
            if not x.get("obj_equal"):
                found.append(("C15:%s:roundtrip_unequal" % x["objkind"], "from_string(obj.to_string()) != obj for a constructed %s" % x["objkind"]))
        for key, what in found:
            ctx.report(key, what, replay={"kind": "fuzz-string", "origin": x["origin"], "string_latin1": L.enc(s), "deep_immutable": x["deep"],
                                          "abstract": x["chars"], "spec_expected": e, "observed": x["obs"],
                                          "how": "allmydata.uri.from_string(string.encode('latin-1'), deep_immutable=deep)"})
    ctx.sample({"fuzz_string": L.enc(b"".join(L.dec(p) for p in fuzz[1]["pieces"])), "origin": fuzz[1]["origin"], "spec": exp[1]["kind"],
                "code": fuzz[1]["obs"].get("kind")}, limit=4)
    ctx.notes.append("GEN cases %d x %d concretisations; fuzz strings %d of which %d accepted by Spec or code; kinds observed: %s" % (
        len(cases), nconc, len(fuzz), nacc, json.dumps(res["observed_kinds"], sort_keys=True)))


def run_c16(ctx):
    ctx.rule = ("GEN: TLC enumerates (a) every cap kind with the kinds, flags and field terms of its read-only / verify derivations "
                "along the chain, (b) every kind, the future-format test caps and an unknown format under every alleged prefix x "
                "deep-immutable context x write/read slot with Parse's verdict and what NodeMaker.create_from_cap must build, "
                "(c) UnknownNode(rw, ro, deep) over cap strings of every shape; all with the Spec's expected outcome. Each case is "
                "concretised with seeded random secrets and replayed into uri.from_string, get_readonly, get_verify_cap, is_readonly, "
                "is_mutable, get_storage_index, to_string, NodeMaker.create_from_cap and UnknownNode; derived field values are computed "
                "from the terms by the independent interpreter; derived strings are searched for the stronger secret. All cases non-trivial.")
    ctx.assumptions += ["TLC and the CommunityModules", "harness/caps_lib.py character classes; harness/kd_interp.py (hashlib only)",
                        "Grid server seeds: lease seed = write-enabler seed = server id"]
    unkinds = ["SSK", "CHK"] if ctx.quick else ["SSK", "SSK-RO", "CHK", "SSK-Verifier", "DIR2", "LIT", "MDMF-RO", "DIR2-CHK"]
    cfg = "SPECIFICATION Spec\nCONSTANT UNKinds = %s\n" % tla_set(unkinds) + "".join("INVARIANT %s\n" % i for i in (
        "C16_Lattice", "C16_SameSI", "C16_NoLeak", "C16_Derivations", "C16_Alleged", "C16_UnknownNode"))
    tokf = os.path.join(ctx.workdir, "tokens.json")
    kdf = os.path.join(ctx.workdir, "kd.json")
    env = dict(JVM)
    env.update({"TOK_FILE": tokf, "KD_FILE": kdf})
    cases, r = ctx.gen("caps/CapsGen16", cfg, env=env, timeout=3000)
    ctx.exhaustive = True
    nconc = 2 if ctx.quick else 25
    ctx.constants["GEN"] = {"cases": len(cases), "concretisations_per_case": nconc, "UNKinds": unkinds}
    res = ctx.impl("harness/caps_driver.py", ["c16"], input_obj={"cases": cases, "tokens": json.load(open(tokf)),
                                                                 "kd": json.load(open(kdf)), "nconc": nconc})
    for c in cases:
        ctx.count(json.dumps({k: c[k] for k in c if k in ("t", "toks", "deep", "slots", "rw_toks", "ro_toks", "rw_given", "ro_given")}, sort_keys=True), nconc)
    for s_ in res["samples"]:
        ctx.sample(s_, limit=3)
    ctx.notes.append("replayed: %s" % json.dumps(res["stats"]))
    report_mismatches(ctx, res["mismatches"], "see examples: uri.from_string(string.encode('latin-1')) then the named method; "
                      "UnknownNode(rw, ro, deep_immutable=deep); NodeMaker.create_from_cap(writecap, readcap, deep_immutable=deep)")


def run_c43(ctx):
    ctx.rule = ("GEN: TLC enumerates pairs of caps of every kind (identical; differing in exactly one field, for each field; "
                "same fields under a different kind of the same shape), the same pairs as nodes built by two independent "
                "NodeMakers (ImmutableFileNode, CiphertextFileNode, LiteralFileNode, MutableFileNode, DirectoryNode, UnknownNode), "
                "pairs of UnknownNodes holding future-format caps (prefix x slot x context x same/different payload) and pairs of "
                "different sorts (cap / node / bytes / None), each with the Spec's verdict Eq = equal serialisation, Ne = ~Eq, "
                "Eq => equal hash. The adapter builds both objects independently from seeded concretisations and evaluates ==, != "
                "(both orders, and reflexively) and hash(). All cases non-trivial.")
    ctx.assumptions += ["TLC and the CommunityModules", "harness/caps_lib.py character classes", "nodes are built through "
                        "NodeMaker.create_from_cap of two fresh NodeMakers (no cache sharing)"]
    cfg = "SPECIFICATION Spec\n" + "".join("INVARIANT %s\n" % i for i in (
        "C43_NeIsNegation", "C43_HashFollowsEq", "C43_EqIffSameString", "C43_NodesLikeCaps"))
    tokf = os.path.join(ctx.workdir, "tokens.json")
    env = dict(JVM)
    env["TOK_FILE"] = tokf
    cases, r = ctx.gen("caps/CapsGen43", cfg, env=env, timeout=3000)
    ctx.exhaustive = True
    nconc = 3 if ctx.quick else 60
    ctx.constants["GEN"] = {"cases": len(cases), "concretisations_per_case": nconc}
    res = ctx.impl("harness/caps_driver.py", ["c43"], input_obj={"cases": cases, "tokens": json.load(open(tokf)), "nconc": nconc})
    for c in cases:
        ctx.count(json.dumps({k: v for k, v in c.items() if k != "v"}, sort_keys=True), nconc)
    for s_ in res["samples"]:
        ctx.sample(s_, limit=4)
    ctx.notes.append("pairs compared per class: %s" % json.dumps(res["stats"], sort_keys=True))
    report_mismatches(ctx, res["mismatches"], "build a and b independently (uri.from_string / NodeMaker.create_from_cap of two NodeMakers) "
                      "from the latin-1 strings in the example and evaluate a == b, a != b, hash(a) == hash(b)")
