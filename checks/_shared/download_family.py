"""Shared body of the immutable-download checks C46, C02, C03.

One Spec (spec/immutable/Download.tla, contract in DownloadContract.tla, adversary bounds in MCDownload.tla),
one driver of the real downloader (harness/download_driver.py), one trace spec (TraceDownload.tla).  Each
property selects its MC configurations, its driver profile and the verdict clauses that belong to it."""
import json, os

GENERIC = ("harness_duplicate_read", "harness_unknown_read", "harness_unresolved_mismatch", "unknown_event")

INVARIANTS = ["TypeOK", "C46_QuiescentResolved", "C46_NoOrphanRequest", "C02_OnlyGenuine", "C02_PrefixOnError",
              "C03_ErrorClass", "C03_Available", "C03_NoFalseSuccess", "C03_Contract"]


def cfg(readers=1, numsegs=2, inst="P_spread3", order="Order3", full=True, clear=True, maxout=10, validate="AllChecks",
        ranges="R_all2", dmg=0, dvals=("forged",), faulty=0, fmodes=("dyhb",), badsegs=0, absent=0, liars=0, tamper=0,
        liveness=True, invariants=INVARIANTS, k=2, stop="none"):
    def s(xs):
        return "{" + ", ".join('"%s"' % x for x in xs) + "}"
    consts = dict(Readers=s(["r%d" % i for i in range(1, readers + 1)]), NumSegs=numsegs, K=k, FullLayer=str(full).upper(),
                  ClearOnFailure=str(clear).upper(), MaxOutstanding=maxout, MaxDamage=dmg, DamageVals=s(dvals),
                  MaxFaulty=faulty, FaultModes=s(fmodes), MaxBadSegs=badsegs, MaxAbsent=absent, MaxLiars=liars, MaxTamperC=tamper,
                  StopMode='"%s"' % stop)
    subst = dict(Inst=inst, ServerOrder=order, Validate=validate, ReadRanges=ranges, Advs="MCAdvs")
    txt = "SPECIFICATION Spec\nCONSTANTS\n"
    for k_, v in consts.items():
        txt += "  %s = %s\n" % (k_, v)
    for k_, v in subst.items():
        txt += "  %s <- %s\n" % (k_, v)
    for i in invariants:
        txt += "INVARIANT %s\n" % i
    if liveness:
        txt += "PROPERTY C46_Terminates\n"
    txt += "CHECK_DEADLOCK FALSE\n"
    shown = dict(consts)
    shown.update(subst)
    return txt, shown


def mc_holds(ctx, name, **kw):
    """A configuration in which every property of the Spec must hold (violations are findings)."""
    if os.environ.get("DL_SKIP_MC"):      # development aid (mutant trials): conformance part only
        return None
    txt, shown = cfg(**kw)
    ctx.constants[name] = shown
    return ctx.mc("immutable/MCDownload", txt, name=name, timeout=3000)


def mc_demo(ctx, name, expect, **kw):
    """A deliberately weakened configuration (the code-shaped rule for _active_segment, or a validation switched
    off): TLC must find the named violation, otherwise the model does not exercise that mechanism."""
    from vfw.core import MachineryError
    if os.environ.get("DL_SKIP_MC"):
        return None
    txt, shown = cfg(**kw)
    ctx.constants[name] = shown
    r = ctx.mc("immutable/MCDownload", txt, name=name, expect_ok=False, timeout=3000)
    hit = [v for v in r.violated if v in expect]
    if not hit:
        raise MachineryError("demonstration run %s: expected one of %s to be violated, TLC reported %s" % (name, expect, r.violated))
    ctx.notes.append("demonstration %s: TLC reports %s violated after %d states (expected: the weakened rule is not safe)" % (
        name, hit[0], r.states))
    return r


def belongs(clause, pid):
    return clause.startswith(pid) or clause in GENERIC


def classify(tr):
    """Non-trivial case key of a trace (None = trivial: one undamaged, fault-free, successful read)."""
    c = tr["consts"]
    evs = tr["events"]
    res = [e["res"] for e in evs if e["ev"] == "ReadResult"]
    plain = (not c["damage"] and not c["liars"] and all(m == "ok" for m in c["modes"].values()) and not c["late"]
             and not c["badsegs"] and len(res) <= 1)
    if plain:
        return None
    return json.dumps([c["k"], c["n"], c["numsegs"], c["instances"], c["damage"], c["modes"], c["late"], c["badsegs"], c["liars"],
                       [[e.get("r"), e.get("off"), e.get("len"), e.get("res")] for e in evs if e["ev"] in ("Read", "ReadResult")]],
                      sort_keys=True)


def run_traces(ctx, pid, profile, n, extra_args=()):
    traces = ctx.impl("harness/download_driver.py", ["--profile", profile, "--n", n] + list(extra_args), timeout=3000)
    stats = {"reads": 0, "ok": 0, "errors": {}, "wrong_chunks": 0, "hung_traces": 0, "livelocks": 0, "zombie_loops": 0,
             "strict_ge_k": 0, "tampered_uploads": 0, "lying": 0}
    for tr in traces:
        ctx.count(classify(tr))
        c = tr["consts"]
        if len({p[1] for p in c["strict"]}) >= c["k"]:
            stats["strict_ge_k"] += 1
        stats["tampered_uploads"] += 1 if c["badsegs"] else 0
        stats["lying"] += 1 if c["liars"] else 0
        for e in tr["events"]:
            if e["ev"] == "ReadResult":
                stats["reads"] += 1
                if e["res"] == "ok":
                    stats["ok"] += 1
                else:
                    stats["errors"][e["res"]] = stats["errors"].get(e["res"], 0) + 1
            elif e["ev"] == "Deliver" and not e["matches"]:
                stats["wrong_chunks"] += 1
            elif e["ev"] == "Quiescent" and e["unresolved"] and e["outstanding"] == 0:
                stats["hung_traces"] += 1
            elif e["ev"] == "Livelock":
                stats["livelocks" if e["unresolved"] else "zombie_loops"] += 1
    ctx.notes.append("driver profile %s: %d scenarios, %s" % (profile, len(traces), json.dumps(stats, sort_keys=True)))
    for tr in traces[:3]:
        ctx.sample({"consts": {k: v for k, v in tr["consts"].items() if k in ("k", "n", "numsegs", "size", "segsize", "strict", "usable",
                                                                              "badsegs", "damage", "modes", "late", "liars")},
                    "events": [{k: v for k, v in e.items() if k != "msg"} for e in tr["events"][:12]]}, limit=3)

    def key_of(tr, l, clause):
        ev = tr["events"][l - 1]
        key = "trace:%s" % clause
        if ev["ev"] == "Livelock":
            key += ":" + ev.get("cause", "?")
        return key

    def what_of(tr, l, clause):
        ev = tr["events"][l - 1]
        return "real downloader violates %s at event %d (%s) of scenario %s/%s: %s" % (
            clause, l, ev["ev"], profile, tr["consts"].get("scenario"), json.dumps({k: v for k, v in ev.items() if k != "msg"}))

    saved = ctx.findings
    ctx.findings = []
    ctx.trace("immutable/TraceDownload", traces, key_of=key_of, what_of=what_of, batch=1000,
              cfg="SPECIFICATION TraceSpec\nCONSTANTS\n  ClearOnFailure = FALSE\nINVARIANT TraceOK\nCHECK_DEADLOCK FALSE\n")
    mine = ctx.findings
    ctx.findings = saved
    other = {}
    for f in mine:
        clause = f["key"].split(":")[1]
        if belongs(clause, pid):
            ctx.findings.append(f)
        else:
            other[f["key"]] = other.get(f["key"], 0) + f.get("count", 1)
            if f.get("replay") and os.path.exists(f["replay"]):     # not this property's artefact
                os.remove(f["replay"])
    if other:
        ctx.notes.append("traces cut short by clauses of other properties (reported by their own checks): %s" % json.dumps(other, sort_keys=True))
    return traces, stats


COMMON_ASSUMPTIONS = [
    "TLC and the CommunityModules; the RangeMap shim in /verif/shims",
    "SHA-256d / AES behave as collision-free / injective on the generated data (symbolic in the Spec, real in the runs)",
    "the observer's byte comparison of delivered data with the uploaded plaintext (`matches`) and of share files with "
    "their pristine copies (`strict`, `usable`) is the ground truth",
    "SimGrid's ControlledRef stands for foolscap: calls are answered or failed one at a time in the order the seeded "
    "scheduler chooses; eventual-sends drain completely between two deliveries (as foolscap.eventual does)",
    "a lost call is outside 'servers that answer': its server is excluded from `strict`, and Quiescent claims nothing "
    "while a lost call has not failed yet",
]
