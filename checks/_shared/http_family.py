"""Shared body of the HTTP storage API checks C30 (authorization) and C31 (HTTP and direct access agree):
one Spec (spec/storage/StorageHTTP.tla over Storage.tla), one MC module (MCStorageHTTP), one trace module
(TraceStorageHTTP), one driver (harness/http_driver.py, modes authz / twin).  Each property selects its MC
properties, its driver mode and the verdict clauses that belong to it."""
import json

GENERIC = ("StateOK", "unknown_event", "harness_twin_not_comparable")
EPS = '{"version", "alloc", "write", "abort", "ilist", "iread", "lease", "icorrupt", "rtw", "mread", "mlist", "mcorrupt"}'


def belongs(clause, pid):
    return clause.startswith(pid + "_") or clause in GENERIC


def mc_cfg(consts, invariants, properties):
    txt = "SPECIFICATION Spec\nCONSTANTS\n"
    for k, v in consts.items():
        txt += "  %s = %s\n" % (k, v)
    txt += "VIEW View\n"
    for i in invariants:
        txt += "INVARIANT %s\n" % i
    for p in properties:
        txt += "PROPERTY %s\n" % p
    txt += "CHECK_DEADLOCK FALSE\n"
    return txt


def run_mc(ctx, name, consts, invariants, properties, timeout=3000):
    ctx.constants[name] = consts
    return ctx.mc("storage/MCStorageHTTP", mc_cfg(consts, invariants, properties), name=name, timeout=timeout)


def validate(ctx, pid, traces, what):
    """TRACE mode; clauses of the sibling property only cut a trace short and are noted."""
    other = []

    def key_of(tr, l, clause):
        ev = tr["events"][l - 1]
        return "trace:%s:%s" % (clause, ev["r"]["ep"] if "r" in ev else ev["ev"])

    captured = []
    ctx.report = lambda key, what, replay=None: captured.append((key, what, replay))
    try:
        ctx.trace("storage/TraceStorageHTTP", traces, key_of=key_of, batch=400, workers=4,
                  what_of=lambda tr, l, c: "%s: event %d (%s) is not a step of StorageHTTP.tla: clause %s" % (
                      what, l, json.dumps({k: v for k, v in tr["events"][l - 1].items() if k not in ("obs", "d", "obsall", "dobsall")})[:600], c))
    finally:
        del ctx.report          # back to the class's method
    for key, wh, replay in captured:
        if belongs(key.split(":")[1], pid):
            ctx.report(key, wh, replay)
        else:
            other.append(key)
    if other:
        ctx.notes.append("traces cut short by clauses of the sibling property (reported by its own check): %s" % sorted(set(other)))
