"""C32 Servers are ordered consistently and upload permission is enforced.

MC: spec/net/MCServerOrder (decision table of ServerOrder.tla, which uses
GridManager.tla for the upload filter).  TRACE: two real StorageFarmBrokers per
scenario (harness/serverorder_driver.py) validated by spec/net/TraceServerOrder."""
import json

MC_CFG = """SPECIFICATION Spec
CONSTANTS
  Servers = %(Servers)s
  Nows = %(Nows)s
  Kinds = %(Kinds)s
INVARIANT C32_Permutation
INVARIANT C32_PreferredFirst
INVARIANT C32_RankAscending
INVARIANT C32_UploadFilter
INVARIANT C32_UploadIsSubsequence
CHECK_DEADLOCK FALSE
"""


def key_of(tr, l, clause):
    e = tr["events"][l - 1]
    if clause == "C32_PreferredFirst" and tr["consts"]["cfgmode"] == "cfg":
        # preferred peers that came from tahoe.cfg text through StorageClientConfig.from_node_config
        return "C32:preferred_peers_from_tahoe_cfg_ignored"
    return "trace:%s:%s:%s" % (clause, e["ev"], tr["consts"]["cfgmode"])


def what_of(tr, l, clause):
    e = tr["events"][l - 1]
    c = tr["consts"]
    return ("real StorageFarmBroker disagrees with ServerOrder.tla at event %d: clause %s; config via %s, preferred %s, keys %s, "
            "event %s" % (l, clause, c["cfgmode"], c["preferred"], c["keys"], json.dumps(e)))


def run(ctx):
    ctx.rule = ("MC: every connected set, preferred set, rank permutation of 3 servers x configured keys {none, g1} x one certificate "
                "kind per server x time x for_upload. TRACE: seeded scenarios of 3-7 servers (real ed25519 ids, explicit "
                "permutation-seed or key-derived, 0-2 grid-manager certificates each: valid / expired / other subject / "
                "unconfigured signer / tampered), 0-3 preferred peers, 0-2 configured grid-manager keys; two brokers built "
                "independently (directly or through tahoe.cfg text), servers inserted in different orders through "
                "_got_announcement + connection callbacks (A) and test_add_rref (B), connects/disconnects, queries with "
                "random storage indexes at times before/between/after the expiries, for_upload or not, single or to both "
                "clients; rank = position of SHA1(psi + seed) computed by the driver without permute_server_hash. "
                "One evaluation = one get_servers_for_psi call; non-trivial = for_upload with keys configured, or preferred "
                "peers present among the connected servers")
    ctx.assumptions += ["TLC and the CommunityModules",
                        "rank is supplied by the driver's independent SHA1 computation (trusted interpreter); seeds are taken "
                        "from the announcements the driver wrote, not from the server objects",
                        "queries are never made at the instants now = expires (excluded from the verdict in C33)",
                        "connection state is set through NativeStorageServer._got_versioned_service / _lost (A) and "
                        "test_add_rref / _lost (B) with stub remote references; no network",
                        "the mutable publisher's own filter (Publish.update_goal -> server.upload_permitted()) is exercised only "
                        "through upload_permitted() of the same server objects, not through a publish"]
    if ctx.quick:
        consts = dict(Servers='{"s1", "s2", "s3"}', Nows="{5, 15}", Kinds='{"valid10", "tampered"}')
    else:
        consts = dict(Servers='{"s1", "s2", "s3"}', Nows="{5, 15, 25}",
                      Kinds='{"nocert", "valid20", "valid10", "othersubject", "unconfigured", "tampered"}')
    ctx.constants["MC"] = consts
    ctx.mc("net/MCServerOrder", MC_CFG % consts, name="MC server order", timeout=3000)

    plan = [("direct", 90, 12), ("cfg", 60, 12)] if ctx.quick else [("direct", 1500, 20), ("cfg", 800, 20)]
    alltraces = []
    for mode, n, ev in plan:
        traces = ctx.impl("harness/serverorder_driver.py", ["--cfgmode", mode, "--n", n, "--events", ev])
        for tr in traces:
            c = tr["consts"]
            for e in tr["events"]:
                if e["ev"] not in ("Query", "QueryBoth"):
                    continue
                for res in ([e["res"]] if e["ev"] == "Query" else [e["resA"], e["resB"]]):
                    nontrivial = (e["forUpload"] and c["keys"]) or any(s in c["preferred"] for s in res)
                    ctx.count(json.dumps([c["servers"], c["keys"], c["preferred"], c["certs"], e["psi"], e["forUpload"], e["now"], res], sort_keys=True)
                              if nontrivial else None)
        ctx.sample({"cfgmode": mode, "consts": traces[0]["consts"], "events": [e for e in traces[0]["events"] if e["ev"] in ("Query", "QueryBoth", "Permits")][:3]}, limit=2)
        alltraces += traces
    # clauses of the sibling property C33 (Permits events) only cut a trace short here; C33's own check reports them
    captured = []
    ctx.report = lambda key, what, replay=None: captured.append((key, what, replay))
    try:
        ctx.trace("net/TraceServerOrder", alltraces, key_of=key_of, what_of=what_of, batch=800)
    finally:
        del ctx.report
    other = set()
    for key, wh, replay in captured:
        if ":C33_" in key:
            other.add(key)
        else:
            ctx.report(key, wh, replay)
    if other:
        ctx.notes.append("traces cut short by clauses of the sibling property C33 (reported by its own check): %s" % sorted(other))
    nann = sum(1 for tr in alltraces for e in tr["events"] if e["ev"] == "Announce")
    nrej = sum(1 for tr in alltraces for e in tr["events"] if e["ev"] == "Announce" and not e["accepted"])
    ctx.notes.append("%d announcements handed to the brokers (first announcements and re-announcements with other certificates), %d refused by the broker" % (nann, nrej))
