"""C26: garbage collection deletes exactly the expired shares.

GEN: spec/storage/GenExpirer (Expirer.tla) enumerates every configuration class with
shares of both types carrying every subset of renewal times around that
configuration's threshold, with the result of one crawl cycle; the C26 clauses
are invariants of that table.  harness/expirer_driver.py replays every case on a
real StorageServer (built through the client's tahoe.cfg parsing) and a real
LeaseCheckingCrawler cycle with pinned clocks."""
import calendar, json

NOW = 2000000000          # 2033-05-18T03:33:20Z, below 2^31
DAY = 86400


def mode_class(cfg):
    if cfg["mode"] == "age":
        return "age_mode_no_override" if cfg["override"] == -1 else "age_mode_override"
    return "cutoff_mode"


def run(ctx):
    ctx.rule = ("GEN: all configurations {enabled} x {age without override, age with each override, each cutoff date} x "
                "{share-type subsets}; per configuration, shares of both types with every subset (1..MaxLeases leases, plus "
                "lease-less containers in cases of their own) of renewal times {threshold-b, threshold+a, Now-Old, Now-Recent}. "
                "One evaluation = one share put through a real crawl cycle; non-trivial = the share carries leases on both "
                "sides of the threshold, or the configuration would delete it.")
    ctx.assumptions += ["TLC and the CommunityModules", "clocks pinned by rebinding `time` in allmydata.storage.expirer/crawler/lease and "
                        "the reactor clock used by StorageServer", "lease-less containers are crafted by the driver (no API produces them)",
                        "one share per bucket; a cycle runs in one slice because time does not advance"]
    if ctx.quick:
        consts = dict(Now=NOW, Duration=31 * DAY, Overrides="{%d, %d, %d}" % (0, 10 * DAY, 60 * DAY),
                      Cutoffs="{%d, %d}" % (calendar.timegm((2033, 4, 28, 0, 0, 0)), calendar.timegm((2033, 2, 7, 0, 0, 0))),
                      Before="{1}", After="{0, 1}", Old=400 * DAY, Recent=DAY, MaxLeases=5, Shift=2 * DAY)
    else:
        consts = dict(Now=NOW, Duration=31 * DAY, Overrides="{%d, %d, %d, %d, %d}" % (0, DAY, 10 * DAY, 31 * DAY, 60 * DAY),
                      Cutoffs="{%d, %d, %d}" % (calendar.timegm((2033, 5, 18, 0, 0, 0)), calendar.timegm((2033, 4, 28, 0, 0, 0)),
                                                calendar.timegm((2033, 2, 7, 0, 0, 0))),
                      Before="{1, 3600}", After="{0, 1, 3600}", Old=400 * DAY, Recent=600, MaxLeases=5, Shift=2 * DAY)
    ctx.constants["GEN"] = consts
    cfg = "SPECIFICATION Spec\nCONSTANTS\n" + "".join("  %s = %s\n" % kv for kv in consts.items())
    cfg += "INVARIANT C26_Disabled_OK\nINVARIANT C26_Exact_OK\nINVARIANT C26_ValidLeasesKept_OK\nINVARIANT C26_NonTrivial\nINVARIANT C26_CyclesCompose\n"
    cases, r = ctx.gen("storage/GenExpirer", cfg, timeout=3000)
    ctx.exhaustive = True
    out = ctx.impl("harness/expirer_driver.py", [], input_obj={"now": NOW, "cases": cases, "shift": consts["Shift"]})
    if len(out) != len(cases):
        from vfw.core import MachineryError
        raise MachineryError("driver returned %d results for %d cases" % (len(out), len(cases)))
    for n, (c, o) in enumerate(zip(cases, out)):
        cfg_ = c["cfg"]
        cls = mode_class(cfg_)
        if c["zero"]:
            cls = "zero_leases"
        b = o["built"]
        rep = {"kind": "gen-case", "driver": "harness/expirer_driver.py", "cfg": cfg_, "zero": c["zero"], "now": NOW}
        if (b["enabled"], b["mode"], b["override"], b["cutoff"], b["types"]) != (cfg_["enabled"], cfg_["mode"], cfg_["override"], cfg_["cutoff"], sorted(cfg_["types"])):
            ctx.report("C26:config:tahoe_cfg_parsed_differently", "expire.* options %r gave a crawler configured as %r" % (cfg_, b), dict(rep, built=b))
            continue
        if o.get("crash"):
            ctx.report("C26:%s:cycle_raised_%s" % (cls, o["crash"].split(":")[0]), "the crawl cycle raised %s (cfg %s): shares that the Spec deletes stay, "
                       "leases it removes stay" % (o["crash"], json.dumps(cfg_)), dict(rep, crash=o["crash"]))
            continue
        if o["finished_cycle"] != 0:
            ctx.report("C26:%s:cycle_not_finished" % cls, "the crawl cycle did not finish in one slice with pinned time", rep)
            continue
        exp = {s["id"]: sorted(s["leases"]) for s in c["expect"]["survivors"]}
        real = {s["id"]: s["leases"] for s in o["survivors"]}
        # shares whose leases carry one cancel secret: anything between the Spec's `valid` and `leases` is right
        shared = {s["id"] for s in c["shares"] if s.get("sec") == "shared"}
        for s_ in c["expect"]["survivors"]:
            if s_["id"] in shared and s_["id"] in real and set(s_["valid"]) <= set(real[s_["id"]]) <= set(s_["leases"]):
                exp[s_["id"]] = sorted(real[s_["id"]])
        th = c["threshold"]
        for s in c["shares"]:
            both = any(x < th for x in s["leases"]) and any(x >= th for x in s["leases"])
            ctx.count(json.dumps([cfg_, s["type"], s.get("sec"), sorted(s["leases"])], sort_keys=True) if (both or s["id"] not in exp) else None)
            e, g = s["id"] in exp, s["id"] in real
            r1 = dict(rep, share={"type": s["type"], "lease_renewal_times": sorted(s["leases"]), "cancel_secrets": s.get("sec")}, threshold=th,
                      spec_survives=e, real_survives=g, spec_leases_after=exp.get(s["id"]), real_leases_after=real.get(s["id"]))
            if e and not g:
                what = "share_deleted_while_disabled" if not cfg_["enabled"] else "kept_share_deleted"
                ctx.report("C26:%s:%s" % (cls, what), "a %s share with leases renewed at %s (threshold %d, cfg %s) was deleted; the Spec keeps it"
                           % (s["type"], sorted(s["leases"]), th, json.dumps(cfg_)), r1)
            elif g and not e:
                what = "share_kept" if c["zero"] else "expired_share_kept"
                ctx.report("C26:%s:%s" % (cls, what), "a %s share whose leases %s are all expired (threshold %d, cfg %s) survived a full cycle; the Spec deletes it"
                           % (s["type"], sorted(s["leases"]), th, json.dumps(cfg_)), r1)
            elif e and exp[s["id"]] != real[s["id"]]:
                lost = sorted(set(exp[s["id"]]) - set(real[s["id"]]))
                what = "valid_lease_removed" if lost else "expired_lease_kept"
                ctx.report("C26:%s:%s" % (cls, what), "surviving %s share: leases after the cycle %s, Spec %s (cfg %s)"
                           % (s["type"], real[s["id"]], exp[s["id"]], json.dumps(cfg_)), r1)
        if not c["zero"]:
            for k in ("examined", "configured", "actual"):
                if o[k] != c["expect"][k]:
                    d = "low" if (o[k] or 0) < c["expect"][k] else "high"
                    ctx.report("C26:%s:counter_%s_%s" % (cls, k, d), "space-recovered %s-shares = %r, Spec %d (cfg %s)"
                               % (k, o[k], c["expect"][k], json.dumps(cfg_)), dict(rep, counter=k, real=o[k], spec=c["expect"][k]))
        # the second cycle (Shift later, every other case after a restart), over containers that now have cancelled lease slots
        o2 = o["second"]
        how = "after_restart" if o2["restarted"] else "same_process"
        if o2["crash"]:
            ctx.report("C26:%s:second_cycle_raised_%s" % (cls, o2["crash"].split(":")[0]), "the second crawl cycle (%s) raised %s (cfg %s)"
                       % (how, o2["crash"], json.dumps(cfg_)), dict(rep, crash=o2["crash"], second=how))
        elif o2["finished_cycle"] != 1:
            ctx.report("C26:%s:second_cycle_not_finished" % cls, "the second crawl cycle (%s) did not finish: last-cycle-finished = %r" % (how, o2["finished_cycle"]),
                       dict(rep, second=how))
        else:
            exp2 = {s["id"]: sorted(s["leases"]) for s in c["expect2"]["survivors"]}
            real2 = {s["id"]: s["leases"] for s in o2["survivors"]}
            for s_ in c["expect2"]["survivors"]:
                if s_["id"] in shared and s_["id"] in real2 and set(s_["valid"]) <= set(real2[s_["id"]]) <= set(s_["leases"]):
                    exp2[s_["id"]] = sorted(real2[s_["id"]])
            for s in c["shares"]:
                e, g = s["id"] in exp2, s["id"] in real2
                if e == g and (not e or exp2[s["id"]] == real2[s["id"]]):
                    continue
                what = ("kept_share_deleted" if e and not g else "expired_share_kept" if g and not e else
                        "valid_lease_removed" if set(exp2[s["id"]]) - set(real2[s["id"]]) else "expired_lease_kept")
                if c["zero"] and what == "expired_share_kept":
                    what = "share_kept"
                ctx.report("C26:%s:%s" % (cls, what) if c["zero"] else "C26:%s:second_cycle_%s" % (cls, what),
                           "second cycle (%s, %d s later): %s share with leases %s: after the cycle %s, Spec %s (cfg %s)"
                           % (how, consts["Shift"], s["type"], sorted(s["leases"]), real2.get(s["id"]), exp2.get(s["id"]), json.dumps(cfg_)),
                           dict(rep, share={"type": s["type"], "lease_renewal_times": sorted(s["leases"])}, second=how,
                                spec_leases_after=exp2.get(s["id"]), real_leases_after=real2.get(s["id"])))
        if n in (5, 41):
            ctx.sample({"cfg": cfg_, "zero": c["zero"], "threshold": th, "n_shares": len(c["shares"]),
                        "spec_survivors": len(exp), "real_survivors": len(real),
                        "counters_real": {k: o[k] for k in ("examined", "configured", "actual")}})
    ctx.notes.append("%d configurations (cases), %d shares crawled by a real LeaseCheckingCrawler" % (len(cases), sum(len(c["shares"]) for c in cases)))
