"""C19  Directory contents round-trip; immutable directories refuse mutable / write-capable children.

Spec: spec/dir/DirPack.tla (uri.from_string constraints, NodeMaker.create_from_cap, UnknownNode, pack / unpack of one
entry, name normalisation) and spec/dir/GenDirPack.tla (every way of handing one child of every kind to a mutable or
immutable directory; C19 clauses as invariants over all cases; the cases with the Spec's expected node / pack status /
stored read-cap field / unpacked nodes are written out).
Conformance: (1) every case, several seeded concretisations, through nodemaker.create_from_cap, dirnode.pack_children
(or _pack_normalized_children for names stored un-normalised by a foreign writer) and DirectoryNode._unpack_contents
of real SDMF / MDMF / immutable directory nodes; (2) real directories of up to 50 children assembled from accepted
cases (plus one child that must be refused), created with create_new_mutable_directory / create_immutable_directory /
set_children and listed through write-cap and read-cap.
"""
import json, os, sys

sys.path.insert(0, os.path.join(os.path.dirname(__file__), "..", "_shared"))
import dir_family

INVS = ["C19_RoundTrip", "C19_ImmRefuses", "C19_ImmYieldsImmutable", "C19_TestCapsDropped", "C19_ErrorNodesRefused"]


def run(ctx):
    dir_family.run_pack(ctx, "C19", INVS)
