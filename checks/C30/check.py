import os, sys, json
sys.path.insert(0, os.path.join(os.path.dirname(__file__), "..", "_shared"))
import http_family as hf

INV = ["Inv_StateOK"]
PROPS = ["C30_NoAuthNoData", "C30_NoAuthNoEffect", "C30_BadSecretsNoEffect", "C30_UploadSecret", "C30_WriteEnabler"]


def run(ctx):
    ctx.rule = ("MC: every route x every class of Authorization header (none, wrong, malformed, non-UTF-8, correct, duplicated in both orders) x "
                "every class of X-Tahoe-Authorization header per required kind (missing, malformed, each value, duplicated in both orders, "
                "value + malformed, non-UTF-8, unknown kind, kind not required) x small arguments, from an empty server and from a server with "
                "an upload in progress, a completed share and a mutable share, and interleavings (2 deep quick, 3 deep thorough) of a reduced class set. "
                "TRACE: raw requests against the real HTTPServer resource through StubTreq: the whole route x header-class product once per run "
                "(concretised at random: several spellings per class) plus seeded requests, interleaved with a legitimate client's uploads, "
                "read-test-writes and timeouts; recorded per request: status, abstracted body, whether the raw body contains stored share bytes, "
                "whether the digest of the whole storage directory changed, the share files read back. A request is non-trivial if its "
                "Authorization header is not the single correct one, or it was answered 400/401/500.")
    ctx.assumptions += ["TLC and the CommunityModules", "the RangeMap shim in /verif/shims", "treq.testing.StubTreq and twisted.web as transport (header order per name preserved)",
                        "the driver's concretisation of header classes (harness/http_driver.py auth_value/secret_header) and its observation functions",
                        "lenient base64 spellings of a *correct* secret (embedded junk characters are ignored by b64decode) are not generated: observed accepted, excluded from the verdict",
                        "storage indexes are used consistently (immutable routes on immutable storage indexes, mutable on mutable)"]
    consts = dict(Shares='{"0", "1"}', Size=2, MaxOps=1, USecrets='{"u1", "u2"}', Enablers='{"wA", "wB"}', AuthMode='"all"', HdrMode='"full"', Eps=hf.EPS)
    hf.run_mc(ctx, "MC_classes", consts, INV, PROPS)
    hf.run_mc(ctx, "MC_interleavings_depth2", dict(consts, MaxOps=2, AuthMode='"few"', HdrMode='"few"'), INV, PROPS)
    if not ctx.quick:
        c2 = dict(consts, MaxOps=3, AuthMode='"few"', HdrMode='"few"')
        hf.run_mc(ctx, "MC_interleavings", c2, INV, PROPS, timeout=3000)
        c3 = dict(consts, MaxOps=2)
        hf.run_mc(ctx, "MC_classes_depth2", c3, INV, PROPS, timeout=3000)
    n = 80 if ctx.quick else 600
    ev = 26 if ctx.quick else 45
    traces = ctx.impl("harness/http_driver.py", ["--mode", "authz", "--n", n, "--events", ev])
    nreq = 0
    for tr in traces:
        for e in tr["events"]:
            if e["ev"] != "Req":
                continue
            nreq += 1
            r = e["r"]
            nontrivial = r["auth"] != ["correct"] or e["status"] in (400, 401, 500)
            ctx.count(json.dumps([r["ep"], r["auth"], [[h["kind"], h["val"]] for h in r["hdrs"]], e["status"]]) if nontrivial else None)
    shown = 0
    for e in traces[0]["events"]:
        if e["ev"] == "Req" and (e["r"]["auth"] != ["correct"] or e["status"] in (400, 401)) and shown < 4:
            ctx.sample({k: v for k, v in e.items() if k != "obs"}, limit=4)
            shown += 1
    ctx.notes.append("%d traces, %d requests executed against the real HTTPServer" % (len(traces), nreq))
    hf.validate(ctx, "C30", traces, "real HTTPServer")
