"""C37 Byte-range bookkeeping is exact (allmydata.util.spans.Spans / DataSpans).
Spec: spec/util/Spans.tla (Spans = set of naturals, DataSpans = partial map offset -> byte).
GEN (spec/util/GenSpans): every operation from every reachable abstract value over small offsets (VIEW), and every
history up to a small depth, each with what the Spec expects the object to show; replayed into the real classes.
TRACE (spec/util/TraceSpans): seeded histories of 200 operations over offsets 0..300 on five named objects."""
import json

ALLBIN = '{"union", "diff", "inter", "iadd", "isub"}'


def cfg(maxoff, kinds, depth, binops, view):
    return ("SPECIFICATION Spec\nCONSTANTS\n  MaxOff = %d\n  Kinds = %s\n  MaxDepth = %d\n  BinOps = %s\n%s"
            "INVARIANT C37_RunsDenoteSet\nINVARIANT C37_ChunksDenoteMap\nPROPERTY C37_LaterWritesWin\nCHECK_DEADLOCK FALSE\n"
            % (maxoff, kinds, depth, binops, "VIEW View\n" if view else ""))


def run(ctx):
    q = ctx.quick
    ctx.rule = ("GEN: state machine over Spans.tla; with VIEW = abstract value, one case per (reachable value, operation) reached by a witness "
                "history: Spans add/remove of every range, A+X, A-X, A&X, A+=X, A-=X for every operand set X; DataSpans add (two byte patterns), "
                "remove, pop of every range; without VIEW every history up to MaxDepth over offsets 0..2. After every operation the real object "
                "must show the Spec's iteration list / chunks, len, bool, each, the truth of `range in spans` / the result of get for every range, "
                "get_spans, and the value returned by pop; earlier operands must keep their value. A case is non-trivial if it has >= 2 operations. "
                "TRACE: seeded histories of 200 operations (offsets 0..300, lengths 1..80, biased to the edges of existing spans) on Spans A,B,C and "
                "DataSpans D,E incl. copy constructors and operators between objects; every event is a step of the Spec or the trace is rejected; "
                "non-trivial = contains an operator between two objects or a pop that returned data.")
    ctx.assumptions += ["TLC and the CommunityModules", "the API's asserted domain: start >= 0, length > 0",
                        "canonical run lists are unique (checked as C37_RunsDenoteSet / C37_ChunksDenoteMap on every GEN state)"]
    runs = ([("S-graph", 4, '{"S"}', 8, ALLBIN, True), ("D-graph", 3, '{"D"}', 8, ALLBIN, True),
             ("histories", 2, '{"S", "D"}', 2, ALLBIN, False)] if q else
            [("S-graph", 5, '{"S"}', 8, ALLBIN, True), ("D-graph", 4, '{"D"}', 8, ALLBIN, True),
             ("histories", 2, '{"S", "D"}', 3, '{"inter", "diff"}', False)])
    cases = []
    for (name, maxoff, kinds, depth, binops, view) in runs:
        ctx.constants["GEN_" + name] = {"MaxOff": maxoff, "Kinds": kinds, "MaxDepth": depth, "BinOps": binops, "VIEW": view}
        r = ctx.mc("util/GenSpans", cfg(maxoff, kinds, depth, binops, view), name="GEN spans %s" % name, timeout=3000, coverage=False)
        got = [json.loads(json.loads(p)) for p in r.prints if p.startswith('"{')]
        if sum(1 for c in got if "ops" in c) < 100:
            raise RuntimeError("GEN %s produced too few cases" % name)
        cases += got
    # -coverage is off (it multiplies the run time); every printed case is one transition: count them per operation
    for c in cases:
        if "ops" in c:
            nm = "GenSpans.%s.%s" % ("SOps" if c["kind"] == "S" else "DOps", c["ops"][-1]["op"])
            ctx.actions[nm] = ctx.actions.get(nm, 0) + 1
    out = ctx.impl("harness/spans_driver.py", ["--mode", "replay"], input_obj=cases)
    st = out["stats"]
    for c in cases:
        if "ops" in c:
            ctx.count(json.dumps([{k: v for k, v in o.items() if k != "obs"} for o in c["ops"]], sort_keys=True) if len(c["ops"]) >= 2 else None)
    ctx.notes.append("replayed %d cases (%d Spans, %d DataSpans), %d operations" % (st["cases"], st["S"], st["D"], st["ops"]))
    for c in cases:
        if "ops" in c and len(c["ops"]) >= 3:
            ctx.sample({"kind": c["kind"], "ops": [{k: (v if k != "obs" else {f: v[f] for f in v if f in ("iter", "chunks", "len")}) for k, v in o.items()}
                                                   for o in c["ops"]]}, limit=2)
            if len(ctx.samples) >= 2:
                break
    ctx.exhaustive = True
    for m in out["mismatches"]:
        ctx.report("case:%s" % m["kind"], "real spans class disagrees with Spans.tla: %s" % m["kind"],
                   replay={"kind": "gen-case", "case": m.get("case"), "op_index": m.get("op_index"), "detail": m.get("detail")})
    # ---- the same cases at scale: one abstract offset = `unit` concrete bytes ----
    plan = [(3, 7), (4096, 9), (65536 + 1, 25), (1 << 19, 40), (1 << 20, 60)] if q else [(3, 1), (4096, 2), (65537, 4), (1 << 19, 6), (1 << 20, 8), (3 << 20, 30)]
    ctx.constants["SCALED"] = [{"unit": u, "every_nth_case": st_} for u, st_ in plan]
    tot = 0
    # the plain cases with the byte values mapped so that one of the two patterns becomes 0xff: payloads that begin with the largest byte value
    plan = [(1, 3 if q else 1, 190), (2, 5 if q else 1, 190), (2, 5 if q else 1, 189), (3, 7 if q else 2, 190)] + [(u, st_, 0) for (u, st_) in plan]
    for unit, stride, xor in plan:
        o2 = ctx.impl("harness/spans_driver.py", ["--mode", "scaled", "--unit", unit, "--stride", stride, "--xor", xor], input_obj=cases, timeout=3000)
        tot += o2["stats"]["ops"]
        for i in range(o2["stats"]["cases"]):
            ctx.count("scaled:%d:%d" % (unit, i))
        for m in o2["mismatches"]:
            ctx.report("case:%s" % m["kind"], "real spans class disagrees with Spans.tla when one abstract offset stands for %d bytes: %s" % (unit, m["kind"]),
                       replay={"kind": "gen-case-scaled", "unit": unit, "case": m.get("case"), "op_index": m.get("op_index"), "detail": m.get("detail")})
    ctx.notes.append("replay at scale: units %s bytes per abstract offset (and byte values complemented for the first two), %d operations" % ([p_[0] for p_ in plan], tot))
    # ---- TRACE ----
    nt = 20 if q else 300
    traces = ctx.impl("harness/spans_driver.py", ["--mode", "trace", "--n", nt, "--events", 200, "--maxoff", 300])
    for tr in traces:
        nontriv = any(e["ev"] in ("s_bin", "s_iop") or (e["ev"] == "d_pop" and e["res"]["present"]) for e in tr["events"])
        ctx.count(json.dumps(tr["events"], sort_keys=True)[:20000] if nontriv else None)
    ctx.sample({"events": [{k: v for k, v in e.items() if k not in ("others",)} for e in traces[0]["events"][5:11]]}, limit=3)
    ctx.trace("util/TraceSpans", traces, batch=50, workers=4,
              key_of=lambda tr, l, clause: "trace:%s:%s" % (clause, tr["events"][l - 1]["ev"]),
              what_of=lambda tr, l, clause: "real spans object disagrees with Spans.tla at event %d (%s): %s" % (
                  l, json.dumps({k: v for k, v in tr["events"][l - 1].items() if k not in ("obs", "others", "obs_a", "obs_b")})[:300], clause))
