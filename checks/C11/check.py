import os, sys
sys.path.insert(0, os.path.join(os.path.dirname(__file__), "..", "_shared"))
import mutable_read_family


def run(ctx):
    mutable_read_family.run(ctx, "C11")
