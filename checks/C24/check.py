import os, sys
sys.path.insert(0, os.path.join(os.path.dirname(__file__), "..", "_shared"))
import storage_family
import http_family as hf


def run(ctx):
    storage_family.run(ctx, "C24", ["mut"], ["Inv_StateOK"], ["C24_Atomic"],
                       ["mut"], ["RTW", "CraftEnabler"])
    # the same request through the HTTP client classes, with responses lost after the server handled the request:
    # the caller is told nothing (failure) or the answer of the one application, never the answer of a second one
    n, ev = (25, 30) if ctx.quick else (200, 45)
    traces = ctx.impl("harness/http_driver.py", ["--mode", "twin", "--focus", "rtw", "--n", n, "--events", ev])
    lost = 0
    for tr in traces:
        tr.pop("tree", None)
        for e in tr["events"]:
            if e["ev"] in ("Req", "ReqLost") and e["r"]["ep"] == "rtw":
                lost += e["ev"] == "ReqLost"
                ctx.count("http:" + repr((e["ev"], e["r"]["si"], e["r"]["a"]["tw"], e["status"], e["body"])) if e["status"] == 200 else None)
    ctx.notes.append("HTTP leg: %d histories of read-test-write requests through StorageClientMutables, %d of them with the response "
                     "lost after the server handled the request" % (len(traces), lost))
    hf.validate(ctx, "C24", traces, "read-test-write through the HTTP client")
