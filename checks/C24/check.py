import os, sys
sys.path.insert(0, os.path.join(os.path.dirname(__file__), "..", "_shared"))
import storage_family


def run(ctx):
    storage_family.run(ctx, "C24", ["mut"], ["Inv_StateOK"], ["C24_Atomic"],
                       ["mut"], ["RTW", "CraftEnabler"])
