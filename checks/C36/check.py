"""C36 Erasure coding recovers from any k blocks (incl. the padded tail segment).
Spec: spec/util/Codec.tla (sizes, padding, piece layout, abstract MDS code); spec/util/GenCodec.tla enumerates the
cases, checks the property on a symbolic file (C36_AnyKDecode, C36_SegmentsTile, C36_Sizes) and prints each case with
the Spec's sizes / layout; harness/codec_driver.py replays them through the real Encoder padding path, CRSEncoder,
CRSDecoder and DownloadNode._calculate_sizes/_decode_blocks."""
import json, os, random


def cfg(maxn, permmax, mults):
    return ("SPECIFICATION Spec\nCONSTANTS\n  MaxN = %d\n  PermMaxN = %d\n  SegMults = %s\n"
            "INVARIANT C36_AnyKDecode\nINVARIANT C36_SegmentsTile\nINVARIANT C36_Sizes\nCHECK_DEADLOCK FALSE\n" % (maxn, permmax, mults))


def extra_cases(seed, count, nmax):
    """Seeded parameter choices for large N (inputs of the Spec, not expectations)."""
    rng = random.Random("c36-extra-%d" % seed)
    out = []
    for i in range(count):
        n = rng.choice([rng.randint(8, 32), rng.randint(33, 64), rng.randint(8, nmax), nmax])
        k = rng.choice([1, 2, 3, rng.randint(1, n), rng.randint(1, n), n, max(1, n - 1)])
        m = rng.choice([1, 1, 2, 3])
        seg = k * m
        size = rng.choice([rng.randint(1, seg), seg, rng.randint(seg, 2 * seg + 1), rng.randint(1, 3 * seg)])
        size = min(size, 900)
        order = rng.sample(range(n), k)
        if rng.random() < 0.3:
            order.sort()
        out.append({"k": k, "n": n, "order": order, "seg": seg, "size": max(1, size)})
    return out


def run(ctx):
    q = ctx.quick
    maxn, permmax, mults = (7, 4, "{2}") if q else (7, 4, "{1, 2, 3}")
    nextra, nmax = (30, 64) if q else (400, 256)
    ctx.rule = ("GEN: all 1 <= k <= N <= %d; every presentation order of every k-subset for N <= %d, ascending (and, for subsets containing "
                "block 0, descending) order of every k-subset above; segment size k*m for m in %s; every file size 1..seg+k+1 (every tail residue, "
                "one or two segments); bare-codec cases with every data size 1..2k+1; plus %d seeded (k, N, subset, sizes) up to N = %d. "
                "Each case is replayed with seeded non-zero content through Encoder._encode_segment/_gather_data, CRSEncoder, "
                "DownloadNode._calculate_sizes/_decode_blocks, CRSDecoder. A case is non-trivial if the tail segment needs padding or the "
                "blocks used are not the k primary blocks in ascending order." % (maxn, permmax, mults, nextra, nmax))
    ctx.assumptions += ["TLC and the CommunityModules", "zfec's GF(2^8) arithmetic is exercised by the replay, not modelled (abstract MDS code in Codec.tla)",
                        "the minimal IEncryptedUploadable and the bare DownloadNode instance of harness/codec_driver.py (attributes assigned as "
                        "DownloadNode._parse_and_store_UEB does)"]
    ctx.constants["GEN"] = {"MaxN": maxn, "PermMaxN": permmax, "SegMults": mults, "extra_cases": nextra, "extra_max_N": nmax}
    extra = extra_cases(ctx.seed, nextra, nmax)
    ef = os.path.join(ctx.workdir, "extra_cases.json")
    with open(ef, "w") as f:
        json.dump(extra, f)
    r = ctx.mc("util/GenCodec", cfg(maxn, permmax, mults), name="GEN+MC codec", timeout=3000, coverage=False, env={"EXTRA_FILE": ef})
    cases = [json.loads(json.loads(p)) for p in r.prints if p.startswith('"{')]
    if len(cases) < 1000:
        raise RuntimeError("GEN produced only %d cases" % len(cases))
    for c in cases:   # -coverage is off; one Init state per case
        ctx.actions["GenCodec.Init." + c["kind"]] = ctx.actions.get("GenCodec.Init." + c["kind"], 0) + 1
    out = ctx.impl("harness/codec_driver.py", ["--mutable-every", 30 if q else 4], input_obj=cases, timeout=6000)
    st = out["stats"]
    for c in cases:
        nontrivial = (c["kind"] == "file" and c["tail_padded"] != c["tail_size"]) or c["order"] != list(range(c["k"])) \
            or (c["kind"] == "codec" and c["padding"] > 0)
        ctx.count(json.dumps({f: c[f] for f in ("kind", "k", "n", "order", "size") if f in c} | {"seg": c.get("seg", 0)}, sort_keys=True)
                  if nontrivial else None)
    ctx.notes.append("replayed %d file cases (%d segments, %d with a padded tail) and %d bare-codec cases; largest N = %d" % (
        st["file"], st["segments"], st["tail_padded_cases"], st["codec"], st["max_n"]))
    ctx.notes.append("mutable leg: %d of the file cases published as MDMF on a grid of n servers, all but the Spec's k shares removed, read back "
                     "whole and segment by segment (%d segments; %d cases whose padded tail is as large as a full segment)"
                     % (st["mutable"], st["mutable_segments"], st["mutable_tail_fills_segment"]))
    for c in cases:
        if c["kind"] == "file" and c["num_segments"] == 2 and c["tail_padded"] != c["tail_size"] and c["n"] >= 5:
            ctx.sample(c, limit=1)
            break
    for c in cases:
        if c["kind"] == "codec" and c["padding"] > 0 and c["n"] >= 5:
            ctx.sample(c, limit=2)
            break
    ctx.exhaustive = True
    for m in out["mismatches"]:
        ctx.report("case:%s" % m["kind"], "real erasure-coding path disagrees with Codec.tla: %s" % m["kind"],
                   replay={"kind": "gen-case", "case": m.get("case"), "detail": m.get("detail")})
