"""C07: share_placement is complete, respects read-only servers and maximises spread.

GEN: TLC enumerates every small layout (writable / read-only servers, shares, existing shares; modulo
renaming of servers within their class) with the Spec's optimum spread and checks the closed form of the
optimum against the brute-force maximum over all valid placements.  The driver replays every layout into
the real share_placement under several namings / insertion orders and records the returned placement and
the intermediate results of the three matching phases.  TRACE: TLC judges every returned placement
(TracePlacement.tla): complete, read-only respected, spread = optimum; the clause name of a rejection
carries the structural cause, also evaluated by TLC.  Seeded larger layouts (<= 20 servers, <= 30 shares)
are judged the same way with the augmenting-path operator."""
import json


def key_of(tr, l, clause):
    return "trace:%s" % clause


def what_of(tr, l, clause):
    e = tr["events"][l - 1]
    c = tr["consts"]
    return ("share_placement(writable=%s, readonly=%s, shares=0..%d, existing=%s) returned %s%s under %s: clause %s" % (
        c["W"], c["R"], c["n"] - 1, json.dumps(c["ex"], sort_keys=True), json.dumps(e["m"], sort_keys=True),
        (" [" + e["err"] + "]") if e["err"] else "", ",".join(e["variants"]), clause))


def judge(ctx, traces, invariants, batch=None):
    return ctx.trace("immutable/TracePlacement", traces, invariants=invariants, key_of=key_of, what_of=what_of,
                     workers=4, batch=batch, timeout=3000)


def nontrivial(c):
    # a layout where the three phases interact: some read-only server holds a share and some writable one does too
    ex = c["ex"]
    return any(ex[r] for r in c["R"]) and any(ex[w] for w in c["W"])


def run(ctx):
    q = ctx.quick
    shapes = [11, 12, 13, 14, 21, 22, 23, 24, 31, 32, 33, 34, 41, 42, 43] + ([] if q else [44, 15, 25])
    consts = dict(Shapes="{%s}" % ", ".join(map(str, shapes)), BFLimit=27 if q else 81)
    ctx.constants["GenPlacement"] = consts
    cfg = "SPECIFICATION Spec\nCONSTANTS\n" + "".join("  %s = %s\n" % kv for kv in consts.items()) + \
          "INVARIANT C07_ClosedFormIsBest\nINVARIANT C07_BestBounds\nCHECK_DEADLOCK FALSE\n"
    cases, r = ctx.gen("immutable/GenPlacement", cfg, timeout=3000, coverage=False)
    ctx.exhaustive = True
    nvar = 3 if q else 4
    out = ctx.impl("harness/happiness_driver.py", ["--mode", "c07cases"], input_obj={"cases": cases, "nvar": nvar})
    traces = out["traces"]
    if len(traces) != len(cases):
        raise RuntimeError("driver returned %d traces for %d cases" % (len(traces), len(cases)))
    for t in traces:
        ctx.count(json.dumps(t["consts"], sort_keys=True) if nontrivial(t["consts"]) else None, n=sum(len(e["variants"]) for e in t["events"]))
    ctx.sample({"layout": traces[len(traces) // 2]["consts"], "events": traces[len(traces) // 2]["events"]})
    judge(ctx, traces, ("GenBestAgrees",))
    # seeded larger layouts
    n = 250 if q else 4000
    out = ctx.impl("harness/happiness_driver.py", ["--mode", "c07random", "--n", n, "--nvar", 3, "--maxs", 20, "--maxt", 30])
    rtraces = out["traces"]
    for t in rtraces:
        ctx.count(json.dumps(t["consts"], sort_keys=True) if nontrivial(t["consts"]) else None, n=sum(len(e["variants"]) for e in t["events"]))
    ctx.sample({"random_layout": rtraces[0]["consts"], "events": rtraces[0]["events"][:1]})
    judge(ctx, rtraces, ("BruteForceAgrees",), batch=1000)
    if not q:
        # the 3 x 5 and 4 x 5 spaces modulo renaming of servers and of shares, enumerated by the driver
        for (ms, mt) in ((3, 5), (4, 5)):
            out = ctx.impl("harness/happiness_driver.py", ["--mode", "c07canon", "--maxs", ms, "--maxt", mt, "--nvar", 3], timeout=3000)
            ctraces = out["traces"]
            for t in ctraces:
                ctx.count(json.dumps(t["consts"], sort_keys=True) if nontrivial(t["consts"]) else None, n=sum(len(e["variants"]) for e in t["events"]))
            ctx.notes.append("%d x %d canonical layouts (modulo renaming of servers in their class and of shares): %d" % (ms, mt, len(ctraces)))
            judge(ctx, ctraces, (), batch=20000)
    # whole uploads on fault-free grids (C07's last sentence): the server selector, not only the planner function
    nup = 70 if q else 900
    up = ctx.impl("harness/upload_driver.py", ["--n", nup, "--profiles", "capacity,clean"], timeout=3000)["traces"]
    ff = 0
    for t in up:
        c = t["consts"]
        ff += bool(c.get("faultfree"))
        ctx.count("upload:" + json.dumps([c["modes"], c["k"], c["n"], c["happy"], c["size"]], sort_keys=True) if c["profile"] == "capacity" else None)
    captured = []
    ctx.report = lambda key, what, replay=None: captured.append((key, what, replay))
    try:
        ctx.trace("immutable/TraceUpload", up, invariants=("C06_NoPartialVisible_everywhere",), workers=4, batch=1000, timeout=3000,
                  key_of=lambda tr, l, clause: "trace:%s:%s" % (clause, tr["consts"]["profile"]),
                  what_of=lambda tr, l, clause: "fault-free upload k=%d n=%d happy=%d on servers %s was declared unhappy although a happy layout exists: %s"
                  % (tr["consts"]["k"], tr["consts"]["n"], tr["consts"]["happy"], json.dumps(tr["consts"]["modes"], sort_keys=True),
                     json.dumps(tr["events"][l - 1])[:300]))
    finally:
        del ctx.report
    sib = set()
    for key, wh, replay in captured:
        if ":C07_" in key:
            ctx.report(key, wh, replay)
        else:
            sib.add(key)
    if sib:
        ctx.notes.append("upload traces cut short by clauses of the sibling property C06 (reported by its own check): %s" % sorted(sib))
    ctx.notes.append("upload leg: %d real uploads on fault-free grids (%d with truthfully advertised space only), among them servers with room for "
                     "exactly one share; an unhappiness failure where a happy layout exists is C07_UnhappyThoughReachable" % (len(up), ff))
    ctx.rule = ("GEN: every layout of the shapes (servers x shares) %s with >= 1 writable server, any read-only subset, any existing-share "
                "relation, modulo renaming of servers within their class; each replayed into share_placement under %d namings/insertion "
                "orders (str/bytes/hex/int ids, ascending/descending/shuffled dict order), distinct results judged by TLC. TRACE: %d seeded "
                "layouts up to 20 servers x 30 shares (fresh, sparse, re-upload, read-only heavy, dense, duplicated shares)%s. Non-trivial: "
                "some read-only and some writable server hold existing shares." % (
                    shapes, nvar, n, "" if q else "; plus the 3x5 and 4x5 spaces modulo renaming enumerated by the driver"))
    ctx.assumptions += ["TLC and the CommunityModules", "closed form of the optimum spread beyond the sizes where TLC compared it with the brute force "
                        "(GEN: servers^shares <= %s; TRACE: seeded layouts with servers^shares <= 64)" % consts["BFLimit"],
                        "the driver's observation of the phase results (wrappers around happiness_upload._calculate_mappings / _servermap_flow_graph) "
                        "is used only to name the cause of a rejected placement, never to accept one",
                        "peers and readonly_peers are disjoint and existing shares are within the share numbers (as Tahoe2ServerSelector calls it)"]
