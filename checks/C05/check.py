"""C05 Convergent capabilities and literal files.

1. spec/immutable/Convergence.tla: the cap as a function of (plaintext, secret, k, N, derived segment size)
   over symbolic hashes, literal rule (<= 55 bytes), fresh key without secret; TLC checks the clauses
   C05_Deterministic / C05_Sensitive / C05_Literal / C05_Fresh over every pair of its table (GEN mode)
   and writes each pair with the relation it expects between the two caps.
2. The driver replays every pair with the real Uploader (upload.Data / FileHandle / FileName and an
   IUploadable returning arbitrary chunk lists, several EncryptAnUploadable chunk sizes) on a SimGrid.
3. The observed relation (cap strings, storage indexes, keys, literal-ness, server calls) is compared
   with the Spec-computed one.
"""
import json, os, random, sys


def observed_relation(r1, r2):
    if r1["outcome"] != "ok" or r2["outcome"] != "ok":
        return "upload_error"
    if r1["kind"] == "LIT" and r2["kind"] == "LIT":
        return "lit_equal" if r1["cap"] == r2["cap"] else "lit_differ"
    if r1["kind"] != r2["kind"]:
        return "lit_vs_chk"
    if r1["cap"] == r2["cap"]:
        return "equal"
    if r1["si"] != r2["si"] and r1["key"] != r2["key"]:
        return "differs"                      # what the Spec calls si_differs (both convergent) or fresh
    return "same_key_other_cap" if r1["key"] == r2["key"] else "same_si_other_key"


EXPECT = {"fresh": "differs", "si_differs": "differs"}


def dimension(u1, u2):
    d = sorted(k for k in u1 if u1[k] != u2[k])
    return "+".join(d) or "identical"


def run(ctx):
    q = ctx.quick
    ctx.rule = ("GEN: Convergence.tla enumerates base uploads (sizes around the 55/56 boundary, one and several segments, "
                "> 64 KiB) and every variation of one dimension (source kind x read chunking x encrypting chunk size, secret, "
                "k, N, maximum segment size with equal or different derived segment size, plaintext: other content, first/last "
                "byte flipped, one byte shorter/longer) with the expected relation of the two caps; each pair is replayed on "
                "the real Uploader (quick: a seeded sample). A pair is non-trivial if the two uploads differ in at least one "
                "dimension; distinct pairs are counted by their two descriptors.")
    ctx.assumptions += ["TLC and the CommunityModules", "hashes are modelled as injective terms (collision freedom of SHA-256d); the "
                        "derivation constants themselves are property C17", "harness/grid.py (SimGrid)",
                        "the driver's plaintext builder makes distinct plaintext classes distinct byte strings",
                        "the RangeMap shim in /verif/shims"]
    cfg = ('SPECIFICATION Spec\nCONSTANTS\n  Tier = "%s"\n' % ("quick" if q else "thorough") +
           "".join("INVARIANT %s\n" % i for i in ("C05_Deterministic", "C05_Sensitive", "C05_Literal", "C05_Fresh", "C05_Total")))
    ctx.constants["Convergence"] = {"Tier": ctx.tier}
    pairs, r = ctx.gen("immutable/Convergence", cfg, timeout=3000)
    pairs.sort(key=lambda p: json.dumps(p, sort_keys=True))
    total = len(pairs)
    if q:
        rng = random.Random("c05-%d" % ctx.seed)
        by = {}
        for p in pairs:
            by.setdefault((p["rel"], dimension(p["u1"], p["u2"])), []).append(p)
        sel = []
        for key in sorted(by):             # every (relation, dimension) class is represented, then a seeded fill-up
            rng.shuffle(by[key])
            sel += by[key][:6]
        rest = [p for p in pairs if p not in sel]
        rng.shuffle(rest)
        pairs = sel + rest[:max(0, 330 - len(sel))]
        pairs.sort(key=lambda p: json.dumps(p["u1"], sort_keys=True))
        ctx.notes.append("quick tier replays %d of the %d pairs of the table (every relation x dimension class, rest seeded); "
                         "thorough replays all" % (len(pairs), total))
    else:
        ctx.exhaustive = True
    out = ctx.impl("harness/immutable_driver.py", ["--mode", "converge"], input_obj={"pairs": pairs}, timeout=3000)
    seen = {}
    for item in out:
        p, r1, r2 = item["pair"], item["r1"], item["r2"]
        dim = dimension(p["u1"], p["u2"])
        ctx.count(json.dumps([p["u1"], p["u2"]], sort_keys=True) if dim != "identical" else None)
        want = EXPECT.get(p["rel"], p["rel"])
        got = observed_relation(r1, r2)
        seen[(p["rel"], dim)] = seen.get((p["rel"], dim), 0) + 1

        def bad(clause, what):
            ctx.report("case:%s:%s" % (clause, dim), "%s; u1=%s u2=%s" % (what, json.dumps(p["u1"], sort_keys=True), json.dumps(p["u2"], sort_keys=True)),
                       replay={"kind": "gen-case", "pair": p, "r1": r1, "r2": r2})
        if got != want:
            bad("relation_%s_observed_%s" % (p["rel"], got),
                "Convergence.tla expects relation %s between the two caps, the real uploads gave %s (%s / %s)" % (
                    p["rel"], got, r1.get("cap", r1.get("what")), r2.get("cap", r2.get("what"))))
            continue
        for (u, r, lit) in ((p["u1"], r1, p["lit1"]), (p["u2"], r2, p["lit2"])):
            if (r["kind"] == "LIT") != lit:
                bad("literal_threshold", "a %d-byte upload gave a %s cap" % (u["size"], r["kind"]))
            elif lit and r["calls"] != 0:
                bad("literal_contacted_servers", "a literal upload made %d server calls" % r["calls"])
            elif lit and not r["embeds"]:
                bad("literal_embeds_data", "the literal cap does not embed the uploaded bytes")
            elif not lit and (r["k"], r["N"], r["size"]) != (u["k"], u["N"], u["size"]):
                bad("cap_fields", "cap says k/N/size = %s" % ((r["k"], r["N"], r["size"]),))
    for item in out[:1] + out[len(out) // 2:len(out) // 2 + 1] + out[-1:]:
        ctx.sample({"pair": item["pair"], "r1": item["r1"], "r2": item["r2"]})
    ctx.notes.append("pairs replayed by (expected relation, varied dimension): %s" % json.dumps(
        {"%s|%s" % k: v for k, v in sorted(seen.items())}))
