"""C34 Introducer announcements are authentic and fresh.

MC: spec/net/MCIntroducer (adversarial batches against Introducer.tla).
TRACE: seeded announcement streams fed to a real IntroducerClient
(harness/introducer_driver.py), every call validated by spec/net/TraceIntroducer.
"""
import json

MC_CFG = """SPECIFICATION Spec
CONSTANTS
  Keys = %(Keys)s
  Services = %(Services)s
  Subs0 = %(Subs0)s
  MaxSeq = %(MaxSeq)s
  Bodies = %(Bodies)s
  MaxBatch = %(MaxBatch)s
  MaxStep = %(MaxStep)s
  LateSubscribe = %(LateSubscribe)s
INVARIANT TypeOK
PROPERTY C34_Monotone
INVARIANT C34_Authentic
INVARIANT C34_Attribution
INVARIANT C34_BatchIndependent
INVARIANT C34_NoDuplicateDelivery
INVARIANT C34_LateSubscriber
CHECK_DEADLOCK FALSE
"""

K2 = '{"k1", "k2"}'
QUICK = [("batches", dict(Keys=K2, Services='{"storage"}', Subs0='{"storage"}', MaxSeq=1, Bodies='{"a", "b"}',
                          MaxBatch=2, MaxStep=1, LateSubscribe="FALSE"))]
THOROUGH = [
    ("batches3", dict(Keys=K2, Services='{"storage"}', Subs0='{"storage"}', MaxSeq=1, Bodies='{"a", "b"}',
                      MaxBatch=3, MaxStep=1, LateSubscribe="FALSE")),
    ("seq0to3", dict(Keys=K2, Services='{"storage"}', Subs0='{"storage"}', MaxSeq=3, Bodies='{"a", "b"}',
                     MaxBatch=2, MaxStep=2, LateSubscribe="FALSE")),
    ("services", dict(Keys=K2, Services='{"storage", "other"}', Subs0='{"storage"}', MaxSeq=2, Bodies='{"a", "b"}',
                      MaxBatch=1, MaxStep=1, LateSubscribe="TRUE")),
]


def key_of(tr, l, clause):
    e = tr["events"][l - 1]
    if clause == "C34_BatchIndependent" and e["ev"] == "Batch":
        r = e.get("raised", {})
        if r.get("exc") and 1 <= r.get("at", 0) <= len(e["items"]):
            it = e["items"][r["at"] - 1]
            if it["cls"] == "malformed":
                return "C34:batch_aborted_by_malformed_item"
            if it["cls"] == "good" and r["exc"] == "TypeError" and it["seq"]["k"] == "int":
                return "C34:batch_aborted_by_uncomparable_seqnum"
            return "C34:batch_aborted_by_%s_item:%s" % (it["cls"], r["exc"])
        return "C34:batch_stopped_early_without_exception"
    return "trace:%s:%s" % (clause, e["ev"])


def what_of(tr, l, clause):
    e = tr["events"][l - 1]
    s = "real IntroducerClient disagrees with Introducer.tla at event %d (%s): clause %s" % (l, e["ev"], clause)
    if e["ev"] == "Batch":
        s += "; batch classes %s, %d deliveries, escaped exception %r at item %s" % (
            [i["cls"] + "/" + i["how"] for i in e["items"]], len(e["out"]), e["raised"]["exc"], e["raised"]["at"])
    return s


def run(ctx):
    ctx.rule = ("MC: from every reachable store, every batch (<= MaxBatch items) over the full item alphabet "
                "svc x claimed key x {signed by the claimed key, by another key, by nobody, undecodable} x "
                "{no seqnum, non-integer, 0..MaxSeq} x body. TRACE: seeded streams of 1-4 item batches (fresh, exact replay, "
                "stale/equal/skipping seqnums, reordered, tampered message/signature, other signer, undecodable encodings, "
                "missing and string seqnums, unsubscribed service, late subscribers) sent to a real IntroducerClient through "
                "remote_announce_v2 with real ed25519 signatures; one trace = one client; non-trivial = contains a non-verifying item and "
                "a genuine item that was not delivered")
    ctx.assumptions += ["TLC and the CommunityModules",
                        "the driver's abstraction of an item (it builds the tuples, so it knows signer, tampering and encoding class)",
                        "announcement bodies are a function of (service, key, seqnum, body id), so equal abstract items are equal dicts",
                        "non-integer seqnums are represented by a string; numeric non-integers (floats), which the code orders "
                        "numerically and the statement does not define, are not generated",
                        "a stored non-integer seqnum cannot be beaten (Spec decision for a case the statement leaves open)"]
    for name, consts in (QUICK if ctx.quick else THOROUGH):
        ctx.constants["MC_" + name] = consts
        ctx.mc("net/MCIntroducer", MC_CFG % consts, name="MC introducer %s" % name, timeout=3000)

    plan = [("clean", 150, 12), ("hostile", 60, 10)] if ctx.quick else [("clean", 2500, 20), ("hostile", 600, 12)]
    aborted = {}
    alltraces = []
    for prof, n, ev in plan:
        traces = ctx.impl("harness/introducer_driver.py", ["--profile", prof, "--n", n, "--events", ev])
        for tr in traces:
            forged = undelivered = 0
            for e in tr["events"]:
                if e["ev"] == "Batch":
                    forged += sum(1 for i in e["items"] if i["cls"] != "good")
                    undelivered += max(0, sum(1 for i in e["items"] if i["cls"] == "good") - len(e["out"]))
                    if e["raised"]["exc"]:
                        k = "%s at %s item" % (e["raised"]["exc"], e["items"][e["raised"]["at"] - 1]["cls"])
                        aborted[k] = aborted.get(k, 0) + 1
            ctx.count(json.dumps(tr["events"], sort_keys=True) if forged and undelivered else None)
        ctx.sample({"profile": prof, "consts": traces[0]["consts"], "events": traces[0]["events"][:3]}, limit=2)
        alltraces += traces
    ctx.trace("net/TraceIntroducer", alltraces, key_of=key_of, what_of=what_of, batch=800)
    if aborted:
        ctx.notes.append("exceptions that escaped remote_announce_v2 (diagnosis; the verdict is the Spec's comparison of deliveries "
                         "and store): %s" % json.dumps(aborted, sort_keys=True))
