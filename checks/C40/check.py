"""C40 -- Web API byte-range downloads follow RFC 7233.

GEN: spec/frontends/WebRange.tla enumerates (file size, GET|HEAD, Range header) and writes, for every case, the
response RFC 7233 / webapi.rst require (status, body interval, Content-Range, Content-Length); TLC also checks the
property clauses, stated independently of the Parse/Respond operators, on every row of that table.
Conformance: every case is replayed through the real web Root (TahoeLAFSSite/TahoeLAFSRequest, URIHandler /
FileHandler / DirectoryNodeHandler -> FileNodeHandler -> FileDownloader) on a real _Client over real storage
servers, for literal, CHK (multi-segment), SDMF and MDMF files, and the real response is compared with the
Spec's expectation.  Python only renders the header text, slices the known file content at the Spec's interval
and compares.
"""
import os, random, sys

sys.path.insert(0, os.path.join(os.path.dirname(os.path.abspath(__file__)), "..", "..", "harness"))
from web_common import content, render_range_header  # noqa: E402

INVS = ["C40_OneAltWhenJudged", "C40_PartialExact", "C40_Unsatisfiable", "C40_416OnlyThen", "C40_IgnoredHeader",
        "C40_HeadNoBody"]


def tla_set(xs):
    return "{" + ", ".join(str(x) for x in sorted(set(xs))) + "}"


def mismatch(alt, res, size, method):
    """'' if the real response `res` is the Spec's response `alt`, else the first differing observable."""
    if res["status"] != alt["status"]:
        return "status"
    if res.get("error"):
        return "response_failed"      # the transfer broke: fewer/more body bytes than the announced Content-Length
    body = bytes.fromhex(res["body"])
    if alt["status"] == 416:
        if method == "HEAD" and body:
            return "body"
    else:
        if body != content(size)[alt["lo"]:alt["hi"]]:
            return "body"
        if alt["clen"] >= 0 and res["content_length"] != alt["clen"]:
            return "content_length"
    if not alt["crfree"]:
        cr = alt["cr"]
        exp = "bytes %d-%d/%d" % (cr["first"], cr["last"], cr["total"]) if cr["present"] else ""
        if res["content_range"] != exp:
            return "content_range"
    return ""


def run(ctx):
    rng = random.Random(ctx.seed)
    seg = 16
    if ctx.quick:
        dense = 10
        sizes = list(range(0, 11)) + [56, 70]
        all_kinds_sizes = set(sizes)
        mutable_sample = 1000
        jobs = 4
    else:
        dense = 20
        special = [127, 128, 129, 200, 255, 256, 257, 300]
        larger = sorted(rng.sample(range(301, 3000), 4))
        sizes = list(range(0, 101)) + special + larger
        all_kinds_sizes = set(range(0, 71)) | set(special) | set(larger)
        mutable_sample = None
        jobs = 6
        ctx.notes.append("random larger sizes (seed %d): %s" % (ctx.seed, larger))
    cfg = ("SPECIFICATION Spec\nCONSTANTS\n  Sizes = %s\n  DenseMax = %d\n  SegSize = %d\n" % (tla_set(sizes), dense, seg)
           + "".join("INVARIANT %s\n" % i for i in INVS))
    ctx.constants.update({"Sizes": "0..10, 56, 70" if ctx.quick else "0..100, %s, %s" % (special, larger), "DenseMax": dense,
                          "SegSize": seg, "values": "sizes <= DenseMax: every first/last/suffix value in -1..DenseMax+2; "
                          "larger sizes: {-1,0,1,SegSize-1..SegSize+1,size/2,size-2..size+2,size+40,2*size}"})
    cases, r = ctx.gen("frontends/WebRange", cfg, timeout=1500)
    ctx.exhaustive = True
    ctx.notes.append("GEN: %d cases (size x method x header) with Spec-computed responses; %d table invariants checked by TLC"
                     % (len(cases), len(INVS)))

    # ---- which real files serve which case ----
    requests = []

    def add(ci, kind, via):
        c = cases[ci]
        requests.append({"id": len(requests), "case": ci, "kind": kind, "via": via, "size": c["size"],
                         "method": c["method"], "range": render_range_header(c["header"]) or ""})

    vias = ["uri", "uri", "uri", "file", "dir"]
    order = list(range(len(cases)))
    for ci in order:
        c = cases[ci]
        if c["size"] in all_kinds_sizes:
            add(ci, "imm", vias[(ci + ctx.seed) % len(vias)])
            if mutable_sample is None:
                add(ci, "sdmf", vias[(ci + 1 + ctx.seed) % len(vias)])
                add(ci, "mdmf", vias[(ci + 2 + ctx.seed) % len(vias)])
        else:
            # thorough, the remaining sizes 71..100: one file kind per size, rotating
            add(ci, ("imm", "sdmf", "mdmf")[c["size"] % 3], "uri")
    if mutable_sample is not None:
        # quick: the mutable formats get a class-stratified seeded sample of the same table
        byclass = {}
        for ci in order:
            byclass.setdefault((cases[ci]["class"], cases[ci]["method"]), []).append(ci)
        for kind in ("sdmf", "mdmf"):
            per = max(8, mutable_sample // len(byclass))
            for key in sorted(byclass):
                lst = byclass[key]
                for ci in (lst if len(lst) <= per else rng.sample(lst, per)):
                    add(ci, kind, vias[(ci + ctx.seed) % len(vias)])

    out = ctx.impl("harness/web_range_driver.py", ["--jobs", jobs], {"segsize": seg, "requests": requests}, timeout=3000)
    results = out["results"]
    kinds = sorted(set(out["capkinds"].values()))
    for need in ("LIT", "CHK", "SSK", "MDMF"):
        if need not in kinds:
            raise RuntimeError("no %s file was exercised (cap kinds %s)" % (need, kinds))

    opens = {}
    for rq in requests:
        c = cases[rq["case"]]
        res = results[str(rq["id"])]
        capkind = out["capkinds"]["%s:%d" % (rq["kind"], rq["size"])]
        nontrivial = c["class"] != "no_header"
        ctx.count("%s:%s:%s:%d" % (capkind, c["method"], c["class"], c["size"]) if nontrivial else None)
        whys = [mismatch(a, res, c["size"], c["method"]) for a in c["alts"]]
        if c["open"]:
            k = "%s -> %d %s" % (c["open"], res["status"], res["content_range"] if c["open"] != "multi_range" else "")
            opens[k] = opens.get(k, 0) + 1
        if len(ctx.samples) < 4 and nontrivial and "" in whys and rq["id"] % 997 == 3:
            ctx.sample({"file": capkind, "size": c["size"], "via": rq["via"], "method": c["method"], "range": rq["range"],
                        "spec_expects": c["alts"], "real": {k: res[k] for k in ("status", "content_range", "content_length", "body")}})
        if "" in whys:
            continue
        exp = c["alts"][0]
        if whys[0] == "status":
            key = "C40:%s:%d_instead_of_%d" % (c["class"], res["status"], exp["status"])
        else:
            key = "C40:%s:%s" % (c["class"], whys[0])
        ctx.report(key=key,
                   what="%s %s of a %d-byte %s file with Range: %r -> %d Content-Range=%r Content-Length=%d body=%d bytes; "
                        "the Spec (RFC 7233) requires %s" % (c["method"], rq["via"], c["size"], capkind, rq["range"], res["status"],
                                                             res["content_range"], res["content_length"], len(res["body"]) // 2,
                                                             c["alts"]),
                   replay={"kind": "web-range-case", "request": rq, "case": c, "real": res,
                           "how": "PUT /uri (content = web_common.content(size)), then the request with the Range header"})
    ctx.rule = ("every row of the Spec's table (size x GET/HEAD x header) is replayed against a LIT/CHK file of that size; "
                "SDMF and MDMF files get %s; the access path alternates /uri/$CAP, /file/$CAP/@@named=/f.bin, /uri/$DIRCAP/name. "
                "non-trivial = a Range header is present; distinct key = (cap kind, method, Spec class, size)"
                % ("a class-stratified seeded sample" if ctx.quick else "every row (sizes <= 70 and the special/random sizes); for the other sizes each row is replayed on one kind (CHK/SDMF/MDMF rotating with the size)"))
    ctx.notes.append("open boundaries excluded from the verdict (any documented alternative accepted); observed: %s"
                     % ", ".join("%s x%d" % kv for kv in sorted(opens.items())))
    ctx.notes.append("cap kinds exercised: %s; %d requests" % (kinds, len(requests)))
    ctx.assumptions += [
        "RFC 7233 as read in spec/frontends/WebRange.tla: invalid or unsupported Range headers are ignored (200, whole file); 416 body and "
        "Content-Length and the optional 'Content-Range: bytes */size' of a 416 are not judged",
        "suffix of length 0, suffix on an empty file and multi-range requests are open boundaries: 200-whole-file, 416 or the first "
        "range (webapi.rst) are all accepted",
        "treq/twisted.web HTTP client and server protocols in memory (iosim) stand for the network; storage servers are real, in process",
    ]
