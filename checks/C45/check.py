"""C45 Immutable check, verify and repair.

MC   spec/immutable/MCCheckRepair (CheckRepair.tla): every layout of share files (missing / valid /
     damaged per section) over small constants, check with and without verification, repair with every
     legal placement, read from the pushed shares alone; the C45_* invariants compare the results with the
     ground truth (AllValid).
TRACE harness/checkrepair_driver.py replays layouts into the real Checker / Repairer on SimGrid (real share
     files damaged section by section through the real offset table) and records check(verify=False),
     check(verify=True), check_and_repair, check of the repaired grid and a read through the original
     read-cap after every old share was deleted; TraceCheckRepair.tla computes every expected result
     with the operators of CheckRepair.tla and names the first clause that fails.
"""
import json, os

SPEC = "immutable/MCCheckRepair"
TRACE = "immutable/TraceCheckRepair"
INVS = ["C45_GoodOnlyIfValid", "C45_ValidIsGood", "C45_HealthyRecoverable", "C45_RepairIffUnhealthy",
        "C45_RepairNewValid", "C45_RepairKeepsExisting", "C45_RepairRestoresAbsent", "C45_RepairMustWork",
        "C45_PostResultsTrue", "C45_ReadableFromRepaired"]
KINDS = ["version", "offsets", "data", "crypttext_hash_tree", "block_hashes", "share_hashes", "uri_extension",
         "ignored", "foreign_blocks"]


def cfg(K, N, servers, states, root=True):
    def st(d):
        return "{" + ", ".join('"%s"' % x for x in d) + "}"
    txt = "SPECIFICATION Spec\nCONSTANTS\n  K = %d\n  N = %d\n  Servers = {%s}\n  ShareStates = {%s}\n  CheckBlockRoot = %s\n" % (
        K, N, ", ".join('"s%d"' % i for i in range(servers)), ", ".join(st(d) for d in states), "TRUE" if root else "FALSE")
    txt += "".join("INVARIANT %s\n" % i for i in INVS) + "CHECK_DEADLOCK FALSE\n"
    return txt


def key_of(tr, l, clause):
    ev = tr["events"][l - 1]
    return "trace:%s:%s" % (clause, ev["ev"] + ("_verify" if ev.get("verify") else ""))


def what_of(tr, l, clause):
    ev = tr["events"][l - 1]
    return ("real checker/repairer disagrees with CheckRepair.tla at event %d (%s%s) of scenario %s (k=%d N=%d, %d servers): clause %s" % (
        l, ev["ev"], " verify" if ev.get("verify") else "", tr["consts"]["idx"], tr["consts"]["K"], tr["consts"]["N"],
        len(tr["consts"]["Servers"]), clause))


def run(ctx):
    q = ctx.quick
    ctx.rule = ("MC: all layouts [Servers -> [0..N-1 -> Missing | Share(dmg)]] for the ShareStates of each config, then "
                "repair (every legal placement of pushed shares, every k-subset of usable source shares) and a read from "
                "the pushed shares alone. TRACE: seeded scenarios (random k in 1..3, N<=5, 2..5 servers, 1..25 segments, "
                "file 56..400 bytes; layout = any placement of share numbers on servers incl. duplicates and several per "
                "server; each present share undamaged or with 1-2 damaged sections: single-bit flips located with the real "
                "offset table, or blocks+block-hash-tree of another share); families: random, single (one damaged/deleted "
                "share of a healthy file), foreign (substituted blocks). A scenario is non-trivial if at least one share "
                "is damaged or missing; the key is (k, N, layout, repair flags).")
    ctx.assumptions += [
        "TLC and the CommunityModules", "the RangeMap shim in /verif/shims", "SimGrid (harness/grid.py): no faults injected, all servers writable",
        "driver observations: share data read back from the share files and compared byte-wise with the pristine shares of the upload",
        "SHA-256d collisions do not occur (a damaged section never validates by accident)",
        "abstraction: a damaged offset word makes some section fail validation; only v1 share layout (files < 4 GiB) is exercised",
    ]
    singles = [[k] for k in KINDS]
    doubles = [["data", "foreign_blocks"], ["ignored", "version"], ["block_hashes", "foreign_blocks"],
               ["foreign_blocks", "ignored"], ["offsets", "version"]]
    if q:
        mcs = [("structure", 2, 3, 2, [[], ["data"]]),
               ("kinds", 1, 2, 1, [[]] + singles + doubles)]
    else:
        mcs = [("structure4", 2, 3, 2, [[], ["data"], ["version"], ["foreign_blocks"]]),
               ("structure_ignored", 2, 3, 2, [[], ["ignored"], ["block_hashes", "ignored"]]),
               ("n4", 2, 4, 2, [[], ["share_hashes"]]),
               ("servers3", 2, 3, 3, [[], ["uri_extension"]]),
               ("kinds", 1, 2, 2, [[]] + singles),
               ("kinds2", 1, 2, 1, [[]] + singles + doubles)]
    for (name, K, N, S, states) in mcs:
        ctx.constants["MC_" + name] = {"K": K, "N": N, "Servers": S, "ShareStates": states}
        ctx.mc(SPEC, cfg(K, N, S, states), name="MC CheckRepair " + name, timeout=3000)
    ctx.exhaustive = False

    if not q:
        # sensitivity of the Spec's own property: a verifier that takes the block-hash-tree root from the
        # share (what the code under test does, see known finding) violates C45_GoodOnlyIfValid in the model
        r = ctx.mc(SPEC, cfg(1, 2, 1, [[], ["foreign_blocks"]], root=False), name="MC CheckRepair demo CheckBlockRoot=FALSE",
                   expect_ok=False, timeout=600)
        if "C45_GoodOnlyIfValid" not in r.violated:
            from vfw.core import MachineryError
            raise MachineryError("sensitivity demonstration failed: CheckBlockRoot=FALSE not noticed (%r)" % (r.violated,))
        ctx.notes.append("demonstration: with CheckBlockRoot=FALSE TLC reports C45_GoodOnlyIfValid violated (expected)")

    plan = [{"name": "random", "family": "random", "n": 70 if q else 1500, "kinds": "", "salt": 0},
            {"name": "single", "family": "single", "n": 30 if q else 600, "kinds": "", "salt": 1},
            {"name": "foreign", "family": "random", "n": 12 if q else 150, "kinds": "foreign_blocks,data,ignored", "salt": 2},
            {"name": "foreign-single", "family": "single", "n": 6 if q else 50, "kinds": "foreign_blocks", "salt": 3}]
    traces = ctx.impl("harness/checkrepair_driver.py", [], input_obj={"plan": plan})
    shown = {}
    for tr in traces:
        present = set()
        for s in tr["layout"].values():
            present |= set(s)
        damaged = any(v["dmg"] for s in tr["layout"].values() for v in s.values()) or len(present) < tr["consts"]["N"]
        rep = [e for e in tr["events"] if e["ev"] == "repair"][0]
        ctx.count(json.dumps([tr["consts"]["K"], tr["consts"]["N"], tr["layout"], rep["verify"], rep["verifycap"]],
                             sort_keys=True) if damaged else None)
        part = tr["consts"]["part"]
        if shown.get(part, 0) < 1 and damaged:
            shown[part] = 1
            keep = ("healthy", "recoverable", "good", "corrupt", "incompatible")
            ctx.sample({"part": part, "consts": tr["consts"], "layout": tr["layout"],
                        "events": [{k: ({kk: vv for kk, vv in v.items() if kk in keep} if k in ("pre", "post", "res") and isinstance(v, dict) else v)
                                    for k, v in e.items() if k != "old"} for e in tr["events"]]}, limit=4)
    rej = ctx.trace(TRACE, traces, key_of=key_of, what_of=what_of, invariants=("TraceOK", "TypeOK"), batch=1000)
    outcomes = {}
    for tr in traces:
        rep = [e for e in tr["events"] if e["ev"] == "repair"][0]
        rd = [e for e in tr["events"] if e["ev"] == "read_new"][0]
        o = "%s/attempted=%s/successful=%s/read_new=%s" % (rep["outcome"], rep["attempted"], rep["successful"], rd["res"])
        outcomes[o] = outcomes.get(o, 0) + 1
    ctx.notes.append("scenario outcomes (repair outcome / flags / read from pushed shares only): %s" % json.dumps(outcomes, sort_keys=True))
    ctx.notes.append("traces rejected: %d of %d" % (len(rej), len(traces)))
