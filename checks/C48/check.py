"""C48 - configuration values parse to their documented meaning.

GEN: spec/util/ConfigParse.tla (grammars of durations, sizes and dates as recognisers over character
sequences) enumerates well-formed values, every single-token mutation of them and the documentation's
examples, each with the expected result of the three parsers, directly and through the configuration
file reader.  harness/config_driver.py replays every text into the real parse_duration / parse_date /
parse_abbreviated_size and into the real client.py reading of [storage]reserved_space,
expire.override_lease_duration and expire.cutoff_date; the real result is compared with the
Spec-computed one.
"""
import json

REJECT, SKIP = -1, -2
SPEC_CFG = ("SPECIFICATION Spec\nCONSTANTS\n  Tier = \"%s\"\n  SeedN = %s\nINVARIANT C48_DurationTable\nINVARIANT C48_SizeTable\n"
            "INVARIANT C48_DateTable\nINVARIANT C48_DocExamplesAccepted\nCHECK_DEADLOCK FALSE\n")


def expected_int(x):
    return ("skip", None) if x == SKIP else ("reject", None) if x == REJECT else ("value", x)


def expected_size(sz):
    if sz["n"] == SKIP:
        return ("skip", None)
    if sz["n"] == REJECT:
        return ("reject", None)
    return ("value", sz["n"] * sz["base"] ** sz["exp"])


def compare(ctx, parser, path, klass, text, exp, act, stats):
    """exp = (kind, value) computed by the Spec; act = {"v": ..} | {"err": ..} from the real code."""
    kind, val = exp
    if kind == "skip":
        stats["not_judged"] += 1
        return
    accepted = "v" in act and act["v"] is not None
    if kind == "value":
        if accepted and act["v"] == val:
            stats["agree_value"] += 1
            return
        what = "code_rejects" if not accepted else "wrong_value"
    else:
        if not accepted:
            stats["agree_reject"] += 1
            if act.get("err") not in ("ValueError", None):
                stats["reject_by_other_exception"] += 1
            return
        what = "code_accepts"
    ctx.report("case:%s:%s:%s" % (parser, klass, what),
               "%s value %r (%s): Spec expects %s, real code gives %s" % (
                   parser, text, path, ("%r" % val) if kind == "value" else "rejection", act),
               replay={"kind": "config-case", "parser": parser, "path": path, "text": text, "spec_expected": exp, "real": act})


def run(ctx):
    tier = "quick" if ctx.quick else "thorough"
    ctx.rule = ("GEN: ConfigParse.tla enumerates token templates of well-formed durations (ws* digits ws* unit ws*), sizes "
                "(digits ws* [KMGTPE]? i? B?) and dates (dddd-dd-dd), every single-token mutation of them (delete / replace by / insert "
                "any token of the alphabet: whitespace, digit strings, unit words in several cases, misspelt units, size suffix letters, "
                "punctuation, date parts) up to 6 tokens, the documentation's examples verbatim and hand-picked boundary texts; every "
                "distinct text is replayed into all three real parsers directly and through tahoe.cfg + client.py. A case is "
                "non-trivial if at least one grammar accepts it or it is one mutation away from an accepted text (all generated cases are).")
    ctx.assumptions += [
        "TLC and the CommunityModules",
        "the documented grammar as transcribed in ConfigParse.tla (configuration.rst, garbage-collection.rst, docstring of parse_duration); "
        "month = 31 days, year = 365 days",
        "numbers that do not fit TLC's 32-bit integers are not judged (sizes are compared as n * base^exp computed by the adapter)",
        "non-ASCII digits / letters / whitespace and a trailing newline are reported in the notes, not judged",
        "through-config replay binds client.py's reading code to a bare _Client object and records the keyword arguments "
        "it passes to StorageServer (the StorageServer class itself is replaced by a recorder)",
    ]
    seednum = str(40 + (ctx.seed * 7) % 20)
    ctx.constants["Tier"] = tier
    ctx.constants["SeedN"] = seednum
    cases, r = ctx.gen("util/ConfigParse", SPEC_CFG % (tier, seednum), timeout=3000)
    texts = ["".join(c["txt"]) for c in cases]
    out = ctx.impl("harness/config_driver.py", [], input_obj={"texts": texts})
    real = {c["txt"]: c for c in out["cases"]}
    stats = {k: 0 for k in ("agree_value", "agree_reject", "not_judged", "reject_by_other_exception")}
    naccept = {"dur": 0, "size": 0, "date": 0}
    for c, text in zip(cases, texts):
        a = real[text]
        ctx.count(text)
        for k in ("dur", "date"):
            if c[k] >= 0:
                naccept[k] += 1
        if c["size"]["n"] >= 0:
            naccept["size"] += 1
        compare(ctx, "duration", "direct", "ok" if c["dur"] != REJECT else "reject", text, expected_int(c["dur"]), a["dur"], stats)
        compare(ctx, "size", "direct", c["sizeclass"], text, expected_size(c["size"]), a["size"], stats)
        compare(ctx, "date", "direct", c["dateclass"], text, expected_int(c["date"]), a["date"], stats)
        if "cfg_size" in a:
            g = c["cfg"]
            compare(ctx, "duration", "tahoe.cfg", "ok" if g["dur"] != REJECT else "reject", text, expected_int(g["dur"]), a["cfg_dur"], stats)
            compare(ctx, "size", "tahoe.cfg", g["sizeclass"], text, expected_size(g["size"]), a["cfg_size"], stats)
            compare(ctx, "date", "tahoe.cfg", g["dateclass"], text, expected_int(g["date"]), a["cfg_date"], stats)
    for c, text in list(zip(cases, texts)):
        if c["doc"] and len(ctx.samples) < 3:
            ctx.sample({"text": text, "spec": {k: c[k] for k in ("dur", "size", "sizeclass", "date", "dateclass")}, "real": real[text]})
    ctx.sample({"text": texts[len(texts) // 2], "spec": {k: cases[len(texts) // 2][k] for k in ("dur", "size", "date")}, "real": real[texts[len(texts) // 2]]})
    ctx.exhaustive = True
    ctx.notes.append("cases: %d distinct texts (accepted as duration: %d, as size: %d, as date: %d); comparisons: %s" % (
        len(cases), naccept["dur"], naccept["size"], naccept["date"], stats))
    n = out["notes"]
    ctx.notes.append("printer/parser pairs the node really round-trips: `tahoe create-node` writes reserved_space = %s, which the client reads "
                     "back as %s (Spec: 1 * 1000^3); the web storage status prints sizes exactly ('%%d'): %d of %d sample sizes parse back to "
                     "themselves. abbreviate_space is display-only: %d of %d outputs are accepted by parse_abbreviated_size (%d exactly) - "
                     "reported, not judged (examples %s)" % (
                         n["create_node_reserved_space"], n["create_node_reads_back"], n["printers"]["exact_decimal_parses_back"],
                         n["printers"]["sizes"], n["printers"]["abbreviate_space_parsed"], n["printers"]["abbreviate_space_outputs"],
                         n["printers"]["abbreviate_space_parsed_exactly"], n["printers"]["examples"][:3]))
    # the create-node value must read back as the Spec says
    want = {t: c for c, t in zip(cases, texts)}
    for w, got in zip(n["create_node_reserved_space"], n["create_node_reads_back"]):
        if w not in want:
            ctx.report("case:size:create_node_value_not_in_spec_cases", "create-node writes reserved_space = %r, not among the Spec's cases" % w)
        else:
            compare(ctx, "size", "create-node -> tahoe.cfg", want[w]["cfg"]["sizeclass"], w, expected_size(want[w]["cfg"]["size"]), {"v": got}, stats)
    ctx.notes.append("non-ASCII / newline probes (not judged) [text, parse_duration, parse_abbreviated_size, parse_date]: %s" %
                     json.dumps(n["non_ascii_and_newline_probes"], ensure_ascii=False))
