import os, sys
sys.path.insert(0, os.path.join(os.path.dirname(__file__), "..", "_shared"))
import download_family as fam


def run(ctx):
    ctx.rule = ("MC: node + fetcher (diversity limit, active map, no_more_shares) + finder (max_outstanding_requests, DYHB "
                "overdue, no_more_shares) + abstract shares over placements with several shares per server and duplicate "
                "share numbers; servers that fail get_buckets, fail reads or fail either nondeterministically; absent "
                "and damaged instances; every delivery order.  C03_Available / C03_NoFalseSuccess / C03_ErrorClass are "
                "stated on the adversary's ground truth.  TRACE: seeded scenarios on the real downloader (profile c03: "
                "N shares placed on 1..N+3 servers spread / clumped / duplicated / partly missing, damage of 0-100% of the "
                "instances, server modes raise on get_buckets / raise on read (always, half) / disconnect at the nth call / "
                "lose the nth call (failed at the end, or never) / flaky / removed, late servers whose answers are held "
                "back until the overdue timers fired, random delivery order).  Ground truth: `strict` = instances "
                "byte-identical to the upload on servers in mode ok (late is allowed); `usable[seg]` = share numbers "
                "whose genuine block bytes were visible in some share file at all.  >= k strict share numbers and an "
                "honest encoder => every read succeeds; success => >= k usable for every segment of the range; an "
                "error is NotEnoughSharesError or NoSharesError.  Non-trivial = any damage, fault, late server or "
                "more than one read.")
    ctx.assumptions += fam.COMMON_ASSUMPTIONS
    fm = ("dyhb", "read", "flaky")
    if ctx.quick:
        fam.mc_holds(ctx, "MC clumped placement", readers=1, numsegs=1, inst="P_clump3", ranges="R_all1", faulty=1,
                     fmodes=("dyhb", "flaky"), absent=1, maxout=2)
    else:
        fam.mc_holds(ctx, "MC clumped placement", readers=1, numsegs=1, inst="P_clump3", ranges="R_all1", dmg=1,
                     dvals=("forged", "short"), faulty=1, fmodes=fm, absent=1, maxout=2)
        fam.mc_holds(ctx, "MC duplicates on 5 servers, N=4", readers=1, numsegs=1, inst="P_dups5", order="Order5",
                     ranges="R_all1", faulty=1, fmodes=fm, absent=1, maxout=2)
    fam.mc_holds(ctx, "MC all shares on one server", readers=1, numsegs=1, inst="P_one3", ranges="R_all1", dmg=1,
                 dvals=("forged",), absent=0 if ctx.quick else 1, maxout=10)
    fam.run_traces(ctx, "C03", "c03", 300 if ctx.quick else 3000)
