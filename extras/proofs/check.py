"""Extra proofs: evidence beyond bounded model checking for the small integer / set based Spec modules
(DESIGN.md section 12): Apalache inductive invariants and TLAPS proofs, under spec/proofs/.

Per family (Leases, Serializer, Introducer, Crawler, GridManager) there is a *core* module <Name>Core.tla - a
re-statement of the operators of the module the registered checks use, needed because Common.tla (RECURSIVE
operators, polymorphic Range) can be digested neither by Apalache 0.58's type checker nor by tlapm 1.6 - and

  agree    TLC (ctx.mc) on Agree<Name>.tla: the re-statement and the original agree on a bounded state space
           (operator by operator, and every step of the original is a step of the core); a violated invariant
           of that run is reported like any Spec violation (key spec:Agree<Name>:<invariant>)
  base     apalache-mc check --init=Init    --inv=IndInv        --length=0 MC_<Name>_apa.tla
  step     apalache-mc check --init=IndInit --inv=IndInv,Props[,<action property>] --length=1 MC_<Name>_apa.tla
           (IndInit = an arbitrary state of bounded size (Gen) that satisfies IndInv; Props at state 0 is
           IndInv => Property, the action property is checked on the one transition)
           quick tier: base and step in ONE query, --init=BaseOrIndInit (= Init \\/ IndInit), to save a JVM start
  tlaps    tlapm <Name>Proof.tla : Spec => []Property through the same invariant, unbounded; plus
           tlapm --summary: no OMITTED, no missing proof
  control  the same step query / the same proof script against <Name>_broken.tla (one weakened action); it must
           FAIL, otherwise proofs:control_not_refuted:<name> is reported.  The control modules are generated in
           the scratch directory from the committed wrapper / proof by replacing the name of the core module.

Verdicts: `proved` (Apalache: no counterexample within the stated bounds; tlapm: all obligations proved and the
summary shows no omitted / missing proof), `refuted` (Apalache found a counterexample -> ctx.report
proofs:refuted:<family>:<query>), `not_proved` (tlapm could not discharge an obligation: its back ends cannot
refute anything, so this is not a violation; it is said plainly in the notes), `timeout`, `tool_error`, `skipped`
(quick tier ran out of its time budget).  Only `refuted` of a non-control query and an accepted control are violations.
"""
import json, os, re, shutil, subprocess, threading, time

KEY = "proofs"
HERE = os.path.dirname(os.path.abspath(__file__))
PROOFS = os.path.join(os.path.dirname(os.path.dirname(HERE)), "spec", "proofs")
CORES = 4                         # the machine is shared: never more than this many tool threads at once
APA_ENV = {"JVM_ARGS": "-XX:TieredStopAtLevel=1 -Xmx3g", "JVM_GC_ARGS": "-XX:+UseSerialGC"}

# ------------------------------------------------------------------------------------------------------------
# the families.  bounds: what is bounded in the Apalache queries (integers are unbounded there).
FAMILIES = {
    "Leases": dict(
        original="storage/Storage.tla (HasLease, Lease, RenewIn, AddOrRenew, LeasesMonotone)", core="LeasesCore",
        broken="Leases_broken", broken_what="renewal takes the new expiry unconditionally",
        apa="MC_Leases_apa", indinv="IndInvA", props="Props", action="MonotoneStep",
        bounds={"Secrets": ["r0", "r1", "r2"], "Duration": 2678400, "|L|": "<= 4", "|granted|": "<= 4", "integers": "unbounded"},
        properties=["Honoured (no backdating: every expiry ever promised is still honoured)", "NoSecondLease (an add with a known renew secret adds no second lease)",
                    "MonotoneStep (Storage.tla's LeasesMonotone on every step)"],
        proof="LeasesProof", tlaps_prio=25, proof_theorems=["Inductive: Spec => []IndInv", "NoBackdating: Spec => []Honoured",
                                             "AtMostOneLeasePerSecret: Spec => []NoSecondLease", "NoBackdatingStep: Spec => [][MonotoneStep]_vars"],
        agree="AgreeLeases",
        agree_cfg=("SPECIFICATION ASpec\nCONSTANTS\n  RS = {\"r0\", \"r1\"}\n  CS = {\"c0\", \"c1\"}\n  Clocks = %(clocks)s\n  MaxGranted = 4\n"
                   "CONSTRAINT Bound\nINVARIANT OperatorsAgree\nINVARIANT CoreIndInv\nINVARIANT CoreHonoured\nINVARIANT CoreNoSecondLease\n"
                   "PROPERTY StepsAreCoreSteps\nPROPERTY CoreMonotone\nCHECK_DEADLOCK FALSE\n"),
        agree_consts={"quick": {"clocks": "{0, 1, 2}"}, "thorough": {"clocks": "{0, 1, 2, 3}"}},
        verbatim=[("storage/Storage.tla", ["HasLease", "Lease", "RenewIn", "AddOrRenew", "LeasesMonotone"], {"LL": "L"})]),
    "Serializer": dict(
        original="mutable/Serializer.tla (ARequest/AStart/AFinish/AReturn and their clauses; MCSerializer refines it: C13_Refines)", core="SerializerCore",
        broken="Serializer_broken", broken_what="the next operation starts although one is running",
        apa="MC_Serializer_apa", indinv="IndInvA", props="Props", action=None,
        bounds={"Ids": "1..5", "Len(queue), Len(reqd), Len(started)": "<= 4 (5 after the step)", "integers": "unbounded"},
        properties=["Mutex (at most one operation in progress)", "FIFO (operations start in request order)", "ReturnAfterFinish"],
        proof="SerializerProof", tlaps_prio=73,
        proof_theorems=["Inductive: Spec => []MInv", "MutualExclusion: Spec => []Mutex", "FifoInductive: Spec => []FInv", "StartInRequestOrder: Spec => []FIFO"],
        agree="AgreeSerializer",
        agree_cfg=("SPECIFICATION AgSpec\nCONSTANTS\n  N = %(N)s\n  Faulty = %(Faulty)s\nINVARIANT GuardsAgree\nINVARIANT CoreIndInv\nINVARIANT CoreMutex\n"
                   "INVARIANT CoreFIFO\nINVARIANT CoreMutexInv\nINVARIANT FormsAgree\nPROPERTY StepsAreCoreSteps\nCHECK_DEADLOCK FALSE\n"),
        agree_consts={"quick": {"N": 2, "Faulty": "{TRUE, FALSE}"}, "thorough": {"N": 3, "Faulty": "{TRUE, FALSE}"}},
        verbatim=[]),
    "Introducer": dict(
        original="net/Introducer.tla (Verifies, Duplicate, Fresh, Accepts, Process; MCIntroducer's alphabet)", core="IntroducerCore",
        broken="Introducer_broken", broken_what="sequence numbers are not compared: any integer seqnum replaces the stored one",
        apa="MC_Introducer_apa", indinv="IndInv", props="Props", action="Monotone",
        bounds={"Services": ["storage", "other"], "Keys": ["k1", "k2"], "Bodies": ["a", "b", "c"], "|seen|, |verified|": "<= 4",
                "sequence numbers": "unbounded integers"},
        properties=["NeverOlder (an older announcement never replaces a newer one)", "Monotone (Introducer.tla's MonotoneStep on every step)",
                    "Authentic (stored entries came with a verifying signature)", "SubscribedOnly"],
        proof="IntroducerProof", tlaps_prio=71, proof_theorems=["Inductive: Spec => []NInv", "OlderNeverReplacesNewer: Spec => []NeverOlder", "MonotoneSteps: Spec => [][Monotone]_vars"],
        agree="AgreeIntroducer",
        agree_cfg=("SPECIFICATION Spec\nCONSTANTS\n  Keys = {\"k1\", \"k2\"}\n  Services = %(Services)s\n  Subs0 = {\"storage\"}\n  MaxSeq = %(MaxSeq)s\n"
                   "  Bodies = {\"a\", \"b\"}\n  MaxBatch = 1\n  MaxStep = 1\n  LateSubscribe = TRUE\nINVARIANT TypeOK\nINVARIANT OperatorsAgree\n%(fold)s"
                   "INVARIANT SubscribeAgrees\nINVARIANT ConstantsAgree\nPROPERTY MonotoneAgree\nPROPERTY StepsAreCoreSteps\nCHECK_DEADLOCK FALSE\n"),
        agree_consts={"quick": {"Services": '{"storage"}', "MaxSeq": 1, "fold": ""},
                      "thorough": {"Services": '{"storage"}', "MaxSeq": 2, "fold": "INVARIANT BatchIsFold\n"}},
        verbatim=[("net/Introducer.tla", ["NoSeq", "Absent", "Entry", "Idx", "Verifies", "Duplicate", "Fresh", "Accepts", "Process", "Subscribe", "MonotoneStep"],
                   {"T": "S", "U": "T"})]),
    "Crawler": dict(
        original="storage/Crawler.tla (the ten actions of the share crawler; MCCrawler's ghosts thr / proc)", core="CrawlerCore",
        broken="Crawler_broken", broken_what="a prefix directory is declared complete although buckets of it are still to do",
        apa="MC_Crawler_apa", indinv="IndInv", props="Props", action=None,
        bounds={"NP": 3, "Universe": [10, 11, 12, 20, 21, 22, 30, 31, 32], "cycle numbers": "unbounded integers"},
        properties=["Cover (C27_Cover: at finished_cycle every bucket that existed throughout the cycle was processed, across slice ends, kills and restarts)",
                    "CycleNums (the cycle in progress is the successor of the last finished one, in memory and in the state file)"],
        proof=None, proof_theorems=[],
        agree="AgreeCrawler",
        agree_cfg=("SPECIFICATION ASpec\nCONSTANTS\n  NP = 3\n  Universe = %(Universe)s\n  MaxBuckets = %(MaxBuckets)s\n  MaxCycles = 2\n  MaxKills = %(MaxKills)s\n"
                   "  MaxChanges = 1\nINVARIANT TypeOK\nINVARIANT ListingAgrees\nINVARIANT GuardsAgree\nINVARIANT GhostsAgree\nINVARIANT CoreIndInv\nINVARIANT CoreCover\n"
                   "INVARIANT CoreCycleNums\nINVARIANT ConstAgree\nPROPERTY StepsAreCoreSteps\nPROPERTY C27_Cover\nCHECK_DEADLOCK FALSE\n"),
        agree_consts={"quick": {"Universe": "{11, 12, 21}", "MaxBuckets": 3, "MaxKills": 1},
                      "thorough": {"Universe": "{11, 12, 21, 22, 31}", "MaxBuckets": 4, "MaxKills": 1}},
        verbatim=[]),
    "GridManager": dict(
        original="net/GridManager.tla (SigOK, ValidCerts, Validate, Permitted) and the C33 clauses of net/GenGridManager.tla", core="GridManagerCore",
        broken="GridManager_broken", broken_what="a certificate is still honoured at the instant it expires (now <= expires)",
        apa="MC_GridManager_apa", apa_queries=[("clauses", "AnyState", "Clauses", 0, True)],
        bounds={"|keys|": "<= 3", "|certs|": "<= 4", "signer / subject / tamper": "any strings", "times": "unbounded integers"},
        properties=["Exact", "BadCertsIrrelevant", "NoKeysPermitsAll", "ExpiryMonotone", "MoreCertsNeverRevoke (the clauses of C33)"],
        proof="GridManagerProof", tlaps_prio=72, proof_theorems=["ClausesHold: TypeOK => Clauses", "Always: Spec => []Clauses"],
        agree="AgreeGridManager",
        agree_cfg=("SPECIFICATION GSpec\nCONSTANTS\n  Signers = {\"gm1\", \"gm2\"}\n  Configurable = {\"gm1\", \"gm2\"}\n  Subjects = {\"self\", \"other\"}\n"
                   "  Expiries = {10, 20}\n  Nows = %(Nows)s\n  MaxCerts = 2\nINVARIANT OperatorsAgree\nINVARIANT ClausesAgree\nINVARIANT CoreClauses\nCHECK_DEADLOCK FALSE\n"),
        agree_consts={"quick": {"Nows": "{9, 10, 11}"}, "thorough": {"Nows": "{9, 10, 11, 20, 21}"}},
        verbatim=[("net/GridManager.tla", ["SigOK", "ValidCerts", "Validate", "Permitted"], {"ks": "keys", "cs": "certs", "srv": "server", "t": "now"})]),
}
ORDER = ["Leases", "Serializer", "Introducer", "Crawler", "GridManager"]


def apa_queries(F, quick):
    """(query name, --init, --inv, --length, has a negative control)"""
    if "apa_queries" in F:
        return F["apa_queries"]
    inv_step = ",".join(x for x in (F["indinv"], F["props"], F["action"]) if x)
    if quick:       # base case and step in ONE query: state 0 is an initial state or any state satisfying IndInv
        return [("base+step", "BaseOrIndInit", inv_step, 1, True)]
    return [("step", "IndInit", inv_step, 1, True), ("base", "Init", F["indinv"], 0, False)]


# ------------------------------------------------------------------------------------------------------------
class Pool:
    """runs jobs in priority order on at most CORES tool threads; a job has a weight (threads it uses)"""

    def __init__(self, deadline):
        self.cv = threading.Condition()
        self.free = CORES
        self.deadline = deadline
        self.threads = []

    def submit(self, weight, need, fn, skipped):
        """blocks until `weight` cores are free; skipped() is called instead of fn(timeout) when fewer than `need` seconds are left"""
        with self.cv:
            while self.free < weight:
                self.cv.wait()
            left = self.deadline - time.time()
            if left < need:
                skipped()
                return
            self.free -= weight

        def body():
            try:
                fn(max(5, int(self.deadline - time.time())))
            finally:
                with self.cv:
                    self.free += weight
                    self.cv.notify_all()
        t = threading.Thread(target=body)
        t.start()
        self.threads.append(t)

    def join(self):
        for t in self.threads:
            t.join()


def run_cmd(cmd, cwd, env, timeout):
    t0 = time.time()
    e = dict(os.environ)
    e.pop("JAVA_TOOL_OPTIONS", None)
    e.update(env)
    try:
        p = subprocess.run(["timeout", "-k", "5", str(int(timeout))] + cmd, cwd=cwd, env=e, stdout=subprocess.PIPE, stderr=subprocess.STDOUT,
                           text=True, errors="replace", timeout=timeout + 30)
        rc, out = p.returncode, p.stdout
    except subprocess.TimeoutExpired as x:
        rc, out = 124, (x.stdout or "") if isinstance(x.stdout, str) else ""
    return rc, out, time.time() - t0


def apalache(work, module, init, inv, length, tag, timeout):
    """-> dict(verdict, wall_s, detail)"""
    outdir = os.path.join(work, "apa", tag)
    tmp = os.path.join(work, "tmp")
    os.makedirs(tmp, exist_ok=True)
    cmd = ["apalache-mc", "check", "--init=" + init, "--inv=" + inv, "--length=%d" % length, "--out-dir=" + outdir, module + ".tla"]
    rc, out, wall = run_cmd(cmd, os.path.join(work, "proofs"), dict(APA_ENV, TMPDIR=tmp), timeout)
    res = {"cmd": " ".join(cmd[:5] + [module + ".tla"]), "wall_s": round(wall, 1), "rc": rc}
    if rc in (124, 137):
        res.update(verdict="timeout", detail="no answer within %d s" % timeout)
    elif rc == 0 and "The outcome is: NoError" in out:
        m = re.findall(r"Checking (\d+) (state|action) invariants", out)
        res.update(verdict="proved", detail="no counterexample; conjuncts checked per state: %s" % sorted({"%s %s" % (n, k) for n, k in m}))
    elif rc == 12 and "The outcome is: Error" in out:
        m = re.search(r"State (\d+): (state|action) invariant (\d+) violated", out)
        cex = ""
        for root, ds, fs in os.walk(outdir):
            if "violation1.tla" in fs:
                cex = open(os.path.join(root, "violation1.tla"), errors="replace").read()
        cex = re.sub(r"\n\s+", " ", cex[cex.find("(* Initial state"):cex.find("=====")])
        res.update(verdict="refuted", detail="%s invariant %s violated in state %s" % ((m.group(2), m.group(3), m.group(1)) if m else ("?", "?", "?")),
                   counterexample=cex[:3000])
    else:
        errs = [l for l in out.splitlines() if " E@" in l or "rror" in l]
        res.update(verdict="tool_error", detail=" | ".join(errs[-3:])[:600] or out[-400:])
    return res


def tlapm(work, module, tag, timeout, stretch, threads=2):
    cache = os.path.join(work, "tlacache", tag)
    os.makedirs(cache, exist_ok=True)
    cwd = os.path.join(work, "proofs")
    rc, out, wall = run_cmd(["tlapm", "--threads", str(threads), "--stretch", str(stretch), "--cache-dir", cache, module + ".tla"], cwd, {}, timeout)
    res = {"cmd": "tlapm --threads %d --stretch %s %s.tla" % (threads, stretch, module), "wall_s": round(wall, 1), "rc": rc}
    ok = re.search(r"\[INFO\]: All (\d+) obligations? proved", out)
    bad = re.search(r"\[ERROR\]: (\d+)/(\d+) obligations? failed", out)
    if rc in (124, 137):
        res.update(verdict="timeout", detail="tlapm did not finish within %d s" % timeout)
    elif ok and rc == 0:
        res.update(verdict="proved", obligations=int(ok.group(1)), detail="all %s obligations proved" % ok.group(1))
        rc2, out2, w2 = run_cmd(["tlapm", "--summary", "--cache-dir", cache, module + ".tla"], cwd, {}, 120)
        res["wall_s"] = round(wall + w2, 1)
        holes = re.findall(r"(missing|omitted)_proofs_count = (\d+)", out2)
        if rc2 != 0 or "summary of module" not in out2:
            res.update(verdict="tool_error", detail="tlapm --summary failed: " + out2[-300:])
        elif any(int(n) for _, n in holes):
            res.update(verdict="not_proved", detail="obligations proved, but the module has omitted / missing proofs: %s" % holes)
    elif bad:
        lines = sorted({int(x) for x in re.findall(r'File "[^"]*", line (\d+), characters? [-\d]+:\n\[ERROR\]: Could not prove', out)})
        res.update(verdict="not_proved", obligations=int(bad.group(2)), failed=int(bad.group(1)), failed_lines=lines,
                   detail="%s of %s obligations not proved (lines %s)" % (bad.group(1), bad.group(2), lines))
    else:
        res.update(verdict="tool_error", detail=out[-500:])
    return res


def definition(text, name):
    """the definition of operator `name` in a module text: from `name(` / `name ==` to the next blank line or top-level definition;
    comments and whitespace removed"""
    lines = text.splitlines()
    for i, l in enumerate(lines):
        if re.match(r"%s(\(.*\))?\s*==" % re.escape(name), l):
            body = [l]
            for l2 in lines[i + 1:]:
                if not l2.startswith((" ", "\t")) or not l2.strip():
                    break
                body.append(l2)
            return re.sub(r"\s+", "", "".join(re.sub(r"\\\*.*$", "", b) for b in body))
    return None


def make_control(work, src, core, broken):
    """copy of module `src` that uses `broken` wherever `src` uses `core`; returns its name"""
    name = src + "_broken"
    text = open(os.path.join(work, "proofs", src + ".tla")).read()
    assert re.search(r"\b%s\b" % core, text), (src, core)
    text = re.sub(r"MODULE %s\b" % src, "MODULE " + name, text, count=1)
    text = re.sub(r"\b%s\b" % core, broken, text)
    with open(os.path.join(work, "proofs", name + ".tla"), "w") as f:
        f.write(text)
    return name


def run(ctx):
    from vfw import core as vcore
    quick = ctx.quick
    t0 = time.time()
    budget = int(os.environ.get("VERIF_PROOFS_BUDGET", "105" if quick else "5400"))
    deadline = t0 + budget
    work = ctx.workdir
    shutil.copytree(PROOFS, os.path.join(work, "proofs"), ignore=shutil.ignore_patterns("tmp", ".tlacache", "*.cfg"))
    ctx.rule = ("one evaluation = one tool query (Apalache base / step / control, tlapm proof / control) or one TLC agreement run; "
                "non-trivial = the query was answered (proved, or a control refuted). Quick tier: the queries are started in a fixed "
                "priority order (for Leases, Serializer, Introducer: one Apalache query for base case + induction step, its negative control; "
                "the TLAPS proof of the leases; their TLC agreement runs with small constants; then the same for Crawler and GridManager; "
                "then the TLAPS proofs of introducer, grid manager, serializer) until a time budget of %d s is used up; what did not "
                "fit is listed as NOT RUN. Thorough: base and step as separate queries, every TLAPS proof, every control (also of the TLAPS proofs), "
                "larger agreement runs." % budget)
    if quick:
        ctx.notes.append("quick tier: the negative controls of the TLAPS proofs and the separate base-case queries belong to the thorough tier")
    ctx.assumptions += [
        "Apalache 0.58.0: soundness of its SMT encoding (Z3) and of the type annotations; the induction step is checked from states whose "
        "sets / sequences have at most the stated number of elements (Gen), integers are unbounded",
        "TLAPS (tlapm 1.6.0-pre): soundness of the back ends (SMT, Zenon, Isabelle, PTL) - no proof certificate is re-checked (-C not used)",
        "the proved modules are re-statements (spec/proofs/<Name>Core.tla) of the modules the registered checks use; the TLC agreement "
        "runs compare them on a bounded state space only",
        "negative controls are the committed <Name>_broken.tla modules; the control wrapper / proof is the committed one with the core's name replaced"]
    records = []
    lock = threading.Lock()

    def rec(family, query, tool, control, res, **more):
        r = dict(family=family, query=query, tool=tool, control=control, **more)
        r.update(res)
        with lock:
            records.append(r)
        return r

    # -------- textual drift of the verbatim parts (a note; the TLC agreement run is the judge) --------
    for fam in ORDER:
        F = FAMILIES[fam]
        coretext = open(os.path.join(PROOFS, F["core"] + ".tla")).read()
        for orig, names, rename in F.get("verbatim", []):
            otext = open(os.path.join(vcore.SPEC, orig)).read()
            ctext = coretext
            for a, b in rename.items():                  # parameter names that had to change because the core has a variable of that name
                ctext = re.sub(r"\b%s\b" % a, "\0" + b, ctext)
            ctext = ctext.replace("\0", "")
            diff = [n for n in names if definition(ctext, n) is None or definition(ctext, n) != definition(otext, n)]
            if diff:
                ctx.notes.append("%s: the definitions of %s in %s.tla are no longer character-identical to %s (the agreement run decides whether they still mean the same)"
                                 % (fam, diff, F["core"], orig))
            else:
                ctx.notes.append("%s: %s are character-identical (comments, white space and the parameter names %s aside) in %s.tla and %s"
                                 % (fam, ", ".join(names), json.dumps(rename), F["core"], orig))
        btext = open(os.path.join(PROOFS, F["broken"] + ".tla")).read().splitlines()
        changed = [b for a, b in zip(coretext.splitlines(), btext) if a != b][1:]
        F["_broken_lines"] = changed if len(btext) == len(coretext.splitlines()) else ["(modules differ in length)"]

    # -------- the jobs, in priority order --------
    pool = Pool(deadline)
    jobs = []          # (priority, weight, need_seconds, family, query, tool, control, callable(timeout)->res)

    def add(prio, weight, need, family, query, tool, control, fn, **more):
        jobs.append((prio, len(jobs), weight, need, family, query, tool, control, fn, more))

    per_job = 100 if quick else 900
    for n, fam in enumerate(ORDER):
        F = FAMILIES[fam]
        if F.get("thorough_only") and quick:
            ctx.notes.append("%s: thorough tier only" % fam)
            continue
        consts = F["agree_consts"]["quick" if quick else "thorough"]
        ctx.constants[fam] = {"apalache_bounds": F["bounds"], "agreement_run": consts, "core": F["core"] + ".tla", "restates": F["original"],
                              "properties": F["properties"], "tlaps_theorems": F["proof_theorems"],
                              "control": {"module": F["broken"] + ".tla", "what": F["broken_what"], "changed_lines": F["_broken_lines"]}}
        if F.get("apa"):
            cmod = make_control(work, F["apa"], F["core"], F["broken"])
            for qn, (q, init, inv, length, has_control) in enumerate(apa_queries(F, quick)):
                add(((10 if n < 3 else 44) + 2 * n) if has_control else (80 + n), 1, 25, fam, q, "apalache", False,
                    lambda t, F=F, fam=fam, q=q, init=init, inv=inv, length=length: apalache(work, F["apa"], init, inv, length, "%s_%s" % (fam, q), min(t, per_job)),
                    module=F["apa"] + ".tla", init=init, invariant=inv, length=length, bounds=F["bounds"])
                if has_control:
                    add((11 if n < 3 else 45) + 2 * n, 1, 25, fam, q, "apalache", True,
                        lambda t, fam=fam, q=q, init=init, inv=inv, length=length, cmod=cmod: apalache(work, cmod, init, inv, length, "%s_%s_control" % (fam, q), min(t, per_job)),
                        module=cmod + ".tla (generated: %s with %s)" % (F["apa"], F["broken"]), init=init, invariant=inv, length=length, bounds=F["bounds"])
        if F["proof"]:
            add(F["tlaps_prio"], 2, 25, fam, "tlaps", "tlapm", False,
                lambda t, F=F, fam=fam: tlapm(work, F["proof"], fam, min(t, per_job * 2), 2),
                module=F["proof"] + ".tla", invariant="; ".join(F["proof_theorems"]), bounds="none (unbounded)")
            if not quick:
                pmod = make_control(work, F["proof"], F["core"], F["broken"])
                add(90 + n, 2, 60, fam, "tlaps", "tlapm", True,
                    lambda t, F=F, fam=fam, pmod=pmod: tlapm(work, pmod, fam + "_control", min(t, per_job * 2), 1),
                    module=pmod + ".tla (generated: %s with %s)" % (F["proof"], F["broken"]), invariant="; ".join(F["proof_theorems"]),
                    bounds="none (unbounded)")
        if F.get("agree"):
            def agree(t, F=F, fam=fam, consts=consts):
                w0 = time.time()
                r = ctx.mc("proofs/" + F["agree"], F["agree_cfg"] % consts, name="TLC agreement %s" % fam, timeout=max(30, min(t, per_job * 2)), workers=1,
                           coverage=False)
                return {"cmd": "TLC %s.tla" % F["agree"], "wall_s": round(time.time() - w0, 1), "rc": 0,
                        "verdict": "proved" if not r.violated else "refuted", "states": r.states,
                        "detail": "%d distinct states, violated: %s" % (r.states, r.violated or "nothing")}
            add((30 if n < 3 else 56) + n, 1, 30, fam, "agree", "tlc", False, agree, module=F["agree"] + ".tla", invariant="see the cfg in check.py", bounds=consts)

    jobs.sort()
    failures = []

    def launch(job):
        prio, _, weight, need, fam, query, tool, control, fn, more = job

        def skipped():
            rec(fam, query, tool, control, {"verdict": "skipped", "wall_s": 0, "detail": "quick-tier time budget (%d s) used up" % budget}, **more)

        def body(timeout):
            try:
                res = fn(timeout)
                if tool == "tlapm" and not control and res["verdict"] == "not_proved" and res.get("failed") and deadline - time.time() > 60:
                    # obligations that ran out of time on a loaded machine: once more with longer back-end timeouts (proved ones are cached)
                    res2 = tlapm(work, FAMILIES[fam]["proof"], fam, min(max(5, int(deadline - time.time())), per_job * 2), 6)
                    res2["first_attempt"] = res["detail"]
                    res2["wall_s"] = round(res2["wall_s"] + res["wall_s"], 1)
                    if res2["verdict"] in ("timeout", "tool_error"):       # keep the informative answer
                        res = dict(res, wall_s=res2["wall_s"], retry="second attempt with 3x longer back-end timeouts: " + res2["verdict"])
                    else:
                        res = res2
            except vcore.MachineryError as e:
                res = {"verdict": "timeout" if "timed" in str(e)[:200] else "tool_error", "wall_s": 0, "detail": str(e)[:400]}
            except Exception as e:                                   # noqa
                res = {"verdict": "tool_error", "wall_s": 0, "detail": repr(e)[:400]}
                failures.append(repr(e))
            rec(fam, query, tool, control, res, **more)
        pool.submit(weight, need, body, skipped)

    for job in jobs:
        launch(job)
    pool.join()

    # -------- verdicts --------
    order = {(j[4], j[5], j[7]): i for i, j in enumerate(jobs)}
    records.sort(key=lambda r: order[(r["family"], r["query"], r["control"])])
    summary = {}
    for r in records:
        name = "%s:%s%s" % (r["family"], r["query"], ":control" if r["control"] else "")
        v = r["verdict"]
        F = FAMILIES[r["family"]]
        line = "%s [%s, %s, %.0f s]: %s - %s" % (name, r["tool"], r["module"], r["wall_s"], v.upper(), r["detail"])
        ctx.count(name if v in ("proved", "refuted", "not_proved") else None)
        if r["control"]:
            broken_ok = (v == "refuted") if r["tool"] == "apalache" else (v == "not_proved" and r.get("failed", 0) > 0)
            if broken_ok:
                summary[name] = "control fails as it must"
                ctx.notes.append("control " + line + " -> the weakened module (%s) is rejected, as it must be" % F["broken_what"])
            elif v == "proved":
                summary[name] = "CONTROL ACCEPTED"
                ctx.report("%s:control_not_refuted:%s:%s" % (KEY, F["broken"], r["tool"]),
                           "negative control accepted: %s proves %s for %s although %s" % (r["tool"], r["invariant"], F["broken"] + ".tla", F["broken_what"]),
                           {"kind": "proof-control", "record": r})
            else:
                summary[name] = "control inconclusive (%s)" % v
                ctx.notes.append("control INCONCLUSIVE " + line)
        else:
            summary[name] = v
            if v == "proved":
                ctx.notes.append(line)
            elif v == "refuted" and r["tool"] == "apalache":
                ctx.report("%s:refuted:%s:%s" % (KEY, r["family"], r["query"]),
                           "Apalache refutes %s of %s (%s): %s; counterexample %s" % (r["invariant"], r["module"], r["query"], r["detail"], r.get("counterexample", "")[:1500]),
                           {"kind": "apalache-counterexample", "record": r})
            elif v == "refuted":
                ctx.notes.append("agreement run: " + line + " (reported as spec:%s:<invariant>)" % F["agree"])
            elif v == "skipped":
                ctx.notes.append("NOT RUN " + line)
                print("NOT-RUN %s: %s" % (name, r["detail"][:300]))
            else:
                ctx.notes.append("NOT PROVED " + line)
                print("NOT-PROVED %s (%s): %s" % (name, v, r["detail"][:300]))
        ctx.sample({k: r[k] for k in ("family", "query", "tool", "control", "module", "init", "invariant", "length", "bounds", "verdict", "wall_s", "detail") if k in r}, limit=12)
    ctx.constants["queries"] = [{k: v for k, v in r.items() if k != "counterexample"} for r in records]
    ctx.constants["summary"] = summary
    ctx.constants["tool_versions"] = {"apalache": "0.58.0", "tlapm": "1.6.0-pre", "cores_used_at_most": CORES, "budget_s": budget}
    done = [r for r in records if r["verdict"] != "skipped"]
    ctx.exhaustive = len(done) == len(records) and all(
        r["verdict"] == "proved" or (r["control"] and r["verdict"] in ("refuted", "not_proved")) for r in records)
    ctx.notes.append("%d queries: %d proved, %d controls rejected, %d not proved / timeout / tool error, %d skipped; wall %.0f s" % (
        len(records), sum(1 for r in records if not r["control"] and r["verdict"] == "proved"),
        sum(1 for r in records if r["control"] and r["verdict"] in ("refuted", "not_proved")),
        sum(1 for r in records if r["verdict"] in ("timeout", "tool_error") or (not r["control"] and r["verdict"] == "not_proved")),
        sum(1 for r in records if r["verdict"] == "skipped"), time.time() - t0))
    print(json.dumps(summary, indent=1))
