"""X-encoder_protocol: the immutable upload encoder (immutable/encode.py Encoder) as a protocol towards its share
writers (IStorageBucketWriter) and its ciphertext source (IEncryptedUploadable).

MC    spec/immutable/MCEncoderProtocol: N = 3 writers, 2 segments, every call of every writer answered or failing in
      any order, shared / distinct servers, shares that already exist elsewhere, Encoder.abort(); invariants XE_* over
      independent history variables (call order, one phase at a time, nothing after a failure but abort, every writer
      closed or aborted at the end, success iff still happy, failure justified, shares placed, abort honoured) and the
      content lemmas of EncoderProtocol (ASSUME: the share hash chain sent to writer i is exactly what
      HashTree.SetHashes needs to validate leaf i from the root; hash-tree / share sizes agree with Layout).  Each
      named deviation switched on must make TLC name one of the listed invariants.
TRACE real Encoder runs (harness/encoder_driver.py: recording / failing fake bucket writers, minimal
      IEncryptedUploadable, virtual reactor) validated by spec/immutable/TraceEncoderProtocol: order of calls, what
      every writer receives (its block of each segment vs Codec.tla, the crypttext hash tree, its block hash tree, its
      share hash chain vs HashTree.tla, the UEB vs Layout.tla), reaction to failures (Happiness.tla), result and
      verify cap."""
import collections, json, os

INVARIANTS = ["XE_CallOrder", "XE_OnePhaseAtATime", "XE_NoCallAfterFailure", "XE_EndClosedOrAborted", "XE_SharesPlaced",
              "XE_SuccessMeetsHappiness", "XE_FailureJustified", "XE_ResultKinds", "XE_AbortHonoured", "XE_ReadsInOrder"]

# deviation -> invariants one of which TLC has to report
EXPECTED = {"dropped_not_aborted": {"XE_EndClosedOrAborted"},
            "failure_without_abort": {"XE_EndClosedOrAborted"},
            "next_phase_early": {"XE_OnePhaseAtATime"},
            "servermap_not_updated": {"XE_SuccessMeetsHappiness"},
            "success_when_unhappy": {"XE_SuccessMeetsHappiness"}}


def mc_cfg(names, dev=()):
    return ("SPECIFICATION Spec\nCONSTANTS\n  ConfigNames = {%s}\n  Deviations = {%s}\n" % (
        ", ".join('"%s"' % x for x in names), ", ".join('"%s"' % d for d in dev))
        + "".join("INVARIANT %s\n" % i for i in INVARIANTS))      # deadlock checking on: a stuck encoder is a hang


def key_of(tr, l, clause):
    e = tr["events"][l - 1]
    return "trace:%s:%s" % (clause, e.get("m") or e["ev"])


def what_of(tr, l, clause):
    c = tr["consts"]
    e = dict(tr["events"][l - 1])
    hist = []
    for x in tr["events"][:l]:
        if x["ev"] == "call":
            hist.append("%s(w%d%s)" % (x["m"], x["w"], ",%d" % x["seg"] if "seg" in x else ""))
        elif x["ev"] == "ret":
            hist.append("%s<-w%d" % ("ok" if x["ok"] else "FAIL", x["w"]))
        else:
            hist.append(x["ev"])
    return ("encoder run size=%d k=%d n=%d seg=%d happy=%d writers=%s peers=%s servermap=%s answers=%s fail_at=%s abort_at=%s: event %d %s "
            "rejected by clause %s; history: %s" % (
                c["size"], c["k"], c["n"], c["seg"], c["happy"], c["writers"], c["peers"], json.dumps(c["smap0"]), c["mode"],
                c["fail_at"], c["user_abort"], l, json.dumps(e, sort_keys=True)[:400], clause, " ".join(hist)[-1200:]))


def run(ctx):
    q = ctx.quick
    # ---- design level ------------------------------------------------------------------------------------------
    names = ["distinct_h2_abort", "shared_h2", "existing_h3"]
    if not q:
        names += ["distinct_h3_abort", "distinct_h1", "all_existing_h2_abort", "three_segments_h2", "k1_one_segment_h2_abort",
                  "two_writers_existing_h2_abort"]
    ctx.constants["MCEncoderProtocol"] = {"ConfigNames": names, "Deviations": []}
    ctx.mc("immutable/MCEncoderProtocol", mc_cfg(names), name="MC encoder protocol: %s" % ", ".join(names), timeout=3000)
    devs = ["dropped_not_aborted", "servermap_not_updated"]
    if not q:
        devs += ["next_phase_early", "failure_without_abort", "success_when_unhappy"]
    for dev in ([] if os.environ.get("VERIF_SKIP_MC") else devs):
        r = ctx.mc("immutable/MCEncoderProtocol", mc_cfg(["distinct_h2"], dev=(dev,)), name="MC deviation %s" % dev, expect_ok=False,
                   timeout=3000, coverage=False)
        if not set(r.violated) & EXPECTED[dev]:
            ctx.report(key="spec:deviation_not_detected:%s" % dev,
                       what="MCEncoderProtocol with deviation %s switched on violates none of %s (violated: %s): the invariants do not "
                            "separate the intended protocol from the deviation" % (dev, sorted(EXPECTED[dev]), r.violated))
        ctx.notes.append("deviation %s: TLC reports %s" % (dev, sorted(set(r.violated))))

    # ---- implementation level ----------------------------------------------------------------------------------
    n = 300 if q else 6000
    out = ctx.impl("harness/encoder_driver.py", ["--n", n], timeout=3000)
    traces = out["traces"]
    outcomes, stats = collections.Counter(), collections.Counter()
    for t in traces:
        c = t["consts"]
        r = [e for e in t["events"] if e["ev"] == "result"]
        outcomes[(r[0]["kind"] + ("/" + r[0]["cls"] if r[0]["kind"] == "failure" else "")) if r else "no result"] += 1
        fails = [e for e in t["events"] if e["ev"] == "ret" and not e["ok"]]
        for e in fails:
            stats["failed " + e["m"]] += 1
        stats["calls"] += sum(1 for e in t["events"] if e["ev"] == "call")
        stats["answers " + c["mode"]] += 1
        if any(e["ev"] == "user_abort" for e in t["events"]):
            stats["abort()"] += 1
        if any(rep != [s, i] for s, row in enumerate(c["canon"]) for i, rep in enumerate(row)):
            stats["runs with blocks of equal bytes"] += 1
        nontrivial = bool(fails) or any(e["ev"] == "user_abort" for e in t["events"])
        ctx.count(json.dumps([{x: c[x] for x in ("size", "k", "n", "seg", "happy", "writers", "peers", "smap0")},
                              [(e["ev"], e.get("w"), e.get("m"), e.get("ok")) for e in t["events"]]], sort_keys=True) if nontrivial else None)
    ctx.notes.append("outcomes of the real encoder runs: %s" % dict(outcomes))
    ctx.notes.append("statistics of the real runs: %s" % dict(sorted(stats.items())))
    ctx.sample({"consts": traces[0]["consts"], "events": traces[0]["events"][:12]}, limit=2)
    ctx.trace("immutable/TraceEncoderProtocol", traces, key_of=key_of, what_of=what_of, workers=4, batch=1500, timeout=3000)
    ctx.rule = ("MC: every behaviour of the encoder / writer model over the listed constants (intended protocol: all XE_ invariants, no "
                "deadlock; each deviation: TLC must report one of the invariants listed for it). TRACE: %d seeded runs of the real Encoder "
                "(k 1..3, n k..%d, segment size k..3k, 1..%d segments with a short / padded tail, 1..n writers on 1..5 servers, shares "
                "that already exist on other servers in the servermap, happy 1..initial happiness; answers immediate / parked and "
                "delivered in random order / mixed; one failing call per writer with probability 0 / 0.35 / 0.8 or exactly one failing "
                "call; Encoder.abort() at a random moment in 12%% of the runs). Non-trivial: a call failed or abort() was called."
                % (n, 4 if q else 5, 3 if q else 4))
    ctx.assumptions += ["TLC and the CommunityModules; Layout.tla / Codec.tla / HashTree.tla / Happiness.tla (checked by C01, C36, C35, C08)",
                        "the virtual reactor; fake writers and uploadable answer through Deferreds exactly as the interfaces say; a failing "
                        "call fails with an ordinary exception (not with a synchronous raise)",
                        "abstractions made by the driver: hashes are named by closing block_hash(reference block) / "
                        "crypttext_segment_hash / crypttext_hash / empty_leaf_hash under pair_hash (allmydata.util.hashutil and "
                        "allmydata.hashtree primitives; collision freedom); reference blocks come from zfec applied to what the encoder "
                        "read, zero-padded at the end to the length it asked for; blocks with equal bytes share one name (consts.canon); "
                        "the UEB is parsed by the driver's own parser of the documented serialization",
                        "verdicts depend on the recorded trace only"]
