"""X-web_ophandles - the web API's slow-operation handles (docs/frontends/webapi.rst, "Slow Operations, Progress,
and Cancelling"; allmydata/web/operations.py OphandleTable; web/directory.py t=start-manifest / start-deep-size /
start-deep-stats / start-deep-check).

Design level: TLC model-checks spec/frontends/MCOpHandles (handle table with expiry timers over a virtual clock,
one operator pair per request, environment steps Complete / Advance) against the documented lifetime rules stated
over a timer-free history of each handle name.
Implementation level: seeded histories of start / status / cancel requests, clock advances and slices of grid work
against the real Root + OphandleTable of a real gateway (harness/ophandle_driver.py) are validated event by event by
TLC against TraceOpHandles: every status code, finished flag, presence of the handle, which operation the page
belongs to, results equal to the synchronous traversal of the same directory, and "cancel stops the traversal".
"""
import json

INVARIANTS = ["OH_ValidWhileRunning", "OH_UncollectedFourDays", "OH_CollectedOneDay", "OH_RetainFor", "OH_ReleasedIsGone",
              "OH_Presence", "OH_Unknown404", "OH_FinishedFlag", "OH_ResultsIffFinished", "OH_PageOfNamedOperation",
              "OH_StartRedirects", "OH_BadStartRefused", "OH_CancelReleases", "Inv_StateOK"]
PROPERTIES = ["OH_CancelStops", "OH_TimeMonotone", "OH_BadStartChangesNothing"]


def mc_cfg(c):
    return ("SPECIFICATION Spec\nCONSTANTS\n  Handles = %(Handles)s\n  KindsMC = %(KindsMC)s\n  Dirs = %(Dirs)s\n"
            "  Retains = %(Retains)s\n  Advances = %(Advances)s\n  MaxOps = %(MaxOps)d\n  MaxStarts = %(MaxStarts)d\n" % c
            + "".join("INVARIANT %s\n" % i for i in INVARIANTS) + "".join("PROPERTY %s\n" % p for p in PROPERTIES)
            + "CHECK_DEADLOCK FALSE\n")


def reused(tr, l):
    """the handle of event l had been registered before its latest registration (the name is re-used)"""
    e = tr["events"][l - 1]
    h = e.get("h")
    return sum(1 for x in tr["events"][:l] if x["ev"] == "Start" and x["h"] == h) > 1


def key_of(tr, l, clause):
    e = tr["events"][l - 1]
    return "trace:%s:%s:%s" % ("reused" if reused(tr, l) else "fresh", clause, e["ev"])


def what_of(tr, l, clause):
    e = tr["events"][l - 1]
    hist = [dict((k, v) for k, v in x.items() if k in ("ev", "h", "kind", "dir", "dt", "quiet", "release") or
                 (k == "retain" and v["given"])) for x in tr["events"][:l]]
    return "real gateway vs OpHandles.tla at event %d %s: clause %s; history (%s/%s): %s" % (
        l, json.dumps(e)[:300], clause, tr["consts"]["family"], tr["consts"]["template"], json.dumps(hist)[:1500])


def run(ctx):
    q = ctx.quick
    ctx.rule = ("MC: every history (<= MaxOps steps) of start(handle, kind, retain-for) / status(handle, retain-for, "
                "release-after-complete) / cancel(handle) / completion of a traversal / clock advance over the handle names, names "
                "re-used after expiry, cancel, release and while present. TRACE: seeded histories against the real gateway: 50% random "
                "walks and 30% scripted boundary templates with fresh handle names, 20% with re-used names; 4 directory trees (1-4 "
                "directories, CHK/LIT/SDMF files, one shared subdirectory), 4 operation kinds, retain-for in {0,60,600,3600,100000,400000}, "
                "clock steps on and next to the documented lifetimes. A history is non-trivial if a registered handle was seen both "
                "present and gone, or a finished page with full results was served.")
    ctx.assumptions += [
        "TLC and the CommunityModules",
        "the gateway's clock is the virtual reactor and time.time is rebound to it; time passes only between requests",
        "remote storage calls are parked while requests are served; an operation has ended when no parked call names a storage "
        "index of its directory tree (one operation per tree at a time, trees with disjoint storage indexes)",
        "the synchronous reference results are those of POST t=stream-manifest / t=stream-deep-check on the unchanged tree "
        "(t=manifest / t=deep-size / t=deep-stats GETs no longer exist in this code base)",
        "re-registering a handle that is still present is not documented: its lifetime is left open (loose) until a request sets it",
    ]
    # quick: one handle name (used again after it is gone / while present), 5 steps: every lifetime rule incl. "or the total time
    # consumed by the operation" (clock step of 5 days); thorough: two names, 6 steps, two kinds
    consts = dict(Handles='{"h1"}' if q else '{"h1", "h2"}', KindsMC='{"manifest"}' if q else '{"manifest", "deep-stats"}',
                  Dirs='{"A"}', Retains="{600}", Advances="{600, 86400, 345600, 432000}", MaxOps=5 if q else 6,
                  MaxStarts=2 if q else 3)
    ctx.constants["MC"] = consts
    ctx.mc("frontends/MCOpHandles", mc_cfg(consts), name="MC OpHandles", timeout=3000)

    n = 150 if q else 1500
    ev = 22 if q else 40
    out = ctx.impl("harness/ophandle_driver.py", ["--n", n, "--events", ev])
    traces = out["traces"]
    ctx.constants["TRACE"] = out["info"]
    stats = {"requests": 0, "status_ok": 0, "status_404": 0, "finished_pages": 0, "cancels_ok": 0, "advances": 0, "work": 0,
             "operations": 0, "cancelled_before_end": 0}
    for tr in traces:
        seen_present, seen_gone, fin = set(), set(), False
        started = set()
        for e in tr["events"]:
            if e["ev"] in ("Start", "Status", "Cancel"):
                stats["requests"] += 1
            if e["ev"] == "Start":
                started.add(e["h"]); stats["operations"] += 1
            elif e["ev"] == "Status":
                if e["res"]["cls"] == "ok":
                    stats["status_ok"] += 1; seen_present.add(e["h"])
                    if e["res"]["finished"] and e["res"]["full"]:
                        fin = True; stats["finished_pages"] += 1
                elif e["h"] in started:
                    stats["status_404"] += 1; seen_gone.add(e["h"])
            elif e["ev"] == "Cancel":
                if e["res"]["cls"] == "ok":
                    stats["cancels_ok"] += 1
                    if not e["res"]["finished"]:
                        stats["cancelled_before_end"] += 1
            elif e["ev"] == "Advance":
                stats["advances"] += 1
            elif e["ev"] == "Work":
                stats["work"] += 1
        nontrivial = fin or (seen_present & seen_gone)
        ctx.count(json.dumps([[e["ev"], e.get("h", ""), e.get("kind", ""), e.get("dt", 0), e.get("retain", {}).get("secs", -1),
                               e.get("release", False)] for e in tr["events"]]) if nontrivial else None)
    ctx.sample({"family": traces[0]["consts"]["family"], "events": traces[0]["events"][:10]}, limit=2)
    ctx.notes.append("histories: %d (%s); events: %d; %s" % (
        len(traces), ", ".join("%s %d" % (f, sum(1 for t in traces if t["consts"]["family"] == f)) for f in ("fresh", "reuse")),
        sum(len(t["events"]) for t in traces), json.dumps(stats)))
    ctx.trace("frontends/TraceOpHandles", traces, key_of=key_of, what_of=what_of, batch=500)
    ctx.exhaustive = False
