"""X-upload_protocol: the server-selection conversation of an immutable upload (Tahoe2ServerSelector,
ServerTracker, CHKUploader.set_shareholders / _encrypted_done) as communicating steps.

MC   spec/immutable/MCUploadProtocol: survey of the first 2N servers, placement (Happiness.tla), one allocate_buckets
     round trip per tracker and round, errors / timeouts / late answers, re-planning with abort of the buckets the
     new plan does not use, termination rule, set_shareholders, push + close with shareholder loss, result object.
     With Deviations = {} all XP_ invariants hold; with each named deviation of the implementation switched on TLC
     must name the invariant it breaks (otherwise the extra reports spec:deviation_not_detected).
TRACE real uploads on SimGrid grids (harness/uploadproto_driver.py) - every get_buckets / allocate_buckets request
     as it leaves the client, every timeout, every delivered call with its answer, aborts, closes, the result object,
     the disks after quiescence - validated by spec/immutable/TraceUploadProtocol (contract level: remote calls and
     the result only)."""
import collections, json, os

S3 = '{"s1", "s2", "s3"}'
S4 = '{"s1", "s2", "s3", "s4"}'
W, RO, FULL = '"writable"', '"readonly"', '"full"'

INVARIANTS = ["XP_OnlySurveyedServersAreAsked", "XP_ShareOncePerRound", "XP_NoNewShareFromReadOnly", "XP_NothingAllocatedOnReadOnly",
              "XP_OneTrackerPerShare", "XP_NeverDies", "XP_UnusedAbortedBeforeResult", "XP_QuiescentNoOrphanBuckets",
              "XP_ResultMatchesAcknowledgements", "XP_SuccessMeetsHappiness", "XP_FailureIsJustified",
              "XP_NoServersOnlyWithoutServers", "XP_HappinessOfRenewedShares", "XP_ReadOnlyServersRenewed", "XP_RoundsBounded",
              "XP_UnreachableNeverSucceeds", "XP_ReachableSucceeds"]

# deviation -> invariants one of which TLC has to report
EXPECTED = {"keep_stale_buckets": {"XP_OneTrackerPerShare", "XP_NeverDies", "XP_UnusedAbortedBeforeResult", "XP_QuiescentNoOrphanBuckets"},
            "late_answer_leak": {"XP_UnusedAbortedBeforeResult", "XP_QuiescentNoOrphanBuckets"},
            "count_unrenewed": {"XP_HappinessOfRenewedShares"},
            "refuser_stays_writable+stop_without_improvement": {"XP_ReachableSucceeds"},
            "refuser_stays_writable": {"XP_RoundsBounded"}}


def consts(servers=S3, order="Order3", n=2, k=1, happy=2, modes=(W, FULL), maxpre=0, faults=1, dev=(), best=False):
    return collections.OrderedDict([("Servers", servers), ("Order", order), ("NShares", n), ("K", k), ("Happy", happy),
                                    ("ModeSet", "{%s}" % ", ".join(modes)), ("MaxPre", maxpre), ("MaxFaults", faults),
                                    ("Deviations", "{%s}" % ", ".join('"%s"' % d for d in dev)),
                                    ("BestSpreadOnly", "TRUE" if best else "FALSE")])


def mc_cfg(c):
    txt = "SPECIFICATION Spec\nCONSTANTS\n"
    for k, v in c.items():
        txt += "  %s %s %s\n" % (k, "<-" if k == "Order" else "=", v)
    return txt + "".join("INVARIANT %s\n" % i for i in INVARIANTS)      # deadlock checking on: a stuck conversation is a hang


def key_of(tr, l, clause):
    e = tr["events"][l - 1]
    if clause == "XP_UnexpectedDeath":
        return "trace:%s:%s@%s" % (clause, e.get("cls", "?"), e.get("where", "?"))
    return "trace:%s:%s" % (clause, e["ev"])


def what_of(tr, l, clause):
    c = tr["consts"]
    e = dict(tr["events"][l - 1])
    e.pop("msg", None)
    conv = [x for x in tr["events"][:l] if x["ev"] in ("Send", "Recv", "Timeout")]
    short = ["%s%s %s%s" % (x["ev"][0], x.get("kind", "")[:1], x["srv"],
                            (" ask%s" % x["asked"]) if x["ev"] == "Send" and x["kind"] == "alloc" else
                            (" %s got%s new%s" % ("ok" if x["ok"] else ("lost" if x["lost"] else "err"), x["already"], x["allocated"])) if x["ev"] == "Recv" and x["kind"] == "alloc" else
                            (" %s has%s" % ("ok" if x["ok"] else ("lost" if x["lost"] else "err"), x["res"])) if x["ev"] == "Recv" else "")
             for x in conv]
    return ("upload k=%d n=%d happy=%d, permuted servers %s, modes %s, pre-existing %s: event %d %s rejected by clause %s; conversation: %s" % (
        c["k"], c["n"], c["happy"], c["order"], json.dumps(c["modes"], sort_keys=True), json.dumps(c["pre"], sort_keys=True), l,
        json.dumps(e, sort_keys=True)[:300], clause, "; ".join(short)[:900]))


def run(ctx):
    q = ctx.quick
    # ---- design level: the intended protocol --------------------------------------------------------------------
    intended = [("refusals+faults", consts(modes=(W, FULL), maxpre=0, faults=1)),
                ("readonly+existing, best spread", consts(modes=(W, RO), maxpre=1, faults=0, best=True))]
    if not q:
        intended += [("3 modes, 1 fault", consts(modes=(W, RO, FULL), maxpre=1, faults=1)),
                     ("N=3 k=2 best spread", consts(n=3, k=2, happy=2, modes=(W, RO, FULL), maxpre=1, faults=0, best=True)),
                     ("2N < servers", consts(n=1, k=1, happy=1, modes=(W, RO, FULL), maxpre=1, faults=2)),
                     ("no servers", consts(order="Order0", modes=(W,), maxpre=0, faults=0)),
                     ("4 servers N=3 k=2", consts(servers=S4, order="Order4", n=3, k=2, happy=3, modes=(W, FULL), maxpre=0, faults=1, best=True))]
    for i, (name, c) in enumerate(intended):
        ctx.constants["MCUploadProtocol_%d (%s)" % (i, name)] = dict(c)
        # action coverage (slow on the larger configurations) is collected on the first configuration
        ctx.mc("immutable/MCUploadProtocol", mc_cfg(c), name="MC upload protocol: %s" % name, timeout=3000, coverage=(i == 0))
    # ---- design level: each named deviation of the implementation breaks a stated invariant --------------------
    devs = [("keep_stale_buckets", consts(modes=(W, FULL), maxpre=0, faults=0, dev=("keep_stale_buckets",))),
            ("late_answer_leak", consts(modes=(W,), maxpre=0, faults=1, dev=("late_answer_leak",))),
            ("count_unrenewed", consts(modes=(W,), maxpre=1, faults=1, dev=("count_unrenewed",))),
            ("refuser_stays_writable+stop_without_improvement",
             consts(modes=(W, FULL), maxpre=0, faults=0, best=True, dev=("refuser_stays_writable", "stop_without_improvement")))]
    if not q:
        devs.append(("refuser_stays_writable", consts(modes=(W, FULL), maxpre=0, faults=0, best=True, dev=("refuser_stays_writable",))))
    for dev, c in ([] if os.environ.get("VERIF_SKIP_MC") else devs):     # (mutant sweeps skip the Spec-only runs)
        r = ctx.mc("immutable/MCUploadProtocol", mc_cfg(c), name="MC deviation %s" % dev, expect_ok=False, timeout=3000, coverage=False)
        hit = set(r.violated) & EXPECTED[dev]
        if not hit:
            ctx.report(key="spec:deviation_not_detected:%s" % dev,
                       what="MCUploadProtocol with deviation %s switched on violates none of %s (violated: %s): the invariants do not "
                            "separate the intended protocol from the deviation" % (dev, sorted(EXPECTED[dev]), r.violated))
        ctx.notes.append("deviation %s: TLC reports %s" % (dev, sorted(set(r.violated))))

    # ---- implementation level ----------------------------------------------------------------------------------
    n = 130 if q else 3000
    out = ctx.impl("harness/uploadproto_driver.py", ["--n", n], timeout=3000)
    traces = out["traces"]
    outcomes, faults = collections.Counter(), collections.Counter()
    for t in traces:
        c = t["consts"]
        r = [e for e in t["events"] if e["ev"] in ("Success", "Failure", "Hang")][0]
        if r["ev"] == "Failure":
            outcomes["%s/%s" % (r["cls"], r.get("msgclass", ""))] += 1
        else:
            outcomes[r["ev"]] += 1
        rounds, open_ = 0, False
        for e in t["events"]:
            if e["ev"] == "Send" and e["kind"] == "alloc":
                if not open_:
                    rounds, open_ = rounds + 1, True
            elif e["ev"] in ("Recv", "Timeout"):
                open_ = False
                if e["ev"] == "Timeout":
                    faults["timeout"] += 1
                elif e["lost"]:
                    faults["lost"] += 1
                elif not e["ok"]:
                    faults["error"] += 1
        faults["rounds=%d" % rounds] += 1
        nontrivial = c["profile"] != "clean" and (rounds > 1 or any(m != "writable" for m in c["modes"].values()) or any(c["pre"].values()) or c["oneshot"])
        ctx.count(json.dumps([c, t["events"]], sort_keys=True) if nontrivial else None)
    ctx.notes.append("outcomes of the real uploads: %s" % dict(outcomes))
    ctx.notes.append("conversation statistics (requests that timed out / were lost / failed, uploads by number of allocate rounds): %s" % dict(faults))
    ctx.sample({"consts": traces[0]["consts"], "events": traces[0]["events"][:14]}, limit=2)
    ctx.trace("immutable/TraceUploadProtocol", traces, invariants=("TraceOK", "XP_NothingAllocatedOnAdvertisedReadOnly"),
              key_of=key_of, what_of=what_of, workers=4, batch=1000, timeout=3000)
    ctx.rule = ("MC: every behaviour of the conversation model over the listed constants (intended protocol: all XP_ invariants; each "
                "deviation: TLC must report one of the invariants listed for it). TRACE: %d seeded real uploads (1..%d servers, n<=%d, "
                "k<=2, happy<=n; server modes writable / readonly / full (advertised or hidden) / small / failing / flaky / slow (requests "
                "never answered) / laggy (answered after the 15 s timeout); optional earlier upload of the same storage index by the same "
                "or another client on a subset of servers, shares possibly deleted; one-shot faults raise / disconnect / lose / lag on the "
                "n-th get_buckets / allocate_buckets / write / close / abort; a 'replan' profile = healthy grid with spare servers and "
                "one failing allocate_buckets; fifo or random delivery). Non-trivial: not the clean profile and more than one allocate "
                "round or some non-writable server, pre-existing share or one-shot fault." % (n, 7 if q else 9, 3 if q else 4))
    ctx.assumptions += ["TLC and the CommunityModules; UploadSelect.tla / Happiness.tla / Layout.tla (checked by C06, C07/C08, C01)",
                        "harness/grid.py SimGrid and the virtual reactor; the driver observes Grid._park (requests leaving the client), "
                        "Grid._log (deliveries) and virtual time (a selection request is timed out 15 s after it was sent); "
                        "fileutil.get_available_space replaced per server",
                        "abstractions made by the driver: lease renew secret -> 'is the secret this client derives for that server' "
                        "(hashutil.file_renewal_secret_hash / bucket_renewal_secret_hash, as immutable/checker.py does for add-lease); "
                        "lease 'fresh' = expiration >= start of the upload + 31 days; UEB on disk -> 'unpacks to the reported "
                        "uri_extension_data and hashes to the cap's UEB hash'; failure message -> class + numbers by regular expression",
                        "in-time answers of different servers commute (MC takes them in a fixed order); verdicts depend on the recorded trace only"]
