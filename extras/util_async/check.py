"""X-util_async: the small asynchronous utilities everything else relies on - allmydata/util/observer.py
(OneShotObserverList, LazyOneShotObserverList, ObserverList, EventStreamObserver), util/deferredutil.py (gatherResults,
DeferredListShouldSucceed, race, timeout_call, HookMixin, until, eventual_chain, async_to_deferred, WaitForDelayedCallsMixin), util/pollmixin.py (PollMixin.poll),
util/consumer.py (MemoryConsumer, download_to_data), util/dictutil.py (DictOfSets, AuxValueDict, Bytes/UnicodeKeyDict).

MC     spec/util/MCAsyncUtil: every interleaving (to a depth per kind) of client calls and environment steps (reactor turn,
       clock tick, answers of input Deferreds, garbage collection) of the state machines of spec/util/AsyncUtil.tla; the
       documented rules (spec/util/AsyncUtilProps.tla, stated over the client-visible history only) are the invariants.
       Necessity run: with the two listed deviations of the code as it is allowed (SpecDev), TLC has to name the rules they break.
SIM    the same module with -simulate prints command sequences of longer behaviours (wide alphabets).
TRACE  harness/utilasync_driver.py replays these TLC-generated behaviours (plus a few scripted ones) against the real
       classes on the virtual reactor; spec/util/TraceAsyncUtil compares what was observed during every command with
       what AsyncUtil.Steps allows and names the rule of AsyncUtilProps that the real history breaks."""
import collections, json, os, random, re

KINDS = ["oneshot", "lazy", "obslist", "stream", "poll", "gather", "dlss", "race", "timeout", "hook", "until", "evchain",
         "a2d", "waitdc", "consumer", "dictofsets", "auxdict", "typedkeys"]
EXPECTED_DEVIATIONS = {"OS_FireNotReentrant", "AV_DelBehavesLikeDict"}


def invariants():
    here = os.path.dirname(os.path.abspath(__file__))
    mc = os.path.join(os.path.dirname(os.path.dirname(here)), "spec", "util", "MCAsyncUtil.tla")
    names = []
    with open(mc) as f:
        for line in f:
            m = re.match(r"^([A-Z][A-Z]_\w+) == Is\(", line)
            if m:
                names.append(m.group(1))
    return names


def cfg(kinds, scale, spec="Spec", wide=False, printhist=False, simdepth=10, invs=()):
    b = lambda x: "TRUE" if x else "FALSE"
    return ("SPECIFICATION %s\nCONSTANTS\n  Kinds = {%s}\n  Scale = %d\n  Wide = %s\n  PrintHist = %s\n  SimDepth = %d\nCHECK_DEADLOCK FALSE\n"
            % (spec, ", ".join('"%s"' % k for k in kinds), scale, b(wide), b(printhist), simdepth)
            + "".join("INVARIANT %s\n" % i for i in invs))


def histories(r, src, rnd, per_kind):
    """the behaviours TLC printed (<<"VF_HIST", kind, commands as JSON>>), at most per_kind of every kind (seeded choice)"""
    seen, by_kind = set(), collections.defaultdict(list)
    for t in r.tuples("VF_HIST"):
        k = t[1] + t[2]
        if k not in seen and t[2] != "[]":
            seen.add(k)
            by_kind[t[1]].append(t[2])
    out = []
    for kind in sorted(by_kind):
        hs = sorted(by_kind[kind])
        if len(hs) > per_kind:
            # behaviours that end after one command (a refused constructor ...) are few and always kept
            short1 = [h for h in hs if kind != "consumer" and len(json.loads(h)) == 1]
            rest = [h for h in hs if h not in short1]
            hs = short1 + rnd.sample(rest, min(per_kind, len(rest)))
        out += [{"kind": kind, "cmds": json.loads(h), "src": src} for h in hs]
    return out, dict((k, len(v)) for k, v in by_kind.items())


def short(e):
    c = dict(e["cmd"])
    op = c.pop("op")
    return "%s(%s) -> %s" % (op, ",".join("%s=%s" % (k, json.dumps(v)) for k, v in sorted(c.items())), json.dumps(e["out"], sort_keys=True))


def key_of(tr, l, clause):
    return "trace:%s" % clause


def what_of(tr, l, clause):
    return "real allmydata.util classes vs AsyncUtil.tla, kind %s (%s history), event %d: rule %s; history: %s" % (
        tr["consts"]["kind"], tr["consts"]["src"], l, clause, "; ".join(short(e) for e in tr["events"][:l])[-1500:])


def nontrivial(tr):
    """a history in which something was delivered / completed / refused (not only 'nothing happened yet')"""
    k = tr["consts"]["kind"]
    for e in tr["events"]:
        o = e["out"]
        if k in ("oneshot", "lazy") and (o["notified"] or o["status"] != "ok"):
            return True
        if k == "obslist" and o["calls"]:
            return True
        if k == "stream" and (o["delivered"] or o["cancels"]):
            return True
        if k == "poll" and any(p["status"] != "pending" for p in o.values()):
            return True
        if k in ("gather", "dlss", "race", "timeout", "until", "a2d") and o["status"] != "pending":
            return True
        if k == "waitdc" and o["status"] in ("ok", "fail"):
            return True
        if k == "hook" and (o["fired"] or o["status"] != "ok"):
            return True
        if k == "evchain" and o["target"] != "pending":
            return True
        if k == "consumer" and o["data"]:
            return True
        if k == "dictofsets" and (o["d"] or o["o"]):
            return True
        if k in ("auxdict", "typedkeys") and o["status"] != "ok":
            return True
    return False


def run(ctx):
    q = ctx.quick
    invs = invariants()
    # ---- design level --------------------------------------------------------------------------------------------
    rnd = random.Random(ctx.seed)
    ctx.constants["MCAsyncUtil"] = {"Kinds": KINDS, "Scale": 0 if q else 1, "invariants": len(invs)}
    if not q:
        # deeper exhaustive run (no printing: the maximal behaviours of this depth are too many to replay)
        ctx.mc("util/MCAsyncUtil", cfg(KINDS, 1, invs=invs + ["RuleListAgrees", "StepsTotal"]), name="MC async utilities (depth base+1)",
               timeout=20000, coverage=False)
    r = ctx.mc("util/MCAsyncUtil", cfg(KINDS, 0, printhist=True, invs=invs + ["HistPrinted"]),
               name="MC async utilities (depth base+0, behaviours printed)", timeout=6000, coverage=False)
    hists, n_mc = histories(r, "tlc-mc", rnd, 40 if q else 100000)
    if not os.environ.get("VERIF_SKIP_MC"):
        rn = ctx.mc("util/MCAsyncUtil", cfg(["lazy", "oneshot", "auxdict"], 0 if q else 1, spec="SpecDev", invs=invs),
                    name="MC necessity: deviations of the code as it is", expect_ok=False, timeout=3000, coverage=False, cont=True)
        if not EXPECTED_DEVIATIONS <= set(rn.violated):
            ctx.report(key="spec:necessity_not_detected",
                       what="MCAsyncUtil with the listed deviations (watchers run inside fire(); del of a constructor key raises "
                            "KeyError) violates %s, expected %s: the rules do not separate the documented behaviour from the deviations"
                            % (sorted(set(rn.violated)), sorted(EXPECTED_DEVIATIONS)))
        ctx.runs[-1]["violated"] = sorted(set(rn.violated))        # -continue names the same rule once per violating state
        ctx.notes.append("necessity run: TLC reports %s" % sorted(set(rn.violated)))

    # ---- longer behaviours generated by TLC -simulate (wide alphabets) ----------------------------------------------
    num, depth = (50, 9) if q else (1500, 14)
    rs = ctx.sim("util/MCAsyncUtil", cfg(KINDS, 0, wide=True, printhist=True, simdepth=depth, invs=["HistPrinted"]), num, depth + 2,
                 name="SIM behaviours for the harness", workers=4, timeout=6000)
    hs2, n_sim = histories(rs, "tlc-sim", rnd, 25 if q else 400)
    hists += hs2
    ctx.notes.append("behaviours printed by TLC: exhaustive run %s, -simulate %s" % (dict(sorted(n_mc.items())), dict(sorted(n_sim.items()))))
    if len(hists) < 100:
        raise RuntimeError("TLC printed only %d behaviours" % len(hists))

    # ---- implementation level ------------------------------------------------------------------------------------
    out = ctx.impl("harness/utilasync_driver.py", [], input_obj={"histories": hists}, timeout=3000)
    traces = out["traces"]
    per = collections.Counter()
    steps = 0
    for tr in traces:
        per[tr["consts"]["kind"]] += 1
        steps += len(tr["events"])
        ctx.count(json.dumps([tr["consts"]["kind"], [short(e) for e in tr["events"]]]) if nontrivial(tr) else None)
    ctx.sample({"kind": traces[0]["consts"]["kind"], "events": [short(e) for e in traces[0]["events"]]}, limit=2)
    ctx.notes.append("real executions: %d histories (%d scripted, %d TLC-generated), %d commands; per kind %s"
                     % (len(traces), sum(1 for t in traces if t["consts"]["src"] == "scripted"),
                        sum(1 for t in traces if t["consts"]["src"] != "scripted"), steps, dict(sorted(per.items()))))
    ctx.trace("util/TraceAsyncUtil", traces, key_of=key_of, what_of=what_of, batch=1500, workers=4, timeout=3000)
    ctx.rule = ("MC: every behaviour of MCAsyncUtil up to the per-kind depth (quick: oneshot 5, lazy 4, obslist 4, stream 4, poll 3, "
                "gather/dlss 5, race 4, timeout 6, hook 3, until 5, evchain 5, a2d 3, waitdc 4, consumer 1, dictofsets 3, auxdict 3, typedkeys 3; thorough +1) "
                "with the narrow command alphabets; the necessity run must break the rules of the two listed deviations. "
                "TRACE: a seeded sample (<= %d per kind; thorough: all) of the maximal behaviours of the base-depth exhaustive run, a seeded sample (<= %d per kind) of "
                "the behaviours printed by TLC -simulate (depth %d, wide alphabets, -seed = --seed), and the scripted histories of the "
                "driver, replayed on the real classes. Non-trivial: something was delivered, completed or refused (not only pending "
                "observations)." % (40 if q else 400, 25 if q else 400, depth))
    ctx.assumptions += [
        "TLC and the CommunityModules",
        "harness: virtual reactor (foolscap eventually() and LoopingCall run on it); util/pollmixin.py's time.time is rebound to the "
        "virtual clock; a reactor turn is vr.pump0(), a clock tick is vr.advance(1)",
        "watchers / observers / producers / input Deferreds are harness objects that record what reaches them; a watcher is named by "
        "the order of when_fired() calls, an event by the order of notify() calls",
        "AssertionError is abstracted to 'refused', other exceptions to their class name, None to 'none'",
        "download_to_data is driven with a harness filenode (streaming and non-streaming producer) and a real LiteralFileNode",
    ]
