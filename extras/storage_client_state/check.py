"""Extra storage_client_state: the client's view of the storage servers as a state machine.

MC: spec/net/MCStorageClientState (StorageClientState.tla explored with an environment that keeps its own
books; 20 rules as invariants / action properties).  TRACE: seeded event sequences applied to a real
StorageFarmBroker (harness/storclient_driver.py), every observable after every event validated by
spec/net/TraceStorageClientState against the same operators."""
import json, os

INVS = ["XS_ConnectedExact", "XS_IdsKnown", "XS_OneObjectPerId", "XS_ObjectOfItsId", "XS_LatestAnnouncement",
        "XS_SupersededQuiet", "XS_TimesConsistent", "XS_VersionFresh", "XS_UnsupportedNeverConnects", "XS_HighWater",
        "XS_FiredExactly", "XS_PendingExactly", "XS_Nickname", "XS_StubLookup", "XS_StubByTub", "XS_StubOldTubForgotten"]
PROPS = ["XS_ReplaceOnlyWhenDifferent", "XS_IdenticalIgnored", "XS_Monotone", "XS_NotifiedPerConnect"]


def mc_cfg(**k):
    return ("SPECIFICATION Spec\nCONSTANTS\n" + "".join("  %s = %s\n" % kv for kv in k.items()) +
            "".join("INVARIANT %s\n" % i for i in INVS) + "".join("PROPERTY %s\n" % p for p in PROPS) +
            "CHECK_DEADLOCK FALSE\n")


QUICK_MC = [
    ("lifecycle", dict(Sids='{"s1", "s2"}', StaticSids='{"s2"}', AnnKinds='{"a1", "a2", "u1"}', Vers='{"v1", "v2"}',
                       Lids='{}', Thresholds='{1}', MaxObjs=3, MaxTime=2, MaxConnects=1, MaxTotalConnects=3, WithDead='TRUE')),
    ("thresholds", dict(Sids='{"s1", "s2"}', StaticSids='{}', AnnKinds='{"a1", "a2"}', Vers='{"v1"}',
                        Lids='{1, 2}', Thresholds='{1, 2}', MaxObjs=3, MaxTime=1, MaxConnects=2, MaxTotalConnects=3, WithDead='FALSE')),
]
THOROUGH_MC = [
    ("lifecycle", dict(Sids='{"s1", "s2"}', StaticSids='{"s2"}', AnnKinds='{"a1", "a2", "u1"}', Vers='{"v1", "v2"}',
                       Lids='{1}', Thresholds='{1, 2}', MaxObjs=4, MaxTime=2, MaxConnects=2, MaxTotalConnects=4, WithDead='TRUE')),
    ("thresholds", dict(Sids='{"s1", "s2", "s3"}', StaticSids='{"s3"}', AnnKinds='{"a1", "a2"}', Vers='{"v1"}',
                        Lids='{1, 2}', Thresholds='{1, 2, 3}', MaxObjs=4, MaxTime=1, MaxConnects=2, MaxTotalConnects=5, WithDead='FALSE')),
]


def key_of(tr, l, clause):
    if clause == "XS_default_version_unusable":
        return "X-storage_client_state:default_version_unusable"
    return "trace:%s:%s" % (clause, tr["events"][l - 1]["ev"])


def what_of(tr, l, clause):
    e = dict(tr["events"][l - 1])
    obs = e.pop("obs", {})
    hist = [{k: v for k, v in x.items() if k != "obs"} for x in tr["events"][:l]]
    return ("real StorageFarmBroker disagrees with StorageClientState.tla at event %d (%s), clause %s; construction %s, "
            "static %s; history %s; observed %s" % (l, json.dumps(e), clause, tr["consts"]["mode"], tr["consts"]["static"],
                                                     json.dumps(hist), json.dumps(obs)[:1500]))


def run(ctx):
    ctx.rule = ("MC: all interleavings of announcements (2-3 versions per id, identical or different, static ids), connect / "
                "dead connect / disconnect, when_connected_enough registrations and clock ticks over 2-3 server ids within the "
                "bounds in constants. TRACE: seeded scenarios of 2-4 server ids (v0- keys or free-form static ids), 0-2 static "
                "servers (direct set_static_servers or private/servers.yaml through the real load_static_servers, 20% malformed "
                "entries), 1-2 introducer clients, ~25 events each: announcement (40% identical re-announcement, else "
                "a1/a2/unsupported), connection with version v1/v2 (legacy traces: server without get_version), connection "
                "that dies before the version answer, loss, when_connected_enough(1..3), tick, optional final stopService. "
                "One evaluation = one event with the complete observation after it; non-trivial = the event changes the "
                "server objects, the connected set or fires a threshold")
    ctx.assumptions += ["TLC and the CommunityModules",
                        "foolscap is replaced at the Tub boundary by stubs that follow its documented behaviour: no callback "
                        "after stopConnecting; Tub.stopService stops reconnectors and drops connections without firing "
                        "notifyOnDisconnect handlers; notifyOnDisconnect handlers run on loss",
                        "time.time inside allmydata.storage_client is the scenario clock",
                        "announcements are delivered by a stub introducer client through eventually(), keys are v0- ids",
                        "static servers are configured before announcements for the same id arrive (as _Client.__init__ does)",
                        "HTTP (NURL) servers and storage plugins are not driven"]
    # XS_SKIP_MC=1: development aid for mutant runs (the mutants only change the code, not the Spec)
    for name, consts in ([] if os.environ.get("XS_SKIP_MC") else QUICK_MC if ctx.quick else THOROUGH_MC):
        ctx.constants["MC " + name] = consts
        ctx.mc("net/MCStorageClientState", mc_cfg(**consts), name="MC storage client state (%s)" % name, timeout=3000)

    plan = ([("direct", 0, 36, 25), ("prod", 0, 36, 25), ("direct", 1, 10, 25), ("prod", 1, 8, 25)] if ctx.quick else
            [("direct", 0, 600, 40), ("prod", 0, 600, 40), ("direct", 1, 60, 30), ("prod", 1, 60, 30)])
    alltraces = ctx.impl("harness/storclient_driver.py", ["--plan", json.dumps(plan)])
    shown = set()
    for tr in alltraces:
        prev = None
        for e in tr["events"]:
            o = e["obs"]
            sig = [o["cur"], o["connected"], o["fired"], o["nobjs"]]
            core = {k: v for k, v in e.items() if k != "obs"}
            ctx.count(json.dumps([tr["consts"]["mode"], tr["consts"]["static"], core, sig], sort_keys=True) if sig != prev else None)
            prev = sig
        tag = (tr["consts"]["mode"], tr["consts"]["legacy"])
        if tag not in shown and tag[1] is False:
            shown.add(tag)
            ctx.sample({"mode": tag[0], "consts": {k: tr["consts"][k] for k in ("sids", "static", "lids")},
                        "events": [{k: v for k, v in e.items() if k != "obs"} for e in tr["events"][:8]],
                        "objects_after_event_3": tr["events"][min(2, len(tr["events"]) - 1)]["obs"]["objs"]}, limit=2)
    ctx.trace("net/TraceStorageClientState", alltraces, key_of=key_of, what_of=what_of, batch=400)
