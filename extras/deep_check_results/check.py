"""X-deep_check_results  The result objects of checking and traversing: aggregation and rendering.

Spec (spec/dir):
  DeepResults.tla       EXTENDS DeepTraverse.  The size-files-histogram buckets (Upper / Lower / WhichFrom / HistOf), deep-stats of a
                        walk (FullStats: count-*, size-*, largest-*, histogram), deep-size, one object's check from the truth about its
                        shares (PreOf, Repairable), the per-object rules of t=check&repair=true (RecWellFormed), the aggregates shaped
                        like the code (AddCheck / AddRepair) and the documented meaning of every counter stated without them
                        (DR_CheckCounters, DR_RepairCounters, DR_*Arith, DR_RepairWellFormed, DR_HistPartition, DR_HistBuckets ...).
  MCDeepResults.tla     every short sequence of per-object records: fold = documented counters, relations between the counters;
                        every short list of boundary sizes: the histogram partitions them; the bucket table itself.
  MCDeepStats.tla       EXTENDS MCDeepTraverse: deep-stats of every small graph = the fold over the reachable objects.
  GenDeepHistogram.tla  GEN: lists of sizes at every bucket boundary with the expected histogram.
  TraceDeepResults.tla  judges what the real code reported (node API, web JSON / text, streams) for real graphs against the graph,
                        the share files on the servers' disks and the sizes.
Conformance: harness/deepres_driver.py (hist, agg, stats, check, probes).
"""
import json

from vfw import core

XR = ["XR_CheckFold", "XR_RepairFold", "XR_WellFormed", "XR_PreIsCheck", "XR_OrderFree", "XR_UnhealthyList", "XR_NoRepair"]
XH = ["XH_Partition", "XH_Buckets", "XH_Total", "XH_Table", "XH_TwoPerDecade", "XH_Scan", "XH_Monotone"]
XS = ["XS_Counts", "XS_Sizes", "XS_DeepSize", "XS_Relations", "XS_Hist", "XS_ReadOnlySame"]


def cfg_of(consts, invs=()):
    t = "SPECIFICATION Spec\nCONSTANTS\n" + "".join("  %s = %s\n" % kv for kv in consts.items())
    return t + "".join("INVARIANT %s\n" % i for i in invs) + "CHECK_DEADLOCK FALSE\n"


def probe_of(tr):
    return tr["src"][len("probe:"):] if tr["src"].startswith("probe:") else None


def key_of(tr, l, clause):
    p = probe_of(tr)
    if p:
        return "probe:%s:%s" % (p, clause)
    ev = tr["events"][l - 1]
    if tr["family"] == "agg":
        return "agg:%s" % clause
    return "graph:%s:%s" % (clause, ev["ev"] + ("_" + ev["route"] if ev.get("route") else ""))


def what_of(tr, l, clause):
    ev = tr["events"][l - 1]
    extra = ""
    if ev.get("what"):
        extra = " [%s: %s]" % (ev.get("st"), ev["what"][:160])
    elif ev.get("st") not in (None, "ok"):
        extra = " [%s]" % ev["st"]
    if tr["family"] == "agg":
        return "synthetic check results (%d records, repair=%s) through the real aggregate and its web renderer: %s%s" % (
            len(ev.get("L", [])), ev.get("repair"), clause, extra)
    return "real graph (%d objects, %s, family %s), event %d (%s%s%s): %s%s" % (
        len(tr["consts"]["type"]), tr["src"], tr["family"], l, ev["ev"], " " + ev["route"] if ev.get("route") else "",
        " verify" if ev.get("verify") else "", clause, extra)


def run(ctx):
    q = ctx.quick
    ctx.rule = ("MC: (1) every sequence of <= MaxLen per-object records (pre / post in healthy, unhealthy, unrecoverable x 0..MaxNc corrupt "
                "shares, attempted / successful in every combination for the first record, rule-obeying records after it) and every "
                "sequence of <= MaxLen sizes at / next to a bucket boundary, every size 0..Scan once; (2) every graph of MCDeepTraverse "
                "with sizes from a fixed table.  GEN: one list of sizes per boundary value, per window of 5 neighbouring values, and all "
                "values at once.  TRACE agg: seeded sequences of 0-12 records (half of them rule-obeying) through the real aggregates and "
                "web renderers.  TRACE stats: seeded graphs of 5-24 objects (dir_driver.seeded_graph) with file sizes drawn from the "
                "boundary values up to 10^9, 4 observations each (node API / web JSON / text / stream, write- or read-cap).  TRACE "
                "check: seeded graphs of 4-9 real objects, 2-of-3 on 4 servers, each distributed object left alone, with shares deleted "
                "or with block data of a share damaged; two deep-checks, two t=check, and in two thirds of the graphs a deep "
                "check-and-repair followed by a re-measurement of the disks and another deep-check; verify on every other graph; "
                "routes rotate.  A check trace is non-trivial if an object was unhealthy and (a repair ran or a share was damaged).  "
                "PROBES: one trace per input class on which the code is known to deviate from the documentation (the generators stay "
                "away from these classes).")
    ctx.assumptions += [
        "TLC and the CommunityModules", "SimGrid (harness/grid.py) and WebGrid (harness/webgrid.py): no faults injected, all servers writable",
        "the driver's tables between Spec vocabulary and caps / storage indexes / servers / paths; dir_driver.seeded_graph for graph shapes",
        "ground truth = the share files the harness finds on the servers' disks; a share file counts as damaged while its bytes are "
        "the ones the harness wrote when it flipped a bit of its block data; size of a directory = length of its serialised contents "
        "read through a second NodeMaker",
        "SHA-256d collisions do not occur (a damaged block never validates)",
        "family agg constructs CheckResults / CheckAndRepairResults objects directly (their constructors are the interface)",
        "sizes stay below 2^31 (TLC integers): bucket boundaries beyond 10^9 are not judged",
    ]

    # ------------------------------------------------------------------ model checking
    c1 = {"MaxLen": 2 if q else 3, "MaxNc": 1, "WellFormedOnly": "TRUE", "Scan": 1200 if q else 200000}
    ctx.constants["MC_DeepResults"] = c1
    ctx.mc("dir/MCDeepResults", cfg_of(c1, XR + XH), name="MC DeepResults (records; histogram)", coverage=not q, timeout=3000)
    c3 = {"Types": '{"dir", "file", "lit", "unk", "mfile"}', "MaxObjs": 3 if q else 4, "MaxLinks": 3 if q else 4, "MaxNames": 2}
    ctx.constants["MC_DeepStats"] = c3
    ctx.mc("dir/MCDeepStats", cfg_of(c3, XS), name="MC DeepStats (graphs)", coverage=False, timeout=3000)
    if not q:
        c1b = {"MaxLen": 2, "MaxNc": 2, "WellFormedOnly": "FALSE", "Scan": 10}
        ctx.constants["MC_DeepResults_all_records"] = c1b
        ctx.mc("dir/MCDeepResults", cfg_of(c1b, XR + XH), name="MC DeepResults (pairs of arbitrary records)", coverage=False, timeout=3000)

    # ------------------------------------------------------------------ GEN: histogram cases, replayed on a real DeepStats
    cases, r = ctx.gen("dir/GenDeepHistogram", "SPECIFICATION Spec\nINVARIANT TableOK\nCHECK_DEADLOCK FALSE\n", coverage=False, workers=1)
    res = ctx.impl("harness/deepres_driver.py", ["--agg", 120 if q else 3000, "--stats", 14 if q else 300, "--check", 18 if q else 400],
                   input_obj={"cases": cases}, timeout=20000)
    if len(res["hist"]) != len(cases):
        raise core.MachineryError("driver answered %d of %d histogram cases" % (len(res["hist"]), len(cases)))
    for case, got in zip(cases, res["hist"]):
        ctx.count(json.dumps(case["sizes"]) if len(case["sizes"]) > 1 else None)
        want = sorted((x["lo"], x["hi"], x["n"]) for x in case["hist"])
        have = sorted((x["lo"], x["hi"], x["n"]) for x in got["hist"])
        if got["st"] != "ok":
            ctx.report("case:hist:%s:exception" % case["kind"], "DeepStats raised %s for file sizes %r" % (got["st"], case["sizes"][:8]),
                       replay={"case": case, "got": got})
        elif want != have:
            ctx.report("case:hist:%s" % case["kind"], "size-files-histogram of file sizes %r: the Spec expects %r, DeepStats answered %r" % (
                case["sizes"][:8], want[:6], have[:6]), replay={"case": case, "got": got})
    ctx.sample({"family": "hist", "case": cases[len(cases) // 2], "got": res["hist"][len(cases) // 2]})

    # ------------------------------------------------------------------ TRACE
    traces = res["traces"]
    shown = set()
    for tr in traces:
        evs = tr["events"]
        fam = tr["family"]
        if probe_of(tr):
            ctx.count(None, n=len(evs))
            continue
        if fam == "agg":
            ev = evs[0]
            nontrivial = ev.get("repair") and len(ev.get("L", [])) >= 2 and any(x["att"] for x in ev["L"])
            ctx.count(json.dumps(ev.get("L")) if nontrivial else None)
        elif fam == "stats":
            ctx.count(json.dumps(tr["consts"], sort_keys=True))
            ctx.count(None, n=len(evs) - 1)
        else:
            unhealthy = any(e["ev"] in ("deepcheck", "deeprepair") and e.get("has_counters") and
                            (e["c"].get("unhealthy", 0) > 0 or e["c"].get("unhealthy_pre", 0) > 0) for e in evs)
            repaired = any(e["ev"] == "deeprepair" for e in evs)
            damaged = any(e["ev"] == "truth" and any(t["bad"] for t in e["T"].values()) for e in evs)
            ctx.count(json.dumps([tr["consts"], [e for e in evs if e["ev"] == "truth"]], sort_keys=True) if unhealthy and (repaired or damaged) else None)
            ctx.count(None, n=len(evs) - 1)
        if fam not in shown:
            shown.add(fam)
            keep = ("ev", "via", "route", "verify", "st", "c", "after", "T", "size", "repair", "L", "api", "web", "results", "unhealthy", "corrupt", "remaining")
            ctx.sample({"family": fam, "src": tr["src"], "objects": len(tr["consts"]["type"]),
                        "events": [{k: v for k, v in e.items() if k in keep} for e in evs[:6]]}, limit=4)
    rej = ctx.trace("dir/TraceDeepResults", traces, batch=400, key_of=key_of, what_of=what_of)
    # every probe must have been judged: a probe that is accepted means the code changed (good news, but the list of known
    # findings is then stale) -- say so
    seen = {f.get("key") for f in ctx.findings}
    for tr in traces:
        p = probe_of(tr)
        if p and not any(k and k.startswith("probe:%s:" % p) for k in seen):
            ctx.notes.append("probe %s: the real code now answers as documented (known finding no longer reproduced)" % p)
    fams = {}
    for tr in traces:
        fams[tr["family"]] = fams.get(tr["family"], 0) + 1
    ctx.notes.append("traces: %s; rejected %d; histogram cases %d" % (json.dumps(fams, sort_keys=True), len(rej), len(cases)))
