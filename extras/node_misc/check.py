"""Extra node_misc: node start-up rules outside tahoe.cfg value parsing, the access blacklist file and the pid file.

GEN    spec/node/GenNodeStartup (NodeStartup.tla: the decision tables of docs/configuration.rst - tub.port x client.port x
       tub.location x reveal-IP-address; [connections] tcp x Tor/I2P availability x reveal-IP-address; timeouts;
       get_config_path; pre-1.3 files) enumerates every combination with the expected outcome; harness/nodemisc_driver.py
       replays each into the real allmydata.node functions (real foolscap Tub, its configuration calls recorded).
MC     MCPrivateFiles (private-file helpers / create_node_dir), MCPidFile (running.process: start-ups, crashes, recycled
       pids), MCBlacklistFile (access.blacklist edited line by line, mtime rule, webapi.rst's sentences).
TRACE  seeded histories of the real helpers on real directories (TracePrivateFiles), of the real check_pid_process /
       cleanup_pidfile with a scripted process table (TracePidFile), and of a real gateway + web server whose
       access.blacklist is edited between requests (TraceBlacklistFile, EXTENDS dirnode_ops' DeepCheck).
"""
import json
import os
import threading
import time
from concurrent.futures import ThreadPoolExecutor

GEN_INVS = ["NS_DisabledTogether", "NS_NoZeroPort", "NS_Privacy", "NS_PortFile", "NS_CfgOverridesFile", "NS_LocationLength",
            "NS_ConnPrivacy", "NS_ConnOwnHandlers", "NS_OldFiles", "NS_PathNormal"]
PF_INVS = ["PF_ReadersPure", "PF_CreateOnlyMissing", "PF_ReturnsWhatIsStored", "PF_MissingIsError", "PF_ReadBack", "PF_CreateDirKeeps"]
PF_PROPS = ["PF_SecretStable"]
PID_INVS = ["PID_Mutex", "PID_FileNamesRunning", "PID_ReadingRunning", "PID_NoFileNobody"]
PID_PROPS = ["PID_RefusedForAReason", "PID_StaleReplaced"]
BF_INVS = ["BF_CommentsIgnored", "BF_CommentedOutIsFree", "BF_Fresh", "BF_NoFileNoBlacklist", "BF_403IffBlocked", "BF_Underneath",
           "BF_StillListed", "BF_WalkIsResolveB"]


def cfg(consts, invs, props=()):
    return ("SPECIFICATION Spec\nCONSTANTS\n" + "".join("  %s = %s\n" % kv for kv in consts.items()) +
            "".join("INVARIANT %s\n" % i for i in invs) + "".join("PROPERTY %s\n" % p for p in props) + "CHECK_DEADLOCK FALSE\n")


# ---------------------------------------------------------------------------------------------- GEN comparison
def judge_port(c, r):
    out = []
    m = r["main_tub"]
    if c["res"] == "skip":
        return None
    if c["res"] == "refuse":
        for leg, x in (("", r), ("main_tub_", m)):
            if x["res"] != "refuse":
                out.append(leg + "code_accepts")
            elif x.get("err") not in c["errs"]:
                out.append(leg + "refused_by_%s" % x.get("err"))
        return out
    for leg, x in (("", r), ("main_tub_", m)):
        if x["res"] != c["res"]:
            out.append(leg + ("code_refuses:%s" % x.get("err") if x["res"] == "refuse" else "code_%ss" % x["res"]))
            continue
        if c["res"] == "listen":
            if x["port"] != c["xport"]:
                out.append(leg + "wrong_port")
            if x["loc"] != c["xloc"]:
                out.append(leg + "wrong_location")
        if x["pfile"] != c["xraw"]:
            out.append(leg + "port_file")
        if (x["alloc"] > 0) != c["xalloc"] or x["alloc"] > 1:
            out.append(leg + "port_allocation")
        if (x["probe"] > 0) != c["xprobe"]:
            out.append(leg + "address_probe")
    if m["res"] == "listen" and c["res"] == "listen" and m["nlisteners"] != len(c["xport"].split(",")):
        out.append("main_tub_listener_count")
    return out


def judge_conn(c, r):
    if c["res"] == "refuse":
        if r["res"] != "refuse":
            return ["code_accepts"]
        return [] if r.get("err") in c["errs"] else ["refused_by_%s" % r.get("err")]
    if r["res"] != "ok":
        return ["code_refuses:%s" % r.get("err")]
    return ["%s_hints_served_by_%s" % (h, r[h]) for h in ("tcp", "tor", "i2p") if r[h] != c["x" + h]]


def judge_opts(c, r):
    if c["res"] == "refuse":
        if r["res"] != "refuse":
            return ["code_accepts"]
        return [] if r.get("err") in c["errs"] else ["refused_by_%s" % r.get("err")]
    if r["res"] != "ok":
        return ["code_refuses:%s" % r.get("err")]
    out = []
    if r["ka"] != c["xka"] or r["kaset"] != c["xkaset"]:
        out.append("keepalive")
    if r["dc"] != c["xdc"] or r["dcset"] != c["xdcset"]:
        out.append("disconnect")
    return out


def judge_path(c, r):
    if r["res"] != "ok":
        return ["code_refuses:%s" % r.get("err")]
    out = []
    g = r["config"]
    if not g["abs"] or g["up"] != c["xup"] or g["comps"] != c["xcomps"]:
        out.append("get_config_path")
    if c["plain"] and (r["private"]["up"] != 0 or r["private"]["comps"] != c["pcomps"]):
        out.append("get_private_path")
    return out


def judge_old(c, r):
    out = []
    if c["res"] == "refuse":
        if r["res"] != "refuse" or r.get("err") != "OldConfigError":
            return ["code_accepts" if r["res"] == "ok" else "refused_by_%s" % r.get("err")]
        if sorted(r["files"]) != sorted(c["files"]):
            out.append("files_named")
        return out
    if r["res"] != "ok":
        return ["code_refuses:%s" % r.get("err")]
    made = sorted(set(r["new_files"]) & {"client.port", "introducer.port"})
    want = [] if c["xportfile"] in c["present"] else [c["xportfile"]]
    if made != want:
        out.append("port_file_name")
    return out


JUDGES = {"port": judge_port, "conn": judge_conn, "opts": judge_opts, "path": judge_path, "old": judge_old}


def brief(c):
    keep = {k: v for k, v in c.items() if not k.startswith("x") and k not in ("errs", "res", "files", "pcomps")}
    exp = {k: v for k, v in c.items() if k.startswith("x") or k in ("errs", "res", "files", "pcomps")}
    return keep, exp


# ---------------------------------------------------------------------------------------------- trace keys
def key_of(tr, l, clause):
    e = tr["events"][l - 1]
    return "trace:%s:%s" % (clause, e.get("op") or e.get("ev"))


def what_of(name):
    def f(tr, l, clause):
        e = tr["events"][l - 1]
        hist = [{k: v for k, v in x.items() if k not in ("dir", "file")} for x in tr["events"][:l - 1]]
        return "real %s disagrees with the Spec at event %d, clause %s: %s; consts %s; history %s" % (
            name, l, clause, json.dumps(e, ensure_ascii=False)[:900], json.dumps(tr["consts"])[:600], json.dumps(hist, ensure_ascii=False)[-1800:])
    return f


def run(ctx):
    q = ctx.quick
    ctx.rule = ("GEN: the cross product of tub.port (absent, empty, disabled, bare / tcp / keyword endpoints, listen:tor|i2p, zero "
                "ports, lists) x BASEDIR/client.port x tub.location (absent, empty, disabled, AUTO, tcp / legacy / tor / i2p hints, "
                "lists) x reveal-IP-address x local addresses; [connections] tcp (10 spellings) x Tor x I2P available x 12 boolean "
                "spellings of reveal-IP-address; 6 x 6 timeout values; get_config_path / get_private_path of every argument list of "
                "<= 3 words over {a, b, .., ., private}; every set of <= 2 of the 15 pre-1.3 files (+ 4 harmless ones) for a client "
                "and an introducer - each with the Spec's expected outcome, replayed into the real functions (every case is "
                "non-trivial: its key is the input). MC: all histories within the bounds in constants. TRACE: seeded histories of "
                "14 helper calls / outside edits per node directory, 14 process-table / lock / file / check / cleanup events per "
                "pid file, and per gateway 22 events (edit of access.blacklist with mtime forward / equal / back, removal, GET of 22 "
                "cap/path combinations plain or t=json, create_node_from_uri + read) on a tree of 8 objects, the first three "
                "gateways starting with a scripted prefix; one evaluation = one case or one event, non-trivial = distinct "
                "(input, outcome)")
    ctx.assumptions += [
        "TLC and the CommunityModules",
        "foolscap is used for real (Tub from a pre-made certificate: Tub's own generator needs OpenSSL.crypto.X509Req, gone from "
        "this pyOpenSSL); Tub.listenOn / setLocation / setOption / addConnectionHintHandler / removeAllConnectionHintHandlers are "
        "recorded and passed through; no port is opened (the Tub is never started)",
        "iputil.get_local_addresses_sync / allocate_tcp_port are replaced by scripted answers; Tor / I2P providers are stand-ins "
        "with get_client_endpoint / get_listener",
        "create_client / create_introducer are stopped after the configuration has been read and the port settled",
        "util.pid runs against stand-ins for psutil (scripted process table) and filelock (not installed here: a held lock times "
        "out at once); a fresh FilePath per call, as every `tahoe run` makes one",
        "the blacklist file's mtime is set with os.utime; reasons are printable text without control characters and without "
        "HTML metacharacters; no object is listed twice; lines without a reason / with a bad storage index are not driven",
        "web requests travel through twisted.web's client and server in memory (harness/webgrid.py); a request that goes "
        "quiescent without completing is recorded as status 0",
    ]
    # Independent pieces run side by side (every TLC start costs seconds): the history legs of the real code and the three
    # model-checking runs start at once, the GEN replay as soon as TLC has written the cases.  Findings are reported under a lock.
    lock = threading.Lock()
    orig_report = ctx.report

    def locked_report(*a, **kw):
        with lock:
            return orig_report(*a, **kw)
    ctx.report = locked_report
    plan = ({"priv": {"traces": 30, "events": 14}, "pid": {"traces": 40, "events": 14}, "blacklist": {"traces": 8, "events": 22}} if q else
            {"priv": {"traces": 400, "events": 20}, "pid": {"traces": 500, "events": 20}, "blacklist": {"traces": 120, "events": 30}})
    p1 = 12000 + (ctx.seed * 37) % 900
    consts = {"Tier": '"%s"' % ("quick" if q else "thorough"), "P1": p1, "P2": p1 + 1111, "PAlloc": 34000 + (ctx.seed * 13) % 500}
    ctx.constants["GEN"] = consts
    mcs = [("node/MCPrivateFiles", {"Names": '{"a", "b"}', "Texts": '{"t1", "t2"}', "MaxSteps": 3 if q else 4, "FullPad": "FALSE" if q else "TRUE"},
            PF_INVS, PF_PROPS),
           ("node/MCPidFile", {"Nodes": '{"n1", "n2"}' if q else '{"n1", "n2", "n3"}', "Pids": "{1, 2, 3}", "MaxTime": 5 if q else 7}, PID_INVS, PID_PROPS),
           ("node/MCBlacklistFile", {"MaxLines": 2 if q else 3, "MaxT": 2, "MaxSteps": 3 if q else 4,
                                     "Reasons": '{"my puppy told me to"}' if q else '{"my puppy told me to", "why"}'}, BF_INVS, ())]
    legs = (("private-file helpers", "node/TracePrivateFiles", "priv"),
            ("check_pid_process / cleanup_pidfile", "node/TracePidFile", "pid"),
            ("gateway with access.blacklist", "node/TraceBlacklistFile", "blacklist"))
    with ThreadPoolExecutor(8) as ex:
        ftraces = ex.submit(ctx.impl, "harness/nodemisc_driver.py", ["--mode", "traces", "--plan", json.dumps(plan)], timeout=6000)
        time.sleep(0.5)              # (ctx.impl numbers its files by the directory's size: let the first call take its number)
        fmc = []
        for mod, k, invs, props in mcs:
            ctx.constants[mod] = k
            fmc.append(ex.submit(ctx.mc, mod, cfg(k, invs, props), name="MC %s" % mod, timeout=6000, workers=2 if q else None))
        cases, r = ctx.gen("node/GenNodeStartup", cfg(consts, GEN_INVS), timeout=3000)
        fgen = ex.submit(ctx.impl, "harness/nodemisc_driver.py", ["--mode", "gen"], input_obj={"cases": cases}, timeout=6000)
        hist = ftraces.result()
        for name, module, leg in legs:
            for tr in hist[leg]:
                for e in tr["events"]:
                    core = {k: v for k, v in e.items() if k not in ("note",)}
                    ctx.count(json.dumps(core, sort_keys=True, ensure_ascii=False))
        ftr = [ex.submit(ctx.trace, module, hist[leg], key_of=key_of, what_of=what_of(name), batch=200) for name, module, leg in legs]
        out = fgen.result()
        for f in fmc + ftr:
            f.result()
    # ------------------------------------------------------------------ GEN verdicts
    stats = {}
    shown = set()
    for c, r in zip(cases, out["results"]):
        t = c["table"]
        keep, exp = brief(c)
        ctx.count(json.dumps(keep, sort_keys=True))
        if r.get("res") == "adapter-error":
            ctx.report("case:%s:adapter_error" % t, "the adapter failed on %s: %s" % (json.dumps(keep), r.get("msg")))
            continue
        bad = JUDGES[t](c, r)
        s = stats.setdefault(t, {"agree": 0, "not_judged": 0, "disagree": 0})
        if bad is None:
            s["not_judged"] += 1
            continue
        s["agree" if not bad else "disagree"] += 1
        for b in bad:
            ctx.report("case:%s:%s:%s" % (t, c["class"], b),
                       "%s table, input %s: NodeStartup.tla expects %s, the real code gives %s" % (
                           t, json.dumps(keep), json.dumps(exp), json.dumps(r)[:900]),
                       replay={"kind": "gen-case", "case": c, "real": r})
        if (t, c.get("res")) not in shown and not bad:
            shown.add((t, c.get("res")))
            ctx.sample({"input": keep, "spec_expects": exp, "real": {k: v for k, v in r.items() if k != "main_tub"}}, limit=5)
    ctx.exhaustive = True
    ctx.notes.append("GEN: %d cases; per table agree / not judged / disagree: %s" % (len(cases), json.dumps(stats)))
    opts = next((r for c, r in zip(cases, out["results"]) if c["table"] == "opts" and r.get("res") == "ok"), None)
    if opts:
        ctx.notes.append("create_tub_options always sets (not judged, no documentation): %s" % json.dumps(
            {k: v for k, v in opts["options"].items() if k not in ("keepaliveTimeout", "disconnectTimeout")}))
    bl = hist["blacklist"]
    codes = {}
    for tr in bl:
        for e in tr["events"]:
            if e["ev"] == "get":
                codes[str(e["code"])] = codes.get(str(e["code"]), 0) + 1
    ctx.notes.append("blacklist traces: %d gateways, GET status counts %s (0 = never answered)" % (len(bl), json.dumps(codes, sort_keys=True)))
    ctx.sample({"blacklist_trace_prefix": [{k: v for k, v in e.items()} for e in bl[0]["events"][:4]]}, limit=6)
