"""Extra grid_manager_tool: the grid manager itself (allmydata/grid_manager.py + allmydata/cli/grid_manager.py).

MC: spec/net/MCGridManagerTool (GridManagerTool.tla EXTENDS GridManager.tla, the certificate validity operators of
C33): every sequence of create / public-identity / add / remove / list / sign - valid and invalid ones - with days
passing and somebody damaging and repairing the files, for the three bindings (--config DIR, --config - , the
functions on a live object); 20 rules from docs/managed-grid.rst and the docstrings.  The same run prints the
reachable states with the observation the Spec expects in each and the complete transition table (GEN);
harness/gmtool_driver.py walks the table (every transition at least once) through the real click command line
(CliRunner) and the real functions in a temporary directory with a controlled clock; after every step exit status,
printed output and directory / document / object are compared with the Spec's row."""
import json, os, sys
from concurrent.futures import ThreadPoolExecutor

sys.path.insert(0, os.path.join(os.path.dirname(os.path.dirname(os.path.dirname(os.path.abspath(__file__)))), "harness"))
import gmtool_match as M     # noqa: E402

KEY = "X-grid_manager_tool"
ALL_DAMAGE = ["notjson", "noversion", "badversion", "noprivkey", "badprivkey", "missing", "srv_nopubkey", "srv_keynoprefix",
              "srv_keyshort", "cert_sig", "cert_forged", "cert_ver2"]
ALL_LEGS = ["dir", "stdin", "api"]
INVS = ["TypeOK", "XG_CertsNameCurrentKey", "XG_Numbering", "XG_IssuedVerify", "XG_StoredVerify", "XG_CliExpiryInFuture",
        "XG_NonPositiveNeverValid", "XG_IssuedForKnown", "XG_FailChangesNothing", "XG_ReadOnlyCommands", "XG_DamagedRefuses",
        "XG_CreateOnlyOnce", "XG_DuplicateRefused", "XG_UnknownRefused", "XG_AddAdds", "XG_RemoveForgets", "XG_SignOnlyAppends",
        "XG_ListShowsAll", "XG_LoadSaveIdentity", "XG_StdinPrintsConfig"]


def cls(name, legs, names, keys, days, maxnow, maxcerts, probes, neg=False, unsafe=(), damage=(), budget=4000):
    return dict(name=name, legs=legs, names=names, keys=keys, days=days, maxnow=maxnow, maxcerts=maxcerts, probes=probes,
                neg=neg, unsafe=list(unsafe), damage=list(damage), budget=budget)


QUICK = [
    cls("main", ALL_LEGS, ["a", "b"], ["k1", "k2"], [0, 1], 1, 2, [0, 1, 2, 3], budget=5000),
    cls("edge", ALL_LEGS, ["a"], ["k1"], [0, 1, 1825, 1826], 0, 2, [0, 1, 2, 1824, 1825, 1826, 1827], neg=True, damage=ALL_DAMAGE, budget=5000),
    cls("names", ["dir", "stdin"], ["a", "x/y"], ["k1"], [1], 0, 1, [0, 1, 2], unsafe=["x/y"], budget=1500),
]
THOROUGH = [
    cls("main", ALL_LEGS, ["a", "b"], ["k1", "k2"], [0, 1, 2], 2, 3, [0, 1, 2, 3, 4, 5], budget=10 ** 7),
    cls("edge", ALL_LEGS, ["a", "b"], ["k1"], [0, 1, 1825, 1826], 1, 2, [0, 1, 2, 1824, 1825, 1826, 1827], neg=True,
        damage=ALL_DAMAGE, budget=10 ** 7),
    cls("names", ["dir", "stdin"], ["a", "x/y"], ["k1", "k2"], [1], 1, 2, [0, 1, 2, 3], unsafe=["x/y"], budget=10 ** 7),
]


def tla_set(xs):
    return "{" + ", ".join(json.dumps(x) if isinstance(x, str) else str(x) for x in xs) + "}"


def consts_text(k):
    return ("CONSTANTS\n  Legs = %s\n  NameSet = %s\n  Unsafe = %s\n  Keys = %s\n  DayChoices = %s\n  NegDays = %s\n  MaxNow = %d\n"
            "  MaxCerts = %d\n  DamageKinds = %s\n  Probes = %s\n" % (
                tla_set(k["legs"]), tla_set(k["names"]), tla_set(k["unsafe"]), tla_set(k["keys"]), tla_set(k["days"]),
                "TRUE" if k["neg"] else "FALSE", k["maxnow"], k["maxcerts"], tla_set(k["damage"]), tla_set(k["probes"])))


def classify(k, st, t, step):
    """structural key of a disagreement; the three known findings are recognised by where they happen"""
    s, c, diff, real = st["s"], t["c"], step["diff"], step["real"]
    kinds = {s["dmg"]["kind"]} | {o["s2"]["dmg"]["kind"] for o in t["outs"]}
    tail = "%s:%s:%s:%s" % (k["name"], s["leg"], c["op"], "+".join(diff))
    if kinds & {"cert_sig", "cert_forged"}:
        return KEY + ":stored_certificate_signature_not_checked:" + tail
    if "srv_keynoprefix" in kinds and diff == ["obs.load"] and str(real["obs"].get("load", "")).startswith("crash:"):
        return KEY + ":malformed_server_key_is_not_a_valueerror:" + tail
    if s["leg"] == "dir" and any(x["srv"].get(n, "-") != "-" for n in k["unsafe"] for x in [s] + [o["s2"] for o in t["outs"]]):
        return KEY + ":name_with_path_separator_breaks_the_configuration:" + tail
    return "case:" + tail


def run(ctx):
    classes = QUICK if ctx.quick else THOROUGH
    assert sorted(["a", "b", "c", "x/y"]) == ["a", "b", "c", "x/y"]          # GridManagerTool.tla AllNamesSorted is python's order
    ctx.rule = ("MC: all command sequences within the constants. GEN: the Spec's complete table (reachable states x offered commands -> allowed outcomes) per class - main: 2 names x "
                "2 keys, days passing; edge: expiry arguments -1 / 0 / 1 / 1825 / 1826 and every kind of damage to config.json and the "
                "certificate files; names: a server name with a path separator - for the bindings --config DIR, --config - and the "
                "functions on a live object. The driver walks the table (greedy tour, every transition at least once within the budget; "
                "thorough: all) through the real command line / functions. One evaluation = one real step with the complete observation "
                "after it; non-trivial = the first execution of a transition (class, state, command)")
    ctx.assumptions += ["TLC and the CommunityModules",
                        "the clock is the driver's (current_datetime_with_zone rebound in grid_manager and cli.grid_manager): a command runs "
                        "at day now plus one second per command issued so far, clients probe at midday; so 'now = expires' never happens",
                        "abstraction of a certificate: the key it names and its expiry day as written in it, and the answers of "
                        "create_grid_manager_verifier for every server key at every probe day, under the manager's key and under another manager's",
                        "the command line is run in-process with click.testing.CliRunner; exit status 0 = ok, anything else = fail "
                        "(the exit code and the wording of messages are not judged; an unhandled exception counts as a failure)",
                        "damage is done by the driver to the files (or the piped document) and undone byte for byte"]
    spec_in = {"classes": []}
    tables = {}

    def model(k):
        # one TLC run per class: the rules are checked on every state and the table is printed
        r = ctx.mc("net/MCGridManagerTool", "SPECIFICATION Spec\n" + consts_text(k) + "  Emit = TRUE\n" +
                   "".join("INVARIANT %s\n" % i for i in INVS + ["XG_Emit"]) + "CHECK_DEADLOCK FALSE\n",
                   name="MC+GEN grid manager tool (%s)" % k["name"], timeout=3000, coverage=False, workers=2 if ctx.quick else None)
        out = os.path.join(ctx.workdir, "table_%s.ndjson" % k["name"])
        with open(out, "w") as f:
            for p in r.prints:
                if p.startswith('"{'):
                    f.write(json.loads(p) + "\n")
        return out

    with ThreadPoolExecutor(max_workers=len(classes)) as ex:         # the three models are independent
        outs = list(ex.map(model, classes))
    for k, out in zip(classes, outs):
        ctx.constants[k["name"]] = {x: k[x] for x in ("legs", "names", "unsafe", "keys", "days", "neg", "maxnow", "maxcerts", "damage", "probes")}
        tables[k["name"]] = M.Table(out)
        if not tables[k["name"]].inits:
            raise RuntimeError("no table printed for class %s" % k["name"])
        spec_in["classes"].append({"name": k["name"], "table": out, "budget": k["budget"],
                                   "consts": {"names": k["names"], "keys": k["keys"], "probes": k["probes"]}})
        ctx.notes.append("table %s: %d states, %d transitions" % (k["name"], len(tables[k["name"]].states), tables[k["name"]].ntrans))

    res = ctx.impl("harness/gmtool_driver.py", [], input_obj=spec_in)
    crashes = {}
    complete = True
    for k, rc in zip(classes, res["classes"]):
        table = tables[k["name"]]
        st = rc["stats"]
        left = st["transitions"] - st["covered"]
        complete = complete and left == st["blocked"]
        ctx.notes.append("walk %s: %d steps in %d walks covered %d of %d transitions (%d left: %d not reachable - behind a reported disagreement or an allowed outcome the code does not take -, %d budget); per binding %s"
                         % (k["name"], st["steps"], st["walks"], st["covered"], st["transitions"], left, st["blocked"], left - st["blocked"],
                            json.dumps(st["legs"], sort_keys=True)))
        for wi, walk in enumerate(rc["walks"]):
            for si, step in enumerate(walk["steps"]):
                state = table.by_id(step["sid"])
                t = state["trans"][step["ti"]]
                j, diff = M.judge(table, t, step["real"])            # the verdict is computed here, not taken from the driver
                ctx.count(json.dumps([k["name"], step["sid"], step["ti"]]))
                info = step["real"]["info"]
                if "crash" in info:
                    ck = "%s %s -> %s" % (walk["leg"], t["c"]["op"], info["crash"])
                    crashes[ck] = crashes.get(ck, 0) + 1
                if (j, diff) != (step["j"], step["diff"]):
                    ctx.report("harness:driver_and_check_disagree", "driver judged %s, check judged %s" % ((step["j"], step["diff"]), (j, diff)))
                if diff:
                    step = dict(step, diff=diff)
                    hist = [table.by_id(x["sid"])["trans"][x["ti"]]["c"] for x in walk["steps"][:si + 1]]
                    hist = [{f: v for f, v in c.items() if v not in ("-", "none", 0) or f == "op" or (f == "d" and c["op"] == "sign")} for c in hist]
                    want = [{"rc": o["rc"], "why": o["why"], "out": o["out"]["t"], "obs": M.expected_view(table.states[o["k2"]]["obs"])} for o in t["outs"]]
                    ctx.report(classify(k, state, t, step),
                               "grid manager (%s, class %s) disagrees with GridManagerTool.tla in %s after command %s: %s differ; state before %s; "
                               "Spec allows %s; real %s; commands so far %s" % (
                                   walk["leg"], k["name"], "walk %d step %d" % (wi, si + 1), json.dumps(t["c"]), diff, json.dumps(state["s"]),
                                   json.dumps(want)[:1500], json.dumps(step["real"])[:1500], json.dumps(hist)[-1500:]),
                               {"kind": "table-walk", "class": k["name"], "leg": walk["leg"], "world": walk["world"], "commands": hist,
                                "state_before": state["s"], "command": t["c"], "allowed": want, "real": step["real"], "diff": diff})
            if walk["steps"]:
                ctx.sample({"class": k["name"], "leg": walk["leg"],
                            "commands": [table.by_id(x["sid"])["trans"][x["ti"]]["c"]["op"] for x in walk["steps"][:12]],
                            "observation_after_last_shown": walk["steps"][min(11, len(walk["steps"]) - 1)]["real"]["obs"]}, limit=3)
    ctx.exhaustive = complete
    if crashes:
        ctx.notes.append("commands that ended in an unhandled exception (traceback instead of an 'Error:' line; counted as failures, as the "
                         "Spec expects a failure there): %s" % json.dumps(crashes, sort_keys=True))
