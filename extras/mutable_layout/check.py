"""Extra `mutable_layout`: the SDMF / MDMF share formats and their proxies (allmydata/mutable/layout.py).

Spec    spec/mutable/MutableLayout.tla     geometry of both formats, images, the reader's and the writer's contract
GEN     spec/mutable/GenMutableLayout.tla  small shares (fmt x k x N x block size x segments x tail x field lengths) with the
                                           table the Spec assigns; invariants L_* = the design of the tables
MC      spec/mutable/MCMutableLayout.tla   the put_* / finish_publishing protocol as a machine; W_* = why the order exists
TRACE   spec/mutable/TraceMutableLayout.tla + harness/mutlayout_driver.py: the real write proxies / pack_share build every
        GEN case (and seeded out-of-order, checkstring and damage scenarios) on a real StorageServer behind a recording
        IStorageServer; the real read proxy / unpack_share read them back; TLC judges every event.

Clauses listed in known_findings.d/X-mutable_layout.json (status known) are soft: every occurrence is printed by TLC, reported
as KNOWN-FINDING, and the rest of the trace is still judged."""
import json

KNOWN_CLAUSES = ("W_finish_without_tree_KeyError", "T_sdmf_empty_checkstring", "R_backwards_table_exception")
GEN_INVS = ["L_Increasing", "L_ReaderInverts", "L_SdmfTight", "L_MdmfRegions", "L_BlocksTile", "L_BlocksHoldData", "L_HeaderTable"]
MC_INVS = ["W_FieldsIntact", "W_FinishComplete", "W_OffsetsStable", "W_CanFinish"]


def gen_cfg(quick):
    c = dict(Ks="{1, 3}" if quick else "{1, 2, 3, 4}", ExtraNs="{0, 2}" if quick else "{0, 7}", BlockSizes="{1, 2}" if quick else "{1, 2, 3}",
             MaxSegs=2 if quick else 4)
    t = "SPECIFICATION Spec\nCONSTANTS\n" + "".join("  %s = %s\n" % kv for kv in c.items())
    t += "  LenSets <- %s\n" % ("LensQuick" if quick else "LensThorough")
    t += "".join("INVARIANT %s\n" % i for i in GEN_INVS) + "CHECK_DEADLOCK FALSE\n"
    c["LenSets"] = "LensQuick" if quick else "LensThorough"
    return t, c


def mc_cfg(quick, weaken="none"):
    c = dict(Fmts='{"mdmf", "sdmf"}', MaxCalls=6 if quick else 12, Weaken='"%s"' % weaken)
    t = "SPECIFICATION Spec\nCONSTANTS\n" + "".join("  %s = %s\n" % kv for kv in c.items())
    t += "".join("INVARIANT %s\n" % i for i in MC_INVS) + "PROPERTY W_RefuseIsSilent\nCHECK_DEADLOCK FALSE\n"
    return t, c


def run(ctx):
    q = ctx.quick
    ctx.rule = ("GEN: every share of the small parameter table (format x k x N x block size x number of segments x tail x field "
                "lengths, incl. the RSA-2048 sizes the MDMF rooms were cut for and empty files) with the L_* invariants on each. "
                "MC: every sequence of put_* / finish_publishing calls up to MaxCalls against the rule (W_*). TRACE: each GEN case is "
                "built by the real write proxy (every third SDMF case by pack_share) in the documented order and read back by three "
                "real read proxies (no prefetch / some prefetch / data_is_everything) and unpack_share; seeded scenarios: call "
                "sequences out of order, wrong sizes, repeated puts, early finish (order); writers meeting an absent / existing share "
                "with no, the right, a wrong, a stale, the empty checkstring, second finish_publishing, intruder (cs); truncated "
                "containers, poked offset tables, unknown version byte (damage). One execution = one trace; non-trivial = anything "
                "but an SDMF share of one small segment written in order and read without prefetch.")
    ctx.assumptions += ["TLC and the CommunityModules",
                        "bytes are abstracted to run lists; every field is filled with its own tag byte, so a value tells which field "
                        "(and how much of it) it came from - contents inside a field are not distinguished",
                        "the proxies run against an in-process IStorageServer that records the vectors and calls the real "
                        "StorageServer synchronously (no Foolscap / HTTP transport)",
                        "header numbers stay below 2^31 (TLC integers); sequence numbers below 256"]
    # ---------------- GEN: the table of small shares, design invariants ----------------
    gtxt, gconsts = gen_cfg(q)
    ctx.constants["GEN"] = gconsts
    cases, r = ctx.gen("mutable/GenMutableLayout", gtxt, timeout=1200)
    ctx.exhaustive = True
    ctx.notes.append("GEN: %d shares enumerated by GenMutableLayout.tla, invariants %s hold on each" % (len(cases), ", ".join(GEN_INVS)))
    # ---------------- MC: the call protocol ----------------
    mtxt, mconsts = mc_cfg(q)
    ctx.constants["MC"] = mconsts
    ctx.mc("mutable/MCMutableLayout", mtxt, name="MC write-proxy call protocol", timeout=3000)
    if not q:
        for wk, inv in (("encprivkey_after_chain", "W_OffsetsStable"), ("chain_after_signature", "W_OffsetsStable"),
                        ("signature_after_key", "W_OffsetsStable"), ("finish_without_tree", "W_FinishComplete")):
            wt, _ = mc_cfg(True, wk)
            rr = ctx.mc("mutable/MCMutableLayout", wt, name="MC rule without the guard %s (must fail)" % wk, expect_ok=False, timeout=3000)
            if inv not in rr.violated:
                ctx.report(key="spec:vacuous:%s" % wk, what="dropping the guard %s from the rule does not violate %s: property is vacuous" % (wk, inv))
            ctx.notes.append("rule without guard %s: TLC finds %s violated (properties are not vacuous)" % (wk, rr.violated))

    # ---------------- conformance ----------------
    n = 120 if q else 2000
    traces = ctx.impl("harness/mutlayout_driver.py", ["--n", n, "--reads", 9 if q else 30], input_obj={"cases": cases}, timeout=6000)
    soft = [c for c in KNOWN_CLAUSES if any(k.get("status") == "known" and k["key"] == "trace:" + c for k in ctx.known)]
    kinds, evkinds = {}, {}
    for tr in traces:
        tr["consts"]["soft"] = soft
        c = tr["consts"]
        kinds[c["kind"]] = kinds.get(c["kind"], 0) + 1
        evs = tr["events"]
        for e in evs:
            k = e["ev"]
            if k == "Put":
                k = "Put:" + ("ok" if e["res"] == "ok" else "refused")
            elif k == "Finish":
                k = "Finish:" + ("refused" if e["res"] != "ok" else ("written" if e["calls"] and e["calls"][-1]["wrote"] else "test-failed"))
            elif k == "Read":
                k = "Read:" + e["res"]["st"].split(":")[0] + (":local" if not e["remote"] else ":remote")
            evkinds[k] = evkinds.get(k, 0) + 1
        trivial = (c["kind"] == "case" and c["fmt"] == "sdmf" and c["via"] == "proxy"
                   and not any(e["ev"] == "Read" and e["pre"] for e in evs))
        ctx.count(None if trivial else json.dumps(evs, sort_keys=True))
    ctx.notes.append("traces: %s; events: %s" % (json.dumps(kinds, sort_keys=True), json.dumps(evkinds, sort_keys=True)))
    for tr in traces[:1] + traces[len(cases):len(cases) + 3]:
        ctx.sample({"consts": tr["consts"], "events": [{k: (v if k != "img" else "...") for k, v in e.items()} for e in tr["events"][:6]]}, limit=4)

    def key_of(tr, l, clause):
        return "trace:%s:%s" % (clause, tr["events"][l - 1]["ev"])

    def what_of(tr, l, clause):
        e = tr["events"][l - 1]
        return ("real layout.py disagrees with MutableLayout.tla at event %d (%s) of a %s trace (%s): clause %s; observed %s" % (
            l, e["ev"], tr["consts"]["kind"], tr["consts"]["fmt"], clause,
            json.dumps({k: v for k, v in e.items() if k != "img"})[:400]))

    cfg = "SPECIFICATION TraceSpec\nINVARIANT TraceOK\nCHECK_DEADLOCK FALSE\n"
    ctx.trace("mutable/TraceMutableLayout", traces, cfg=cfg, key_of=key_of, what_of=what_of, batch=400, workers=4, timeout=3000)
    for k in list(ctx.note_counts):
        if k.startswith("K:"):
            _, clause, ev = k.split(":")
            for _ in range(ctx.note_counts.pop(k)):
                ctx.report(key="trace:%s:%s" % (clause, ev), what="layout.py: clause %s at a %s event" % (clause, ev))
