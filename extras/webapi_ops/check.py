"""X-webapi_ops  The write side of the web API (docs/frontends/webapi.rst) on top of the directory Spec.

Spec (spec/frontends):
  WebOps.tla       EXTENDS DirnodeMore.  World WW = [D, imm, mf]; Serve(WW, request, fresh, now) = [codes, W, out, redir, kind, body]
                   for PUT /uri, PUT /uri/$DIRCAP/path (replace=, format=, mutable=), PUT ?t=uri, PUT / POST ?t=mkdir,
                   mkdir-with-children, mkdir-immutable (URL and name= forms, /uri forms), POST ?t=upload (name=, FILENAME, /uri,
                   when_done=), POST ?t=uri, ?t=set_children, DELETE, ?t=delete / unlink, ?t=rename, ?t=relink, GET ?t=json, GET;
                   the WO clauses state the document's rules over (world, world', request, answer) without the operators.
  MCWebOps.tla     2 directories x 2 names x absent / file / directory (/ mutable file) and every request of a universe that has
                   every request kind x replace= / format= x path shape; WO clauses as action properties, idempotence of PUT / DELETE.
  TraceWebOps.tla  judges every (request, response, listings-after) event recorded from the real web server.
Conformance: harness/webops_driver.py (real Root + WebishServer + _Client on the SimGrid, dirnode time pinned).
"""
import json

PROPS = ["WO_Status_", "WO_ReadsPure_", "WO_BadRequest_", "WO_ErrorNoChange_", "WO_Unlinked_", "WO_Replace_", "WO_PutCode_", "WO_ReadBack_",
         "WO_InPlace_", "WO_Files_", "WO_Mkdir_", "WO_Intermediate_", "WO_Frame_", "WO_Delete_", "WO_Move_", "WO_Attach_", "WO_SetChildren_",
         "WO_WhenDone_", "WO_Reads_", "WO_DirInvariants_", "WO_LinkTimes_", "WO_DirLayer_", "WO_Idempotent_"]


def cfg_of(c):
    t = "SPECIFICATION Spec\nVIEW View_\nCONSTANTS\n" + "".join("  %s = %s\n" % kv for kv in c.items())
    return t + "".join("PROPERTY %s\n" % p for p in PROPS) + "CHECK_DEADLOCK FALSE\n"


def probe_of(tr):
    return tr["src"][len("probe:"):] if tr["src"].startswith("probe:") else None


def slim(e):
    return {k: v for k, v in e.items() if k not in ("obs", "mf", "imm", "fresh", "text")}


def run(ctx):
    q = ctx.quick
    ctx.rule = ("MC: from each of the 256 (thorough: 625) worlds of 2 directories x 2 names x {absent, immutable file, directory, writeable mutable "
                "file(, directory linked read-only with no-write metadata)} every request of MCWebOps' universe (every request kind of WebOps.tla x replace= none / false / only-files x "
                "format= x the slot itself / below an existing directory / below a missing one / below a file; quick: URLs starting at d1 "
                "only, the worlds being symmetric), thorough also every sequence of 2 requests of the reduced universe from the 81 worlds and of 3 requests from the 16 worlds over {absent, directory}.  TRACE: seeded "
                "histories of 30 (thorough 45) requests against the real web server starting from two empty directories; the generator "
                "aims names at present / absent entries of the last listing, walks existing read-write directories, appends missing names "
                "(intermediate creation) or a file (blocking) and stays away from the input classes run as PROBES (one short history per "
                "class on which the code is known to deviate from webapi.rst); three of four histories open with one of three scripted "
                "sequences (replace= on every kind of slot; metadata through set_children / rename / relink; mutable files in place, 410, "
                "DELETE twice).  A history is non-trivial if it has an intermediate directory created by a request, a 409, and a mutable "
                "file overwritten in place or a successful relink into another directory.")
    ctx.assumptions += ["TLC and the CommunityModules",
                        "the driver's fixed tables between Spec vocabulary and HTTP (harness/webops_driver.py: names, metadata values, "
                        "three file contents; caps -> identities by storage index, immutable files by reading them back)",
                        "allmydata.dirnode.time rebound to a pinned clock, one tick per request",
                        "one gateway, one request at a time, all storage servers up (k=1, n=2 on 2 servers)",
                        "between full observations (every 8th request and the last one of a history) a directory or mutable file whose "
                        "share files did not change on any server is not read again; every full observation cross-checks the kept answers",
                        "writes are made with write-caps all the way (read-only refusals: C41; here only three probes)"]
    c1 = {"RawNames": '{"a", "e2"}', "SlotKinds": '{"absent", "file", "dir", "mfile"}' if q else '{"absent", "file", "dir", "mfile", "rodir"}',
          "StartDirs": '{"d1"}' if q else '{"d1", "d2"}', "MaxOps": 1, "Small": "TRUE" if q else "FALSE"}
    ctx.constants["MC_WebOps"] = c1
    ctx.mc("frontends/MCWebOps", cfg_of(c1), name="MC WebOps (every world x every request)", timeout=6000, coverage=False)
    if not q:
        c2 = {"RawNames": '{"a", "e2"}', "SlotKinds": '{"absent", "file", "dir"}', "StartDirs": '{"d1"}', "MaxOps": 2, "Small": "TRUE"}
        ctx.constants["MC_WebOps_depth2"] = c2
        ctx.mc("frontends/MCWebOps", cfg_of(c2), name="MC WebOps (sequences of 2 requests)", timeout=6000, coverage=False)
        c3 = {"RawNames": '{"a", "e2"}', "SlotKinds": '{"absent", "dir"}', "StartDirs": '{"d1"}', "MaxOps": 3, "Small": "TRUE"}
        ctx.constants["MC_WebOps_depth3"] = c3
        ctx.mc("frontends/MCWebOps", cfg_of(c3), name="MC WebOps (sequences of 3 requests)", timeout=6000, coverage=False)

    traces = ctx.impl("harness/webops_driver.py", ["--n", 36 if q else 400, "--len", 36 if q else 50, "--jobs", 4], timeout=6000)
    reqs = 0
    for tr in traces:
        evs = tr["events"]
        reqs += len(evs) + tr["reads"]
        if probe_of(tr):
            ctx.count(None, n=len(evs))
            continue
        made = any(e["q"]["op"] not in ("mkdir_unlinked", "mkdirc_unlinked", "mkdiri_unlinked") and i > 0 and
                   len(e["obs"]) > len(evs[i - 1]["obs"]) + (1 if e["q"]["op"].startswith("mkdir") else 0) for i, e in enumerate(evs))
        conflict = any(e["code"] == 409 for e in evs)
        inplace = any(e["q"]["op"] in ("put_file", "upload", "upload_at") and e["code"] == 200 and e["out"]["w"] and i > 0 and
                      e["out"]["id"] in evs[i - 1]["mf"] for i, e in enumerate(evs))
        moved = any(e["q"]["op"] == "relink" and e["code"] == 200 and e["q"]["to_d"] for e in evs)
        ctx.count(json.dumps([slim(e) for e in evs], sort_keys=True) if (made and conflict and (inplace or moved)) else None)
        ctx.count(None, n=len(evs) - 1)
    ctx.sample({"src": traces[0]["src"], "events": [slim(e) for e in traces[0]["events"][5:11]]})
    stale = sum(t.get("stale", 0) for t in traces)
    if stale:
        # an object whose share files did not change answered differently at a full observation: the listings the driver kept
        # between full observations were not the server's
        ctx.report("observation:stale_answer", "%d answers of read requests changed although no share file of the object had changed" % stale)
    ctx.notes.append("%d histories + %d probes, %d judged requests, %d HTTP requests in all (observation included)" % (
        sum(1 for t in traces if not probe_of(t)), sum(1 for t in traces if probe_of(t)), sum(len(t["events"]) for t in traces), reqs))
    ctx.trace("frontends/TraceWebOps", traces, batch=200, workers=4,
              key_of=lambda tr, l, c: ("probe:%s:%s" % (probe_of(tr), c)) if probe_of(tr) else "trace:%s:%s" % (c, tr["events"][l - 1]["q"]["op"]),
              what_of=lambda tr, l, c: "real web server, %s, request %d: %s -> %d %s: %s" % (
                  tr["src"], l, tr["events"][l - 1]["http"], tr["events"][l - 1]["code"], tr["events"][l - 1]["text"][:80].replace("\n", " "), c))
    seen = {f.get("key") for f in ctx.findings}
    for tr in traces:
        p = probe_of(tr)
        if p and not any(k and k.startswith("probe:%s:" % p) for k in seen):
            ctx.notes.append("probe %s: the real code now answers as documented (known finding no longer reproduced)" % p)
    ctx.exhaustive = False
