"""X-sftp_handles - the SFTP frontend's namespace and file-handle semantics (allmydata/frontends/sftpd.py:
SFTPUserHandler.openFile / renameFile / posix-rename / removeFile / removeDirectory / makeDirectory / openDirectory /
getAttrs, GeneralSFTPFile and ShortReadOnlySFTPFile; docs/frontends/FTP-and-SFTP.rst; the SFTP draft the code cites).

Design level: TLC model-checks spec/frontends/MCSftpHandles (2 names, 2 handles, every history of opens with the
flag sets, handle requests and namespace requests) against the client-observable rules stated over a client-side
ghost; a second run with the size rule of the code ("a change of size alone is not a change") must be refuted.
Implementation level: seeded histories against the real SFTPUserHandler on a SimGrid (harness/sftp_handles_driver.py),
sequential and with the overlaps the code's comments promise to handle, validated event by event by TLC against
TraceSftpHandles: every status code, the data of every read, sizes / types / write bits, listings, and - read back
from the grid without SFTP - the directory and the contents of every file after every request that may change them.
"""
import copy, json, os
from concurrent.futures import ThreadPoolExecutor

INVARIANTS = ["SH_NothingReappears", "SH_BindingFollowsClient", "Inv_StateOK"]
PROPERTIES = ["SH_CloseCommits", "SH_CloseWithoutCommit", "SH_ReadOwnView", "SH_FStatOwnSize", "SH_HandleModes",
              "SH_RefusedChangesNothing", "SH_OnlyCloseCommits", "SH_Excl", "SH_OpenRefusals", "SH_RenameNoClobber",
              "SH_RenameMoves", "SH_RenameSource", "SH_RemoveRules", "SH_StatRules", "SH_DirRules", "SH_ReadOnlyParent"]


def mc_cfg(c):
    return ("SPECIFICATION Spec\nCONSTANTS\n  Names = %(Names)s\n  Handles = %(Handles)s\n  FlagSets = %(FlagSets)s\n"
            "  WorldIds = %(WorldIds)s\n  OtherIds = %(OtherIds)s\n  Offs = %(Offs)s\n  Sizes = %(Sizes)s\n  MaxOps = %(MaxOps)d\n"
            "  SizeRule = \"%(SizeRule)s\"\n  WithRo = %(WithRo)s\n" % c
            + "".join("INVARIANT %s\n" % i for i in INVARIANTS) + "".join("PROPERTY %s\n" % p for p in PROPERTIES)
            + "CHECK_DEADLOCK FALSE\n")


def handle_names(evs, upto):
    """handle id -> the root-level name its file is at after the first `upto` events (as the client knows it)"""
    names = {}
    for x in evs[:upto]:
        if x["ev"] == "Open" and x["res"].get("st") == "ok" and x["p"]["t"] == "name":
            names[x["h"]] = x["p"]["n"]
        elif x["ev"] == "Rename" and x["res"].get("st") == "ok" and x["p"]["t"] == "name" and x["p2"]["t"] == "name":
            for h, n in list(names.items()):
                if n == x["p"]["n"]:
                    names[h] = x["p2"]["n"]
    return names


def kind_at(tr, upto, name):
    """the kind of the entry at `name` as last read back from the grid before event number `upto` (1-based)"""
    for x in reversed(tr["events"][:max(0, upto - 1)]):
        if x["obs"]["present"]:
            return x["obs"]["dir"][name]["kind"]
    return tr["consts"]["dir"][name]["kind"]


def family_of(tr, l, clause):
    """Structural classification of a rejected event (not a verdict): which of the deviations described in
    notes/X-sftp_handles.md it is, decided from the clause TLC named and the shape of the history before it.
    Anything that does not match one of these exact shapes is "other" (a VIOLATION)."""
    evs = tr["events"]
    e = evs[l - 1]
    st = e["res"].get("st")
    paths = [e.get("p", {}), e.get("p2", {})]
    if clause.endswith("@setsize_not_a_change"):
        return "size_only_change_not_committed"
    if clause.endswith(":exp_denied:got_exc:IndexError") and any(p.get("t") == "ro" for p in paths):
        return "readonly_directory_answers_failure"
    if st == "hang" and e["piped"] and l >= 2:
        a = evs[l - 2]
        if a["ev"] == "Open" and set(a["F"]) & {"W", "C"} and a["res"].get("st") not in ("ok", "hang") and a["p"] == e.get("p"):
            return "request_overlapping_refused_open_never_answered"
    if e["ev"] == "Rename" and e["p"] == e["p2"] and clause.endswith("Rename:exp_nosuch:got_ok"):
        return "rename_of_missing_name_onto_itself"
    ghostly = ((clause.endswith(":exp_nosuch:got_ok") and e["ev"] in ("Rename", "Stat", "Remove")) or
               (e["ev"] == "Rename" and clause.endswith("Rename:exp_ok:got_denied")) or
               (e["ev"] == "Stat" and clause in ("SH_Stat_size", "SH_Stat_writable")))
    if ghostly:
        # a name whose open-for-writing was still unanswered when its removal was sent: the handle is registered
        # again when the open completes, so until it is closed the name (or the name it is renamed to) looks alive
        for i in range(1, l - 1):
            a, b = evs[i - 1], evs[i]
            if (a["ev"] == "Open" and set(a["F"]) & {"W", "C"} and a["res"].get("st") == "ok" and b["ev"] == "Remove" and b["piped"]
                    and b["p"] == a["p"] and b["res"].get("st") == "ok"):
                names = {a["p"]["n"]}
                alive = True
                for x in evs[i + 1:l - 1]:
                    if x["ev"] == "Rename" and x["res"].get("st") == "ok" and x["p"]["n"] in names:
                        names.add(x["p2"]["n"])
                    if x["ev"] == "Close" and x["h"] == a["h"]:
                        alive = False
                if alive and (e["p"].get("n") in names or e.get("p2", {}).get("n") in names):
                    return "removed_while_open_unanswered_leaves_ghost"
    # an open sent while the close of a file at the same name was unanswered: the directory is looked up before the
    # commit of that close has landed, so the new handle is a handle on the OLD file (or FXF_EXCL finds no entry)
    for j in range(1, l):
        c, o = evs[j - 1], evs[j]
        if (o["ev"] == "Open" and o["piped"] and o["p"]["t"] == "name" and c["ev"] == "Close"
                and handle_names(evs, j - 1).get(c["h"]) == o["p"]["n"]
                # only a directory entry that is RELINKED by the close can be looked up stale; a mutable file is the same object
                and kind_at(tr, j, o["p"]["n"]) not in ("mut", "mro")):
            at = {o["p"]["n"]} | {handle_names(evs, k).get(o["h"]) for k in range(j + 1, l)}
            parts = clause.split(":")
            if (o is e or e.get("h") == o["h"] or ("_ns" in parts[0] and len(parts) >= 2 and parts[1] in at)
                    or (e["ev"] == "Stat" and e["p"].get("n") in at and clause.startswith("SH_Stat_"))):
                return "open_overlapping_close_uses_stale_lookup"
    if e["ev"] == "Close" and ("_ns:" in clause or clause.startswith("SH_Close:exp_ok:")):
        # a path request that was REFUSED after this handle had been opened, about the name the handle's file is at
        name, opened = None, False
        for x in evs[:l - 1]:
            if x["ev"] == "Open" and x["h"] == e["h"] and x["res"].get("st") == "ok" and x["p"]["t"] == "name":
                name, opened = x["p"]["n"], True
            elif opened and x["ev"] == "Rename" and x["res"].get("st") == "ok" and x["p"].get("n") == name and x["p2"]["t"] == "name":
                name = x["p2"]["n"]
            elif opened and x["ev"] in ("Remove", "Rename") and x["res"].get("st") != "ok" and x["p"] == {"t": "name", "n": name}:
                if x["ev"] == "Remove" or x["p2"]["t"] == "ro":
                    return "refused_request_disturbs_open_file"
    return "other"


def key_of(tr, l, clause):
    e = tr["events"][l - 1]
    return "trace:%s:%s:%s" % (family_of(tr, l, clause), clause, "piped" if e.get("piped") else "seq")


def what_of(tr, l, clause):
    e = tr["events"][l - 1]
    hist = []
    for x in tr["events"][:l]:
        y = {k: v for k, v in x.items() if k in ("ev", "p", "p2", "ow", "F", "h", "off", "len", "data", "n")}
        y["res"] = x["res"].get("st")
        if x.get("piped"):
            y["piped"] = True
        hist.append(y)
    return "real SFTPUserHandler vs SftpHandles.tla at event %d %s: clause %s; initial directory %s; history: %s" % (
        l, json.dumps({k: v for k, v in e.items() if k != "obs"})[:400], clause,
        json.dumps({n: (v["kind"], len(v["c"]), v["fid"], v["nw"]) for n, v in tr["consts"]["dir"].items()}), json.dumps(hist)[:2500])


def run(ctx):
    q = ctx.quick
    ctx.rule = ("MC: every history (<= MaxOps requests) of open(name, flag set) / read / write / set size / fstat / close / stat / "
                "rename / posix-rename / remove / rmdir / mkdir over 2 names and 2 handles from 4 (quick) / 14 (thorough) initial directories. TRACE: seeded "
                "histories against the real SFTPUserHandler: 3 names with a seeded initial population (absent, LIT / CHK file, no-write "
                "link, SDMF / MDMF mutable file by write or read cap, directory, unknown cap), a read-only sub-directory, /uri/<cap> "
                "paths; open with any subset of the six flags (85% from 16 common combinations); half of the histories sequential, half with "
                "overlapping requests about one name (open-for-writing or close not yet answered, then getAttrs / rename / remove / "
                "re-open; parked storage calls delivered in fifo or seeded random order); most histories begin with a scripted pattern "
                "(write-close-reopen-read, close then remove/rename/stat, open then stat/rename/remove, remove/rename under an open "
                "handle, reads around EOF) and continue as a seeded walk. A history is non-trivial if a handle was written and closed, "
                "or a rename / remove met an open handle.")
    ctx.assumptions += [
        "TLC and the CommunityModules",
        "one SFTP user, one gateway; storage calls never fail (1 server, 1-of-1)",
        "requests overlap only in the patterns the code's comments name; everything else is one request at a time with the grid "
        "driven to quiescence in between (a background download has ended before the next request)",
        "by the draft's ordering rule the answers of overlapping requests about one file must be those of the one-at-a-time history",
        "FXF_CREAT without FXF_WRITE on a path where no commit is possible is not generated (undocumented)",
        "timestamps and the text of error messages are not judged",
    ]
    # quick: 4 initial directories (immutable / mutable file under the first name, second name absent / a file), 8 flag
    # sets, 3 requests; thorough: 14 initial directories (no-write link, read-only mutable, directory, unknown cap, second file), 10 flag
    # sets, the read-only directory and a cap path, 4 requests
    consts = dict(Names='{"a", "b"}', Handles='{"h1", "h2"}',
                  FlagSets='{{"R"}, {"W"}, {"R","W"}, {"W","C"}, {"W","C","T"}, {"W","C","X"}, {"W","A"}, {"R","C"}}' if q else
                  '{{"R"}, {"W"}, {"R","W"}, {"W","C"}, {"W","C","T"}, {"W","C","X"}, {"W","A"}, {"R","C"}, {"W","T"}, {"R","W","C","T"}}',
                  WorldIds="{2, 3}" if q else "{1, 2, 3, 4, 5, 6, 7}", OtherIds="{1, 2}",
                  Offs="{0, 2}", Sizes="{0, 3}" if q else "{0, 1, 3}", MaxOps=3 if q else 4, SizeRule="contract",
                  WithRo="FALSE" if q else "TRUE")
    ctx.constants["MC"] = consts
    # the rule of the code ("a change of size alone is not a change") must be refuted by the model, else the model
    # does not see the finding that the trace validation reports
    c2 = dict(consts, Names='{"a"}', Handles='{"h1"}', FlagSets='{{"W"}, {"R","W"}}', SizeRule="code", WorldIds="{2, 3}",
              OtherIds="{1}", MaxOps=3, WithRo="FALSE")

    def design():
        ctx.mc("frontends/MCSftpHandles", mc_cfg(consts), name="MC SftpHandles", timeout=7200)

    def design_code_rule():
        r = ctx.mc("frontends/MCSftpHandles", mc_cfg(c2), name="MC SftpHandles (size rule of the code, must fail)", expect_ok=False,
                   timeout=3000)
        if "SH_CloseCommits" not in r.violated and not os.environ.get("VERIF_SKIP_MC"):
            raise RuntimeError("the model with the code's size rule was not refuted: %s" % r.violated)

    n = 120 if q else 1200
    # the two model-checking runs do not depend on the driver of the real code and the trace validation: run them side by side
    ex = ThreadPoolExecutor(max_workers=2)
    futs = [ex.submit(design), ex.submit(design_code_rule)]
    try:
        out = ctx.impl("harness/sftp_handles_driver.py", ["--n", n, "--events", 14 if q else 24])
        validate(ctx, out)
    finally:
        for f in futs:
            f.result()
        ex.shutdown()
    ctx.exhaustive = False


def validate(ctx, out):
    traces = out["traces"]
    ctx.constants["TRACE"] = out["info"]
    stats = {"requests": 0, "piped": 0, "opens_ok": 0, "opens_refused": 0, "commits": 0, "reads_ok": 0, "observations": 0, "hangs": 0}
    for tr in traces:
        wrote, closed_w, met = set(), False, False
        openw = set()
        for e in tr["events"]:
            stats["requests"] += 1
            stats["piped"] += 1 if e["piped"] else 0
            st = e["res"].get("st")
            stats["observations"] += 1 if e["obs"]["present"] else 0
            stats["hangs"] += 1 if st == "hang" else 0
            if e["ev"] == "Open":
                stats["opens_ok" if st == "ok" else "opens_refused"] += 1
                if st == "ok" and set(e["F"]) & {"W", "C"}:
                    openw.add(e["h"])
            elif e["ev"] in ("Write", "SetSize") and st == "ok":
                wrote.add(e["h"])
            elif e["ev"] == "Close":
                if e["h"] in wrote:
                    closed_w = True
                    stats["commits"] += 1
                openw.discard(e["h"])
            elif e["ev"] in ("Rename", "Remove") and st == "ok" and openw:
                met = True
            elif e["ev"] == "Read" and st == "ok":
                stats["reads_ok"] += 1
        ctx.count(json.dumps([[e["ev"], e.get("p", {}).get("n", ""), "".join(e.get("F", [])), e.get("h", ""), e["res"].get("st")]
                              for e in tr["events"]]) if (closed_w or met) else None)
    ctx.sample({"consts": {k: v for k, v in traces[0]["consts"].items() if k in ("dir", "profile", "threshold")},
                "events": [{k: v for k, v in e.items() if k != "obs"} for e in traces[0]["events"][:8]]}, limit=2)
    ctx.notes.append("histories: %d (%s); %s" % (len(traces), ", ".join("%s %d" % (f, sum(1 for t in traces if t["consts"]["profile"] == f))
                                                                       for f in ("seq", "piped")), json.dumps(stats)))
    # no INVARIANT in the trace configuration: the verdicts are the VF_ACCEPT / VF_REJECT tuples (with TraceOK listed TLC
    # would also print the whole behaviour of every rejected history, which costs more time than the validation itself)
    rejected = ctx.trace("frontends/TraceSftpHandles", traces, key_of=key_of, what_of=what_of, batch=400, invariants=())
    # A history cut by a known deviation that does not disturb the state (a wrong status code; the size-only
    # close, whose state is known) is validated again to its end with exactly that deviation stepped over,
    # so that a known finding cannot hide a later deviation.
    again = []
    for (ti, l, clause) in rejected:
        t2 = None
        if clause.endswith("@setsize_not_a_change"):
            t2 = copy.deepcopy(traces[ti])
            t2["consts"]["sizerule"] = "code"
        elif family_of(traces[ti], l, clause) in ("readonly_directory_answers_failure", "rename_of_missing_name_onto_itself"):
            t2 = copy.deepcopy(traces[ti])
            t2["consts"]["tolerate"] = [clause]
        if t2 is not None and l < len(t2["events"]):
            again.append(t2)
    if again:
        ctx.notes.append("%d histories validated a second time with their known deviation stepped over" % len(again))
        ctx.trace("frontends/TraceSftpHandles", again, key_of=key_of, what_of=what_of, name="TRACE second pass", invariants=())
