"""X-cli_aliases  The command line's naming layer: aliases, path arguments, the aliases file, and the web-API requests the
file store commands make of them.

Spec (spec/frontends):
  CliNames.tla        strings as token sequences; Resolve(arg, alias table, default alias, windows) = (root, path) | local path |
                      UnknownAliasError, from docs/frontends/CLI.rst (path syntax, drive letters, colons in later components) and the
                      get_alias docstring
  CliAliasFile.tla    private/aliases + private/root_dir.cap -> alias table; add-alias / create-alias / list-aliases as Step(F, op)
  CliCommands.tla     ls / get / put / unlink / mkdir / mv / ln -> exit status class and web-API requests (method, root, path
                      components, query, body), EXTENDS CliNames
  GenCliResolve / GenCliAliasFile / GenCliCommands.tla   GEN tables (TLC enumerates every short input with the expected result) and
                      the GA_ / AF_ / CC_ clauses (documented rules stated over the rows, checked by TLC on every row)
Conformance: harness/cli_alias_driver.py replays every row into the real functions (get_alias, get_aliases, the command functions
behind their real usage.Options classes; do_http recorded) and, for a scripted set of documented examples, into the real web server.
"""
import json, os, re, sys
from urllib.parse import urlsplit, unquote

sys.path.insert(0, os.path.join(os.path.dirname(os.path.abspath(__file__)), "..", "..", "harness"))
import cli_alias_lib as L  # noqa: E402

GA = ["GA_Reassemble", "GA_TableCap", "GA_CapForms", "GA_ColonDotSlash", "GA_DefaultIsTahoe", "GA_Errors", "GA_ColonInLaterComponent", "GA_Drive"]
AF = ["AF_Parse", "AF_Readback", "AF_Frame", "AF_Refused", "AF_Accepted", "AF_Create", "AF_List"]
CC = ["CC_DefaultIsTahoe", "CC_UnknownAlias", "CC_Addressed", "CC_FailureShows", "CC_MoveOrder", "CC_NoEmptyComponent"]


def cfg(consts, invs):
    return "SPECIFICATION Spec\nCONSTANTS\n" + "".join("  %s = %s\n" % kv for kv in consts.items()) + "".join("INVARIANT %s\n" % i for i in invs)


def strip(toks):
    t = L.seq(toks)
    while t and t[0] == " ":
        t = t[1:]
    while t and t[-1] == " ":
        t = t[:-1]
    return t


def uri_prefix(t):
    return bool(t) and (t[0] in ("K", "M") or t[:2] == ["U", ":"])


def find(t, pat):
    for i in range(len(t) - len(pat) + 1):
        if t[i:i + len(pat)] == pat:
            return i
    return -1


# ---- structural classes of inputs: used for report KEYS only, never for a verdict ----
def arg_shape(toks):
    t = strip(toks)
    if uri_prefix(t):
        i, j = find(t, [":", ".", "/"]), find(t, ["/"])
        if i >= 0 and j < i:
            return "cap_slash_before_colon_dot_slash"
        if i >= 0 and i + 3 == len(t):
            return "cap_colon_dot_slash_alone"
        return "leading_slash" if (j >= 0 and t[j + 1:j + 2] == ["/"]) else "cap"
    if t[:1] == ["/"]:
        return "leading_slash"
    if ":" in t:
        c = t.index(":")
        if "/" in t[:c]:
            return "colon_in_later_component"
        return "leading_slash" if t[c + 1:c + 2] == ["/"] else "alias"
    return "bare"


def dest_shape(toks):
    t = strip(toks)
    if not t or (t[-1] == ":" and "/" not in t) or (uri_prefix(t) and ("/" not in t or (t.count("/") == 1 and t[-1] == "/"))):
        return "dest_is_a_root"
    return arg_shape(t)


# =========================================================================== resolve
def judge_resolve(ctx, cases, real):
    n = 0
    opens = {}
    for c, rows in zip(cases, real):
        shape = arg_shape(c["s"])
        for row, (rk, rroot, rpath) in zip(c["rows"], rows):
            n += 1
            exp = row["exp"]
            kind = exp["kind"]
            nontrivial = kind != "ok" or exp["root"]["t"] != "alias" or exp["root"]["via"] != "default"
            ctx.count("%s|%s|%s|%s" % ("".join(L.seq(c["s"])), row["tbl"], row["dflt"], row["win"]) if nontrivial else None)
            if rk.startswith("crash"):
                why = rk
            elif row["open"]:
                opens[row["open"] + " -> " + rk] = opens.get(row["open"] + " -> " + rk, 0) + 1
                continue
            elif kind in ("unknown_alias", "no_default"):
                why = "" if rk == "UnknownAliasError" else "%s_but_%s" % (kind, rk)
            elif kind == "local":
                why = "" if (rk == "local" and rpath == L.text(exp["path"])) else ("local_but_%s" % rk if rk != "local" else "path")
            else:
                why = ("ok_but_%s" % rk) if rk != "ok" else "root" if rroot != L.root_text(exp["root"]) else "path" if rpath != L.text(exp["path"]) else ""
            if len(ctx.samples) < 3 and not why and nontrivial and n % 4001 == 7:
                ctx.sample({"leg": "resolve", "arg": L.text(c["s"]), "table": row["tbl"], "default": row["dflt"], "windows": row["win"],
                            "spec": {"kind": kind, "root": L.root_text(exp["root"]), "path": L.text(exp["path"])}, "real": [rk, rroot, rpath]})
            if why:
                ctx.report("resolve:%s:%s" % (shape, why),
                           "get_alias(%s, %r, default=%s)%s -> %s root=%r path=%r; the Spec (CLI.rst path syntax) requires %s root=%r path=%r"
                           % (row["tbl"], L.text(c["s"]), row["dflt"], " on Windows" if row["win"] else "", rk, rroot, rpath, kind,
                              L.root_text(exp["root"]), L.text(exp["path"])),
                           replay={"kind": "get_alias", "arg": L.text(c["s"]), "tokens": c["s"], "row": row, "real": [rk, rroot, rpath]})
    return n, opens


# =========================================================================== aliasfile
def table_text(rows):
    return {L.text(r["name"]): L.cap_text(r["cap"]) for r in L.seq(rows)}


def name_shape(o, F):
    if o["op"] == "list":
        return o["mode"]
    a = L.seq(o["arg"])
    name = a[:-1] if a[-1:] == [":"] else a
    if name[:1] == ["#"]:
        return "hash_name"
    if "/" in name:
        return "slash_name"
    if name == ["t"] and F["root"] not in ("absent", "empty") and not any(l["k"] == "entry" and L.seq(l["name"]) == ["t"] for l in L.seq(F["lines"])):
        return "tahoe_over_root_dir_cap"
    return "colon_name" if ":" in name else "space_name" if " " in name else "plain"


def parse_listing(o, stdout):
    """list-aliases output -> {name: cap} (json mode: {name: (readwrite, readonly)})."""
    if o["mode"] == "json":
        d = json.loads(stdout) if stdout.strip() else {}
        return {k: (v["readwrite"], v["readonly"]) for k, v in d.items()}
    out = {}
    for line in stdout.split("\n"):
        if line.strip():
            name, cap = line.lstrip(" ").split(": ", 1)
            out[name] = cap
    return out


def judge_aliasfile(ctx, cases, real):
    n_ops = 0
    for c, r in zip(cases, real):
        F = c["F"]
        ops = L.seq(c["ops"])
        body, root = L.render_file(F)
        ctx.count(json.dumps([body, root, [[o["op"], L.seq(o["arg"]), o["ok"], o["mode"]] for o in ops]]) if (ops or len(L.seq(F["lines"])) > 1) else None)
        rep = {"kind": "aliases-file", "aliases": body, "root_dir.cap": root, "ops": ops}
        if r["table0"] != table_text(c["table0"]):
            kinds = sorted({l["k"] + ("_spaced" if l["pre"] or l["post"] or l["mid"] != 1 else "") for l in L.seq(F["lines"])})
            ctx.report("aliasfile:parse:%s" % ("crash" if "crash" in r["table0"] else "+".join(kinds) + (":no_final_newline" if not F["nl"] else "")),
                       "get_aliases on private/aliases=%r root_dir.cap=%r -> %r; the Spec requires %r" % (body, root, r["table0"], table_text(c["table0"])),
                       replay=dict(rep, real=r["table0"]))
            continue
        before = table_text(c["table0"])
        for k, (o, e, s) in enumerate(zip(ops, L.seq(c["steps"]), r["steps"])):
            n_ops += 1
            shape = name_shape(o, F)
            why = ""
            if e["orRefuse"] and s["rc"] not in (0, None) and not str(s["rc"]).startswith("crash") and not s["posts"] and s["table"] == before:
                break       # refused instead (allowed): the rest of the Spec's sequence assumed the alias
            before = table_text(e["table"])
            if str(s["rc"]).startswith("crash"):
                why = s["rc"]
            elif (s["rc"] == 0) != (e["rc"] == "zero"):
                why = "exit_status_%s_instead_of_%s" % (s["rc"], e["rc"])
            elif len(s["posts"]) != e["posts"] or any(p != "POST %s/uri?t=mkdir" % L.NODE_URL for p in s["posts"]):
                why = "posts"
            elif s["table"] != table_text(e["table"]):
                why = "table_after"
            elif o["op"] == "list":
                try:
                    got = parse_listing(o, s["stdout"])
                except Exception as ex:
                    got = {"unparsable": repr(ex)}
                want = {L.text(x["name"]): ((L.cap_text(x["cap"]), L.cap_text(x["cap"], True)) if o["mode"] == "json"
                                            else L.cap_text(x["cap"], o["mode"] == "ro")) for x in L.seq(e["listing"])}
                if got != want:
                    why = "listing"
            if why:
                ctx.report("aliasfile:%s:%s:%s" % (shape, o["op"], why),
                           "private/aliases=%r root_dir.cap=%r, operation %d of %s: real rc=%s posts=%s table=%r out=%r err=%r; the Spec requires rc %s, %d POST, table %r"
                           % (body, root, k + 1, [[x["op"], L.text(x["arg"])] for x in ops], s["rc"], s["posts"], s["table"], s["stdout"][:200], s["stderr"][:160],
                              e["rc"], e["posts"], table_text(e["table"])),
                           replay=dict(rep, step=k + 1, real=s, spec=e))
                break       # the files have diverged: later steps of this case say nothing
    return n_ops


# =========================================================================== commands
PATH_OK = re.compile(r"^[A-Za-z0-9%/._~-]*$")
QUERY_OK = re.compile(r"^[A-Za-z0-9%=&._~-]*$")


def parse_req(q):
    method, url, body = q
    if not url.startswith(L.NODE_URL + "/"):
        return {"method": method, "bad": "not below the node URL: %r" % url}
    u = urlsplit(url)
    bad = "" if (PATH_OK.match(u.path) and QUERY_OK.match(u.query)) else "characters that are not valid in a URL"
    try:
        segs = [unquote(x, errors="strict") for x in u.path.split("/")[1:]]
    except UnicodeDecodeError:
        segs, bad = u.path.split("/")[1:], "path is not UTF-8"
    return {"method": method, "segs": segs, "query": sorted(x for x in u.query.split("&") if x), "body": body, "bad": bad}


def expected_req(e):
    root = L.root_text(e["root"])
    body = {"none": "", "file": L.LOCAL_CONTENT.decode(), "cap_rw": L.FILE_RW, "cap_ro": L.FILE_IMM}[e["body"]]
    return {"method": e["method"], "segs": ["uri"] + ([root] if root else []) + [L.text(s) for s in L.seq(e["segs"])],
            "query": sorted(L.seq(e["query"])), "body": body}


def diff_cmd(i, exp, r):
    """'' or the first client-observable difference between the Spec's outcome and the real run."""
    if str(r["rc"]).startswith("crash"):
        return r["rc"]
    if exp["open"]:
        return ""
    real = [parse_req(q) for q in r["reqs"]]
    want = [expected_req(e) for e in L.seq(exp["reqs"])]
    for q in real:
        if q.get("bad"):
            return "url_chars"
    rm, wm = [q for q in real if q["method"] != "GET"], [q for q in want if q["method"] != "GET"]
    rg, wg = [q for q in real if q["method"] == "GET"], [q for q in want if q["method"] == "GET"]
    if len(rm) != len(wm):
        return "requests_%d_instead_of_%d" % (len(rm), len(wm))
    for a, b in zip(rm, wm):
        for f in ("method", "segs", "query", "body"):
            if a[f] != b[f]:
                return {"segs": "url_path"}.get(f, f)
    # reads: none that the Spec does not know; all of them when the command goes on to change or print something
    for a in rg:
        if not any(all(a[f] == b[f] for f in ("segs", "query")) for b in wg):
            return "url_path" if len(rg) == len(wg) == 1 and a["query"] == wg[0]["query"] else "reads"
    if (wm or exp["rc"] == "zero") and len(rg) != len(wg):
        return "reads"
    if (r["rc"] == 0) != (exp["rc"] == "zero"):
        return ("rc_zero_on_http_error" if r["rc"] == 0 else "rc_nonzero_after_success") if (i["sc"] and len(r["reqs"]) >= i["sc"] % 10) \
            else "exit_status_%s_instead_of_%s" % (r["rc"], exp["rc"])
    if exp["out"] == "body" and r["rc"] == 0:
        answer = {"get": L.REMOTE_CONTENT.decode("utf-8", "replace"), "mkdir": L.cap_text("N1"), "put": L.FILE_IMM}[i["cmd"]]
        if answer.strip() not in r["stdout"]:
            return "stdout"
    return ""


def judge_commands(ctx, cases, real):
    opens = {}
    for c, r in zip(cases, real):
        i, exp = c["inv"], c["exp"]
        line = "tahoe %s%s%s %s" % (i["cmd"], " --format=" + i["fmt"] if i["fmt"] else "", " --mutable" if i["mutable"] else "",
                                    " ".join(repr(L.text(x)) for x in ([i["arg"]] if i["given"] else []) + ([i["arg2"]] if i["cmd"] in ("mv", "ln") else [])))
        nontrivial = bool(L.seq(exp["reqs"])) and (L.seq(exp["reqs"])[-1]["segs"] or i["sc"])
        ctx.count("%s|%s|%s|%s" % (line, i["tbl"], i["sc"], i["jk"]) if nontrivial else None)
        why = diff_cmd(i, exp, r)
        if exp["open"]:
            k = "%s %s -> %s" % (i["cmd"], exp["open"], "crash" if str(r["rc"]).startswith("crash") else "%d request(s), rc %s" % (len(r["reqs"]), "0" if r["rc"] == 0 else "not 0"))
            opens[k] = opens.get(k, 0) + 1
        if len(ctx.samples) < 6 and not why and nontrivial and i["cmd"] in ("mv", "put") and i["sc"] == 0 and len(L.text(i["arg"])) > 3 and hash(line) % 7 == 0:
            ctx.sample({"leg": "commands", "line": line, "aliases": i["tbl"], "spec": [expected_req(e) for e in L.seq(exp["reqs"])], "real": r["reqs"], "rc": r["rc"]})
        if why:
            shape = arg_shape(i["arg"])
            if i["cmd"] in ("mv", "ln") and (shape in ("alias", "bare", "cap") or why != "url_path"):
                shape = dest_shape(i["arg2"]) if shape in ("alias", "bare", "cap") else shape
            ctx.report("cmd:%s:%s:%s" % (i["cmd"], why, shape),
                       "%s (aliases %s, answers: %s): real rc=%s requests=%s stdout=%r stderr=%r; the Spec requires rc %s and %s"
                       % (line, i["tbl"], "all 2xx" if not i["sc"] else "request %d answered %d" % (i["sc"] % 10, 404 if i["sc"] > 10 else 500),
                          r["rc"], [q[:2] for q in r["reqs"]], r["stdout"][:80], r["stderr"][:160], exp["rc"],
                          [(e["method"], "/" + "/".join(e["segs"]), e["query"]) for e in map(expected_req, L.seq(exp["reqs"]))]),
                       replay={"kind": "cli-command", "line": line, "inv": i, "spec": exp, "real": r})
    return opens


# =========================================================================== e2e
def world_text(entries):
    w = {}
    for e in L.seq(entries):
        w.setdefault(L.text(e["alias"]), {})["/".join(L.text(x) for x in L.seq(e["path"]))] = e["kind"]
    return w


def judge_e2e(ctx, cases, real):
    opens = {}
    for c, r in zip(cases, real):
        cmds = L.seq(c["cmds"])
        lines = ["tahoe %s %s" % (i["cmd"], " ".join(repr(L.text(x)) for x in ([i["arg"]] if i["given"] else []) + ([i["arg2"]] if i["cmd"] in ("mv", "ln") else []))) for i in cmds]
        ctx.count(" ; ".join(lines) if any(i["cmd"] not in ("ls", "get") for i in cmds) else None)
        if any(x != 0 for x in r["setup"]):
            raise RuntimeError("e2e: the starting world could not be built: %s" % r["setup"])
        for k, (i, e, s) in enumerate(zip(cmds, L.seq(c["steps"]), r["steps"])):
            want = {a: {} for a in r["aliases"]}
            want.update(world_text(e["W"]))
            why = ""
            if str(s["rc"]).startswith("crash"):
                why = s["rc"]
            elif e["open"]:
                opens[e["open"]] = opens.get(e["open"], 0) + 1
                if s["world"] != want:
                    break      # not judged, but the worlds differ from here on
                continue
            elif s["world"] != want:
                why = "world"
            elif (s["rc"] == 0) != (e["rc"] == "zero"):
                why = "rc_zero_on_http_error" if s["rc"] == 0 else "exit_status_%s_instead_of_zero" % s["rc"]
            if len(ctx.samples) < 8 and not why and i["cmd"] == "mv" and e["rc"] == "zero":
                ctx.sample({"leg": "e2e", "script": lines, "step": k + 1, "http": s["http"], "world_after": s["world"]})
            if why:
                shape = arg_shape(i["arg"])
                if i["cmd"] in ("mv", "ln"):
                    shape = dest_shape(i["arg2"])
                ctx.report("e2e:%s:%s:%s" % (i["cmd"], why, shape),
                           "real gateway, from tahoe:{é, a/, a/é} a:{URI/}: %s, command %d: rc=%s http=%s stderr=%r world=%r; the Spec requires rc %s and world %r"
                           % (" ; ".join(lines), k + 1, s["rc"], s["http"], s["stderr"][:200], s["world"], e["rc"], want),
                           replay={"kind": "cli-e2e", "script": lines, "step": k + 1, "real": s, "spec": e})
                break
    return opens


# =========================================================================== run
def gen_all(ctx, jobs):
    """The GEN runs are independent: TLC runs side by side (vfw.core.run_tlc in threads), the accounting is done here in order.
    jobs: [(module, cfg text, out file name, env)] -> [cases]"""
    from concurrent.futures import ThreadPoolExecutor
    from vfw import core

    def one(j):
        module, ctext, outname, env = j
        e = {"OUT_FILE": os.path.join(ctx.workdir, outname)}
        e.update(env)
        return core.run_tlc(module, ctext, ctx.workdir, mode="mc", env=e, timeout=3000, coverage=False,
                            workers=max(1, int(os.environ.get("VERIF_TLC_WORKERS", "8")) // 2))

    with ThreadPoolExecutor(len(jobs)) as ex:
        results = list(ex.map(one, jobs))
    out = []
    for (module, ctext, outname, env), r in zip(jobs, results):
        ctx._account(r, "GEN %s" % module)
        path = os.path.join(ctx.workdir, outname)
        if r.errors or r.violated or r.timed_out or not os.path.exists(path):
            raise core.MachineryError("TLC GEN failed on %s: %s %s\n%s" % (module, r.errors[:3], r.violated, r.out[-3000:]))
        with open(path) as f:
            out.append([json.loads(l) for l in f if l.strip()])
    return out


def run(ctx):
    q = ctx.quick
    legs = os.environ.get("X_CLI_LEGS", "resolve,aliasfile,commands,e2e").split(",")
    tables_file = os.path.join(ctx.workdir, "tables.json")
    consts = {
        "GenCliResolve": {"MaxLen": 3 if q else 4},
        "GenCliAliasFile": {"MaxLines": 2 if q else 3, "OpLines": 1 if q else 2, "MaxOps": 2, "Small": "TRUE" if q else "FALSE"},
        "GenCliCommands": {"ArgLen": 3, "ShortLen": 2, "DestLen": 2, "ShortDest": 1} if q else {"ArgLen": 4, "ShortLen": 3, "DestLen": 3, "ShortDest": 2},
        "GenCliE2E": {"PairFirst": '{"mv"}' if q else '{"mkdir", "put", "unlink", "mv", "ln"}'},
    }
    ctx.constants.update(consts)
    jobs = [("frontends/GenCliResolve", cfg(consts["GenCliResolve"], GA), "resolve.ndjson", {"TABLES_FILE": tables_file})]
    if "aliasfile" in legs:
        jobs.append(("frontends/GenCliAliasFile", cfg(consts["GenCliAliasFile"], AF), "aliasfile.ndjson", {}))
    if "commands" in legs:
        jobs.append(("frontends/GenCliCommands", cfg(consts["GenCliCommands"], CC), "commands.ndjson", {}))
    if "e2e" in legs:
        jobs.append(("frontends/GenCliE2E", cfg(consts["GenCliE2E"], ["EE_Tree", "EE_FailureKeeps", "EE_ReadsPure", "EE_Counts"]), "e2e.ndjson", {}))
    # development aid (trying many mutants): X_CLI_REUSE_CASES=<dir> keeps the GEN output of the first run there and reads it
    # back in later runs instead of running TLC again (the Spec has not changed between them)
    cache = os.environ.get("X_CLI_REUSE_CASES")
    cfile = os.path.join(cache, "cases_%s_%s.json" % (ctx.tier, "+".join(sorted(legs)))) if cache else None
    if cfile and os.path.exists(cfile):
        with open(cfile) as f:
            gens, tables = json.load(f)
        ctx.notes.append("GEN output reused from %s (no TLC run)" % cfile)
    else:
        gens = dict(zip([j[0].split("/")[1] for j in jobs], gen_all(ctx, jobs)))
        with open(tables_file) as f:
            tables = json.load(f)
        if cfile:
            with open(cfile, "w") as f:
                json.dump([gens, tables], f)
    inp = {}
    rcases = gens["GenCliResolve"]
    if "resolve" in legs:
        inp["resolve"] = {"tables": tables, "cases": rcases}
    if "aliasfile" in legs:
        acases = gens["GenCliAliasFile"]
        inp["aliasfile"] = {"cases": acases}
    if "commands" in legs:
        ccases = gens["GenCliCommands"]
        inp["commands"] = {"tables": {k: tables[k] for k in ("T0", "T2")}, "cases": ccases}
    if "e2e" in legs:
        import random
        ecases = gens["GenCliE2E"]
        ecases.sort(key=lambda c: json.dumps(c["cmds"], sort_keys=True))
        singles = [c for c in ecases if len(L.seq(c["cmds"])) == 1]
        pairs = [c for c in ecases if len(L.seq(c["cmds"])) == 2]
        ecases = singles + random.Random(ctx.seed).sample(pairs, 10 if q else 400)
        inp["e2e"] = {"cases": ecases, "seed": ctx.seed}
    ctx.exhaustive = True
    ctx.rule = ("GEN, four tables written by TLC with the result the documents require, every row replayed into the real code.  resolve: every "
                "argument of <= MaxLen tokens over {a, U+00E9, tahoe, URI, ':', '/', ' ', '.'} (and <= MaxLen - 1 behind a whole directory cap, "
                "MaxLen + 1 over {a : / .} alone and behind a cap) x 10 combinations of alias table {empty, tahoe only, tahoe + a + a\u00e9(read-only "
                "cap)} x default alias {tahoe, none} x {Unix, Windows}; non-trivial = anything but a plain path below the default alias.  "
                "aliasfile: every private/aliases of <= MaxLines lines over 9 line shapes x final newline x root_dir.cap {absent, empty, cap}, and "
                "from the files of <= OpLines lines every sequence of <= MaxOps add-alias / create-alias / list-aliases operations (quick: later "
                "operations from a set of 8).  commands: ls / get / unlink / mkdir / put x every argument of <= ArgLen tokens (+ 12 longer shapes; "
                "the shorter ones also with the empty table and with the request answered 500 / 404), mkdir / put flags, mv / ln x 10 sources x "
                "every destination of <= DestLen tokens (+ 8 longer; shorter ones with the k-th request failing, read-only sources, empty "
                "table); non-trivial = a request below a root or a failing answer.  e2e: from the world tahoe:{\u00e9, a/, a/\u00e9} a:{URI/} every "
                "command of a universe of ~70 documented / boundary command lines and a seeded sample of pairs, against a real gateway.  "
                "Inputs the documents do not decide (empty path components, Windows one-character non-letters, mkdir / put onto a root, "
                "moving a root) are replayed and judged for `no crash` only.")
    ctx.assumptions += [
        "TLC and the CommunityModules (Json, IOUtils, SequencesExt)",
        "the token table of harness/cli_alias_lib.py (a -> 'a', e -> U+00E9, t -> 'tahoe', U -> 'URI', K -> one fixed directory write-cap, M -> one "
        "fixed mutable-file write-cap) and its fixed cap texts for the cap ids of the Spec",
        "commands are run in process: the real usage.Options class of scripts/cli.py with parent = {quiet, node-directory}, then cli.dispatch "
        "(scripts/runner.py cannot be imported here); Windows = common.pretend_platform_uses_lettercolon (the module's own test hook)",
        "commands leg: allmydata.scripts.common_http.do_http (and the name each tahoe_*.py imported) replaced by a recorder; the answers are "
        "canned (200 / 500 / 404, a filenode JSON for ?t=json).  reads (GET) are compared as a set, changing requests as a sequence",
        "e2e leg: do_http forwards into harness/webgrid.py (real Root / WebishServer / _Client / 2 storage servers, k=1 n=2); the web API "
        "semantics of GenCliE2E.tla cover only what the universe needs (files are immutable, no read-only directories)",
        "exit statuses are judged as zero / not zero; messages are not judged",
    ]

    out = ctx.impl("harness/cli_alias_driver.py", ["--jobs", 4], inp, timeout=3000)
    ctx.notes.append("driver seconds per task: %s" % out["timing"])
    if "resolve" in legs:
        n, opens = judge_resolve(ctx, rcases, out["resolve"])
        ctx.notes.append("resolve: %d arguments x 10 (table, default, platform) = %d get_alias calls; not judged (documents undecided): %s"
                         % (len(rcases), n, ", ".join("%s x%d" % kv for kv in sorted(opens.items())) or "none"))
    if "aliasfile" in legs:
        n = judge_aliasfile(ctx, acases, out["aliasfile"])
        ctx.notes.append("aliasfile: %d files parsed, %d of them with operation sequences (%d operations)" % (len(acases), sum(1 for c in acases if L.seq(c["ops"])), n))
    if "e2e" in legs:
        opens = judge_e2e(ctx, ecases, out["e2e"])
        ctx.notes.append("e2e: %d scripts against a real gateway (every single command of the universe, a seeded sample of the pairs); not judged: %s"
                         % (len(ecases), ", ".join("%s x%d" % kv for kv in sorted(opens.items())) or "none"))
    if "commands" in legs:
        opens = judge_commands(ctx, ccases, out["commands"])
        ctx.notes.append("commands: %d invocations; not judged beyond `no crash` (documents undecided): %s"
                         % (len(ccases), ", ".join("%s x%d" % kv for kv in sorted(opens.items())) or "none"))
