"""Extra `storage_more`: the storage server beyond buckets, slots and leases.

Spec:   spec/storage/StorageMore.tla (EXTENDS Storage): corruption advisories, version message
        spec/storage/CrawlerMore.tla (EXTENDS Crawler): bucket counter, lease checker book-keeping (state, history)
MC:     MCStorageMore (EXTENDS MCStorage), MCCrawlerMore - invariants / action properties ADV_*, VER_*, BC_*, LC_*
TRACE:  harness/storage_more_driver.py records seeded histories of a real StorageServer (FoolscapStorageServer,
        BucketReader, bucket_counter, lease_checker); TraceStorageMore / TraceCrawlMore replay them.

Clauses listed in known_findings.d/X-storage_more.json (status known) are handed to the trace Spec as soft clauses: every
occurrence is printed by TLC, reported as KNOWN-FINDING, and the rest of the history is still judged."""
import json

KNOWN_CLAUSES = ("VER_avail_ignores_uploads", "BC_restarted_cycle_count_lost",
                 "LC_midcycle_restart_breaks", "LC_vanished_bucket_stops")

MC_PROPS_STORAGE = dict(
    inv=["Inv_StateOK_More", "VER_ReadOnlyZero", "VER_AdvertisedIsAllocatable", "VER_NoOverAdvertise", "VER_RangeOK"],
    prop=["CFG_RestartKeepsShares", "ADV_OnlyHeldShares", "ADV_RecordedWhenItFits", "ADV_NeverBeyondSpace", "ADV_NoShareChange", "ADV_Monotone",
          "ADV_AnswerIsNone", "VER_ReadOnlyCall"])
MC_PROPS_CRAWL = dict(
    inv=["TypeOK", "BC_CountPersistent", "LC_HistoryIsLastCycles", "LC_HistoryAtMost"],
    prop=["BC_EveryCycleCounts", "BC_RestartKeepsCount", "BC_CountOnlyAtCycleEnd", "LC_ExaminedBounds", "LC_OtherEntriesKept",
          "LC_RestartKeepsProgress"])


def cfg(spec, consts, props):
    txt = "SPECIFICATION %s\nCONSTANTS\n" % spec
    for k, v in consts.items():
        txt += "  %s = %s\n" % (k, v)
    for i in props["inv"]:
        txt += "INVARIANT %s\n" % i
    for p in props["prop"]:
        txt += "PROPERTY %s\n" % p
    return txt + "CHECK_DEADLOCK FALSE\n"


def storage_consts(profile, quick, readonly=False):
    c = dict(SIsI='{"i0"}', SIsM='{"m0"}', Bytes="{1}" if quick else "{0, 1}", RSecrets='{"r0"}', Conns='{"k0"}',
             Enablers='{"wA"}', Sizes="{2}", RepLens="{1, 3}", Reasons='{"x"}', ReadOnlys="{FALSE, TRUE}" if profile == "imm" else "{FALSE}",
             AllOps="FALSE" if quick else "TRUE", Profile='"%s"' % profile)
    if profile == "imm":
        c.update(Shares='{"0", "1"}', FreeValues="{3, 5}", MaxWriters=2, MaxOps=4 if quick else 5)
    else:
        c.update(Shares='{"0"}' if quick else '{"0", "1"}', FreeValues="{5}", MaxWriters=0, MaxOps=3 if quick else 3)
    return c


def validate(ctx, module, spec, traces, consts, what):
    """Trace validation.  Clauses that are listed known findings are soft: the Spec prints a note per occurrence
    (turned into a reported known finding here) and goes on with the code's value."""
    cfgtxt = "SPECIFICATION %s\nINVARIANT TraceOK\nCHECK_DEADLOCK FALSE\n" % spec
    if consts:
        cfgtxt += "CONSTANTS\n" + "".join("  %s = %s\n" % kv for kv in consts.items())
    soft = [c for c in KNOWN_CLAUSES
            if any(k.get("status") == "known" and k["key"] == "trace:" + c for k in ctx.known)]
    for tr in traces:
        tr["consts"]["soft"] = soft

    def key_of(tr, l, clause):
        return "trace:%s:%s" % (clause, tr["events"][l - 1]["ev"])

    def what_of(tr, l, clause):
        return "real StorageServer disagrees with %s at event %d (%s): clause %s" % (what, l, tr["events"][l - 1]["ev"], clause)

    ctx.trace(module, traces, cfg=cfgtxt, key_of=key_of, what_of=what_of, batch=400)
    seen = {}
    for k in list(ctx.note_counts):
        if k.startswith("K:"):
            _, clause, ev, tid, l = k.split(":")
            seen.setdefault((clause, ev), set()).add((tid, l))
            del ctx.note_counts[k]
    for (clause, ev), occ in sorted(seen.items()):
        for _ in occ:
            ctx.report(key="trace:%s:%s" % (clause, ev), what="%s: clause %s at a %s event" % (what, clause, ev))


def run(ctx):
    ctx.rule = ("MC: exhaustive interleavings of advise_corrupt_share / BucketReader.advise_corrupt_share / get_version with the "
                "entry points of MCStorage (small constants), and of the bucket counter / lease checker machine with slice "
                "ends, kills, stops, restarts and bucket directories coming and going. TRACE: seeded histories on a real "
                "StorageServer: (adv) the operations of the storage family mixed with advisories for held, incoming and "
                "unknown shares with report sizes around the available space, and get_version calls; (crawl) both crawlers "
                "of a started StorageServer driven slice by slice on the virtual reactor with forced slice ends, kills inside "
                "a slice, stopService, restarts on the same directory, real uploads and removed bucket directories. "
                "Non-trivial: (adv) at least one recorded and one refused advisory or a get_version during an upload; "
                "(crawl) at least one restart in the middle of a cycle or more than 10 finished lease-checker cycles.")
    ctx.assumptions += ["TLC and the CommunityModules", "the RangeMap shim in /verif/shims",
                        "adv: the size of a report text is measured on a twin server (same code, plenty of space, same share)",
                        "adv: the disk simulator behind fileutil.get_available_space counts share data bytes and report files",
                        "crawl: NP=3 of the 1024 prefix directories stand for the Spec's prefixes, the others stay empty; slice "
                        "ends are forced from the documented hooks by moving the interposed allmydata.storage.crawler.time; "
                        "minimum_cycle_time of both crawlers is lowered (documented as changeable at any time)",
                        "crawl: bucket directories change only while the crawlers sleep"]
    q = ctx.quick
    # ---------------- model checking ----------------
    for prof in ("imm", "mut"):
        c = storage_consts(prof, q)
        ctx.constants["MC_storage_%s" % prof] = c
        ctx.mc("storage/MCStorageMore", cfg("SpecM", c, MC_PROPS_STORAGE), name="MC storage-more %s" % prof, timeout=3000)
    c = dict(NP=3, MaxHist=1 if q else 2, KindSet='{"bc", "lc"}', Universe="{11, 12, 21}" if q else "{11, 12, 21, 31}",
             MaxBuckets=3 if q else 4, MaxCycles=2 if q else 3, MaxKills=1 if q else 2, MaxChanges=1 if q else 2)
    ctx.constants["MC_crawl"] = c
    ctx.mc("storage/MCCrawlerMore", cfg("Spec", c, MC_PROPS_CRAWL), name="MC crawler-more (bucket counter, lease checker)", timeout=3000)
    ctx.exhaustive = True

    # ---------------- conformance: advisories and version ----------------
    n = 100 if q else 1500
    traces = ctx.impl("harness/storage_more_driver.py", ["--profile", "adv", "--n", n, "--events", 30 if q else 45])
    for tr in traces:
        evs = tr["events"]
        rec = any(e["ev"] == "Advise" and e["written"] for e in evs)
        ref = any(e["ev"] == "Advise" and not e["written"] for e in evs)
        busy = any(e["ev"] == "Version" and e["inprog"] > 0 for e in evs)
        ctx.count(json.dumps(evs, sort_keys=True) if (rec and ref) or busy else None)
    ctx.sample({"profile": "adv", "consts": traces[0]["consts"],
                "events": [{k: v for k, v in e.items() if k not in ("obs", "obsall")} for e in traces[0]["events"][:8]]}, limit=4)
    validate(ctx, "storage/TraceStorageMore", "MTraceSpec", traces, None, "Storage.tla + StorageMore.tla")
    kinds = {}
    for tr in traces:
        for e in tr["events"]:
            if e["ev"] == "Advise":
                k = "Advise:%s:%s" % (e["via"], "recorded" if e["written"] else "not-recorded")
                kinds[k] = kinds.get(k, 0) + 1
            elif e["ev"] == "Version":
                k = "Version:%s" % ("upload-in-progress" if e["inprog"] else "idle")
                kinds[k] = kinds.get(k, 0) + 1
    ctx.notes.append("adv events: %s" % json.dumps(kinds, sort_keys=True))

    # ---------------- conformance: crawlers ----------------
    n = 60 if q else 1200
    traces = ctx.impl("harness/storage_more_driver.py", ["--profile", "crawl", "--n", n, "--events", 30 if q else 40])
    kinds = {}
    for tr in traces:
        evs = tr["events"]
        midrestart = any(e["ev"] == "Restart" and any(o.get("cur", -1) >= 0 or "crash" in o for o in e["obs"].values()) for e in evs)
        longhist = any(e["ev"] == "Slice" and e["who"] == "lc" and e.get("obs", {}).get("lcf", -1) >= 10 for e in evs)
        ctx.count(json.dumps(evs, sort_keys=True) if midrestart or longhist else None)
        for e in evs:
            k = e["ev"] + (":%s:%s" % (e["who"], e["end"]) if e["ev"] == "Slice" else "")
            kinds[k] = kinds.get(k, 0) + 1
        if longhist:
            kinds["trace with > 10 lease-checker cycles"] = kinds.get("trace with > 10 lease-checker cycles", 0) + 1
    ctx.sample({"profile": "crawl", "consts": traces[0]["consts"], "events": traces[0]["events"][:6]}, limit=4)
    validate(ctx, "storage/TraceCrawlMore", "TraceSpec", traces, {"NP": 3, "MaxHist": 10}, "Crawler.tla + CrawlerMore.tla")
    ctx.notes.append("crawl events: %s" % json.dumps(kinds, sort_keys=True))
