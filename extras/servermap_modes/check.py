"""Extra `servermap_modes`: the mutable-file servermap update in all five modes
(MODE_CHECK, MODE_ANYTHING, MODE_WRITE, MODE_READ, MODE_REPAIR) and the reports of ServerMap.

Spec     spec/mutable/ServermapModes.tla (extends MutableFile.tla), MCServermapModes.tla, TraceServermapModes.tla
Driver   harness/servermap_driver.py (real ServermapUpdater / ServerMap on a SimGrid, observed at the wire)
Verdicts come from TLC only: invariants / action properties of the model, clause verdicts of the trace validator.
"""
import json

INVARIANTS = ["TypeOK", "X_PostCheck", "X_PostRepair", "X_PostAnything", "X_PostRead", "X_PostWrite", "X_MustQuery",
              "X_Reflects", "X_BadSticky", "X_SurveySeesAll", "X_FindsRecoverable", "X_Priv", "X_NoHang"]
PROPERTIES = ["X_Thrift", "X_Initial"]
ALL_MODES = '{"CHECK", "ANYTHING", "WRITE", "READ", "REPAIR"}'


def mc_cfg(**kw):
    base = dict(K=2, N=3, NumServers=5, NV=2, CellNames='{"1i", "2i"}', MaxShares=2, MaxPerServer=1, MaxFail=0,
                ModeSet=ALL_MODES, MaxInFlight=2, Order='"fifo"', Prior='"none"', PrivChoices="{FALSE}")
    base.update(kw)
    t = "SPECIFICATION Spec\nCONSTANTS\n" + "".join("  %s = %s\n" % kv for kv in base.items())
    t += "".join("INVARIANT %s\n" % i for i in INVARIANTS) + "".join("PROPERTY %s\n" % p for p in PROPERTIES)
    t += "CHECK_DEADLOCK FALSE\n"
    return t, base


def mc_runs(quick):
    if quick:
        return [
            ("all modes, 6 servers, <= 2 shares", dict(NumServers=6)),
            ("failing servers, private key; 1-of-2", dict(K=1, N=2, NumServers=4, CellNames='{"1i", "2p", "1k"}', MaxFail=1,
                                                         ModeSet='{"WRITE", "REPAIR", "READ"}', PrivChoices="{FALSE, TRUE}")),
            ("update of an older map (stale entry, bad mark); 1-of-2", dict(K=1, N=2, NumServers=4, NV=1, CellNames='{"1i"}',
                                                                             ModeSet='{"WRITE", "READ"}', Prior='"map"')),
        ]
    return [
        ("READ / ANYTHING / CHECK, 5 servers, <= 3 shares, one failing server",
         dict(CellNames='{"1i", "2i", "2p"}', MaxShares=3, MaxFail=1, ModeSet='{"READ", "ANYTHING", "CHECK"}')),
        ("all modes, 6 servers, <= 3 shares, competitor version",
         dict(NumServers=6, NV=3, CellNames='{"1i", "2i", "3i"}', MaxShares=3)),
        ("WRITE 1-of-2, 6 servers, private key, one failing server",
         dict(K=1, N=2, NumServers=6, CellNames='{"1i", "2i", "2p", "1k"}', MaxShares=3, MaxFail=1, ModeSet='{"WRITE"}',
              PrivChoices="{FALSE, TRUE}")),
        ("WRITE / REPAIR / READ 1-of-2, any answer order",
         dict(K=1, N=2, NumServers=5, CellNames='{"1i", "2p", "1k"}', MaxFail=1, ModeSet='{"WRITE", "REPAIR", "READ"}',
              Order='"any"', PrivChoices="{FALSE, TRUE}")),
        ("two shares per server, forged version, soft damage",
         dict(NumServers=5, NV=4, CellNames='{"1i", "2i", "4i", "2s"}', MaxShares=3, MaxPerServer=2,
              ModeSet='{"READ", "WRITE", "CHECK"}')),
        ("update of an older map (stale entry, bad mark), 4 servers, one failing server",
         dict(NumServers=4, CellNames='{"1i", "2i", "2p"}', MaxFail=1, ModeSet='{"READ", "WRITE", "ANYTHING", "CHECK"}',
              Prior='"map"')),
    ]


def layout_of(tr):
    for e in tr["events"]:
        if e["ev"] == "Layout":
            return e["L"]
    return {}


def run(ctx):
    quick = ctx.quick
    ctx.rule = ("MC: exhaustive exploration of MCServermapModes (every layout of at most MaxShares shares over the permuted "
                "server list x mode x failing servers x older map / bad mark x answer order) against the per-mode "
                "postconditions.  TRACE: seeded layouts on real storage servers (gaps, late shares, duplicates, competitor "
                "versions, shares without valid signature, damaged private keys, failing servers), real ServermapUpdater in "
                "all five modes on fresh and on re-used servermaps; one execution = one update(); every query, every "
                "processed answer and the final ServerMap reports are events judged by TLC.  Non-trivial: the layout is not "
                "the plain placement of one version on the first N servers, or a server fails, or the map is re-used.")
    ctx.assumptions += [
        "TLC and the CommunityModules",
        "signatures / hashes are symbolic: a stored share is [version, tamper class] (vocabulary of MutableFile.tla)",
        "queries are observed as slot_readv calls parked on the SimGrid; an answer counts as processed when the call and "
        "the follow-up reads it triggered have been delivered and the reactor has settled",
        "the servermap is observed through its public methods only",
        "MAX_IN_FLIGHT is a constant of the model (2 in the model, 5 in the code); the trace clauses do not depend on it",
        "failing servers fail every read (RemoteException or DeadReferenceError); lost (never answered) queries are not generated",
    ]
    for name, kw in mc_runs(quick):
        cfg, consts = mc_cfg(**kw)
        ctx.constants["MC " + name] = consts
        ctx.mc("mutable/MCServermapModes", cfg, name="MC servermap modes: " + name, timeout=3000)

    n = 12 if quick else 120
    traces = ctx.impl("harness/servermap_driver.py", ["--n", n], timeout=6000)
    nupd = 0
    modes = {}
    for tr in traces:
        L = layout_of(tr)
        cells = [(s, sh, x) for s, d in L.items() for sh, x in d.items()]
        order = tr["consts"]["servers"]
        plain = (len(cells) == tr["consts"]["N"] and all(x["cls"] == "intact" for (_, _, x) in cells)
                 and len({x["v"] for (_, _, x) in cells}) == 1
                 and sorted(s for (s, _, _) in cells) == sorted(order[:tr["consts"]["N"]]))
        for e in tr["events"]:
            if e["ev"] == "Start":
                nupd += 1
                modes[e["mode"]] = modes.get(e["mode"], 0) + 1
        fails = any(e["ev"] == "Ans" and e["kind"] != "ok" for e in tr["events"])
        again = tr["consts"]["part"].startswith("again")
        ups = [e for e in tr["events"] if e["ev"] == "Start"]
        key = None
        if not plain or fails or again:
            key = json.dumps(L, sort_keys=True) + tr["consts"]["fmt"] + tr["consts"]["part"] + \
                json.dumps([(e["mode"], e["fresh"]) for e in ups])
        ctx.count(key, n=max(1, len(ups)))
    ctx.notes.append("%d traces, %d real servermap updates (%s), %d queries, %d processed answers (%d failed)" % (
        len(traces), nupd, json.dumps(modes, sort_keys=True),
        sum(1 for tr in traces for e in tr["events"] if e["ev"] == "Send"),
        sum(1 for tr in traces for e in tr["events"] if e["ev"] == "Ans"),
        sum(1 for tr in traces for e in tr["events"] if e["ev"] == "Ans" and e["kind"] != "ok")))
    for tr in traces[:2]:
        ctx.sample({"consts": tr["consts"], "events": [{k: v for k, v in e.items() if k not in ("how", "persrv", "onsrv")}
                                                       for e in tr["events"][:8]]}, limit=2)

    def key_of(tr, l, clause):
        return "trace:%s:%s" % (clause, tr["events"][l - 1]["ev"])

    def what_of(tr, l, clause):
        e = tr["events"][l - 1]
        upd = [x for x in tr["events"][:l] if x["ev"] == "Start"]
        return ("real code disagrees with ServermapModes.tla at event %d (%s) of a %s trace (%s, %d-of-%d, %d servers, mode %s): "
                "clause %s; observed %s" % (l, e["ev"], tr["consts"]["fmt"], tr["consts"]["part"], tr["consts"]["K"],
                                            tr["consts"]["N"], len(tr["consts"]["servers"]),
                                            upd[-1]["mode"] if upd else "-", clause,
                                            json.dumps({k: v for k, v in e.items() if k not in ("how", "persrv", "onsrv")})[:300]))
    groups = {}
    for tr in traces:
        groups.setdefault((tr["consts"]["K"], tr["consts"]["N"]), []).append(tr)
    for (kk, nn), grp in sorted(groups.items()):
        cfg = ("SPECIFICATION TraceSpec\nCONSTANTS\n  K = %d\n  N = %d\nINVARIANT TraceOK\nCHECK_DEADLOCK FALSE\n" % (kk, nn))
        ctx.trace("mutable/TraceServermapModes", grp, cfg=cfg, key_of=key_of, what_of=what_of, batch=400, workers=4,
                  name="TRACE mutable/TraceServermapModes (K=%d, N=%d)" % (kk, nn))
