"""X-dirnode_ops  Directory operations beyond C20/C21: create_subdirectory, add_file, set_children, the read calls and
path resolution, immutable directories, deep-check aggregation and the access blacklist.

Spec (spec/dir):
  DirnodeMore.tla       EXTENDS Dirnode.  World W = [D, imm]; operators Mkdir / AddFile / SetChildren / HasChild / Get /
                        GetMd / List / Path (+ the C20 operators through ApplyMore) answering [st, W, out, upl, has, emd,
                        missing, listing]; the XM clauses state the behaviour over (before, after, call, answer) without them.
  MCDirnodeMore.tla     every call sequence of bounded length, XM clauses as action properties, every read call of a small
                        universe judged in every state.
  TraceDirnodeMore.tla  judges recorded calls on real directories.
  DeepCheck.tla         EXTENDS DeepTraverse.  Blacklist file / gateway memory (BlWrite, BlRemove, BlRefresh), NodeOf, ReadSt,
                        ListB, ResolveB, TDirB (deep traversal with prohibited objects), DeepCheckOf (counters, per-path
                        results, stats); the DC clauses state it over a reported walk / report without them.
  MCDeepCheck.tla       the DC clauses for every graph of MCDeepTraverse x every blacklist x a family of share counts.
  MCBlacklist.tla       every history of rewriting / removing the file with chosen mtimes and of accesses.
  TraceDeepCheck.tla    judges a real gateway (real _Client + Blacklist + NodeMaker) on real graphs.
Conformance: harness/dirops_driver.py (modes ops, graph), time pinned, mtimes pinned, share files deleted by the harness.
"""
import json, os, random, re, sys

from vfw import core

XM_PROPS = ["XM_DirsKept_", "XM_Frozen_", "XM_ReadOnly_", "XM_FailedNoChange_", "XM_Frame_", "XM_Mkdir_", "XM_ImmDeep_",
            "XM_ImmIdentity_", "XM_NoWriteEverywhere_", "XM_AddFile_", "XM_Batch_", "XM_C20_"]
DC_INVS = ["DC_Walk_", "DC_OpaqueFile_", "DC_NoBlacklistIsC21_", "DC_Report_", "DC_SameSetAsC21_", "DC_Reads_", "DC_Paths_"]
BL_INVS = ["BL_Fresh", "BL_Removed", "BL_OnlyListed", "BL_StaleOnlyByMtime", "BL_Idempotent"]


def cfg_of(consts, props=(), invs=(), view=None):
    t = "SPECIFICATION Spec\n" + ("VIEW %s\n" % view if view else "") + "CONSTANTS\n"
    t += "".join("  %s = %s\n" % kv for kv in consts.items())
    t += "".join("PROPERTY %s\n" % p for p in props) + "".join("INVARIANT %s\n" % i for i in invs)
    return t + "CHECK_DEADLOCK FALSE\n"


def parse_dump(path):
    """graphs (one per state) of an MCDeepTraverse-shaped module dumped with -dump"""
    graphs = []
    with open(path) as f:
        txt = f.read()
    for block in re.split(r"^State \d+:\s*$", txt, flags=re.M)[1:]:
        m = re.search(r"^/\\ G = (.*?)(?=^/\\ |\Z)", block, flags=re.M | re.S)
        g = core.parse_tla_value(" ".join(m.group(1).split()))
        kids = {}
        for o, v in g["kids"].items():
            if isinstance(v, list):
                kids[o] = [{"name": i + 1, "to": x["to"], "lvl": x["lvl"]} for i, x in enumerate(v)]
            else:
                kids[o] = [{"name": int(k), "to": x["to"], "lvl": x["lvl"]} for k, x in sorted(v.items(), key=lambda kv: int(kv[0]))]
        graphs.append({"type": g["type"], "kids": kids, "root": "o1", "src": "tlc"})
    return graphs


def slim(e, drop=("obs", "listing")):
    return {k: v for k, v in e.items() if k not in drop}


def run(ctx):
    q = ctx.quick
    ctx.rule = ("MC: (1) all sequences of MaxOps calls of MCDirnodeMore's universe (create_subdirectory x 6 lists of initial children x "
                "overwrite modes x mutable/immutable, add_file, set_children batches, delete, set_node, read-only handles) from 2 initial "
                "worlds, every read call / path of <= 3 names judged in every state; (2) every graph of MCDeepTraverse x every set of "
                "prohibited objects x 9 share-count maps; (3) every history of <= MaxSteps rewrites / removals / accesses of the blacklist "
                "file with mtimes 1..MaxT.  TRACE ops: seeded histories of 15-30 calls on real directories (2-3 initial + created "
                "mutable and immutable ones), names and paths aimed at present / absent entries using the last listing; non-trivial = "
                "the history has an immutable directory created twice with equal contents or a refused immutable creation, a refused "
                "batch, and a path of >= 2 names that resolves.  TRACE graph: a seeded sample of the MC graphs plus seeded graphs of "
                "4-14 objects built from real directories, CHK files and mutable files (k=1, n=2, 2 servers), a seeded script of blacklist "
                "rewrites (mtime advancing, equal or going back) / removals / share deletions / accesses / reads / listings / paths / "
                "manifests / deep-checks through a real _Client; non-trivial = a deep-check ran while an object was prohibited and "
                "another one had lost shares.  PROBES: one short trace per input class on which the code is known to deviate from the "
                "documented behaviour (the generators stay away from these classes).")
    ctx.assumptions += ["TLC and the CommunityModules", "the drivers' fixed tables between Spec vocabulary and caps / Unicode names / metadata "
                        "dictionaries / graph objects (harness/dir_driver.py, harness/dirops_driver.py)",
                        "allmydata.dirnode.time rebound to a pinned clock; the blacklist file's mtime set with os.utime",
                        "single writer; health of an object = number of share files the harness left on the 2 servers (k=1, n=2): "
                        "2 healthy, 1 unhealthy but recoverable, 0 unrecoverable; directories are never made unrecoverable",
                        "an uploaded file is identified by reading it back (its bytes are one of the three fixed contents)",
                        "TLC coverage statistics are switched off for MCDirnodeMore / MCDeepCheck (the cost model of the deeply nested "
                        "clause definitions takes minutes to build)"]

    # ------------------------------------------------------------------ model checking
    c1 = {"RawNames": '{"a", "e1", "e2"}', "MaxOps": 2 if q else 3, "NFresh": 2, "WithRO": "TRUE", "Small": "TRUE"}
    ctx.constants["MC_DirnodeMore"] = c1
    ctx.mc("dir/MCDirnodeMore", cfg_of(c1, XM_PROPS, ["XM_ReadsEverywhere"], view="View_"), name="MC DirnodeMore", timeout=6000, coverage=False)
    if not q:
        c1b = dict(c1, MaxOps=2, Small="FALSE")
        ctx.constants["MC_DirnodeMore_full_universe"] = c1b
        ctx.mc("dir/MCDirnodeMore", cfg_of(c1b, XM_PROPS, ["XM_ReadsEverywhere"], view="View_"), name="MC DirnodeMore (full call universe, depth 2)",
               timeout=6000, coverage=False)
    c2 = {"Types": '{"dir", "file", "lit", "unk", "mfile"}', "MaxObjs": 3 if q else 4, "MaxLinks": 3 if q else 4, "MaxNames": 2}
    ctx.constants["MC_DeepCheck"] = c2
    dump = os.path.join(ctx.workdir, "graphs")
    r = ctx.mc("dir/MCDeepCheck", cfg_of(c2, invs=DC_INVS), name="MC DeepCheck (graphs x blacklists x share counts)", timeout=6000,
               coverage=False, extra=["-dump", dump])
    graphs = []
    if os.path.exists(dump + ".dump"):
        graphs = parse_dump(dump + ".dump")
        if len(graphs) != r.states:
            raise core.MachineryError("dump has %d graphs, TLC found %d states" % (len(graphs), r.states))
    c3 = {"Objs_": '{"o2", "o3"}', "MaxT": 3, "MaxSteps": 5 if q else 7}
    ctx.constants["MC_Blacklist"] = c3
    ctx.mc("dir/MCBlacklist", cfg_of(c3, invs=BL_INVS), name="MC Blacklist (file vs gateway memory)", timeout=3000)

    # ------------------------------------------------------------------ real directories: the calls
    n_ops = 36 if q else 500
    traces = ctx.impl("harness/dirops_driver.py", ["--mode", "ops", "--n", n_ops, "--len", 30], timeout=6000)
    for tr in traces:
        evs = tr["events"]
        if tr["src"].startswith("probe:"):
            ctx.count(None, n=len(evs))
            continue
        imm_ids = [e["out"]["id"] for e in evs if e["op"] == "mkdir" and e["st"] == "ok" and not e["mutable"]]
        imm_twice = len(imm_ids) != len(set(imm_ids)) or any(e["op"] == "mkdir" and e["st"] == "MustBeDeepImmutableError" for e in evs)
        batch_refused = any(e["op"] in ("setchildren", "addmany") and e["st"] == "ExistingChildError" for e in evs)
        deep_path = any(e["op"] == "path" and e["st"] == "ok" and len(e["path"]) >= 2 for e in evs)
        ctx.count(json.dumps([slim(e) for e in evs], sort_keys=True) if (imm_twice and batch_refused and deep_path) else None)
        ctx.count(None, n=len(evs) - 1)
    ctx.sample({"family": "ops", "init": traces[0]["consts"]["init"], "events": [slim(e) for e in traces[0]["events"][:5]]})
    probe = lambda tr: tr["src"][len("probe:"):] if tr["src"].startswith("probe:") else None
    ctx.trace("dir/TraceDirnodeMore", traces, batch=300,
              key_of=lambda tr, l, c: ("probe:%s:%s" % (probe(tr), c)) if probe(tr) else "trace:%s:%s" % (c, tr["events"][l - 1]["op"]),
              what_of=lambda tr, l, c: "real DirectoryNode, %s history, call %d (%s -> %s): %s" % (
                  tr["src"], l, tr["events"][l - 1]["op"], tr["events"][l - 1]["st"], c))

    # ------------------------------------------------------------------ real gateway: deep-check and blacklist
    rng = random.Random("X-dirnode_ops-%d" % ctx.seed)
    budget = 40 if q else 1500
    if len(graphs) > budget:
        graphs = rng.sample(graphs, budget)
    gtr = ctx.impl("harness/dirops_driver.py", ["--mode", "graph", "--n", 24 if q else 300, "--len", 14 if q else 20],
                   input_obj={"graphs": graphs}, timeout=6000)
    for tr in gtr:
        evs = tr["events"]
        if tr["src"].startswith("probe:"):
            ctx.count(None, n=len(evs))
            continue
        listed, damaged, hit = False, False, False
        for e in evs:
            if e["ev"] == "blwrite" and e["ids"]:
                listed = True
            elif e["ev"] == "damage":
                damaged = True
            elif e["ev"] == "deepcheck" and e["st"] == "ok" and listed and damaged and e["unhealthy"] > 0:
                hit = True
        ctx.count(json.dumps(tr, sort_keys=True) if hit else None)
        ctx.count(None, n=len(evs) - 1)
    big = max(gtr, key=lambda t: len(t["consts"]["type"]))
    ctx.sample({"family": "graph", "src": big["src"], "objects": len(big["consts"]["type"]),
                "events": [slim(e, ("vis", "results", "entries")) for e in big["events"][:10]]})
    ctx.trace("dir/TraceDeepCheck", gtr, batch=300,
              key_of=lambda tr, l, c: ("probe:%s:%s" % (probe(tr), c)) if probe(tr) else "graph:%s:%s" % (c, tr["events"][l - 1]["ev"]),
              what_of=lambda tr, l, c: "real gateway on a real graph (%d objects, %s), event %d (%s): %s" % (
                  len(tr["consts"]["type"]), tr["src"], l, tr["events"][l - 1]["ev"], c))
    # every probe must have been run and judged: a probe that is accepted means the code changed (good news, but the
    # known-findings list is then stale) -- say so
    seen = {f.get("key") for f in ctx.findings}
    for tr in traces + gtr:
        p = probe(tr)
        if p and not any(k and k.startswith("probe:%s:" % p) for k in seen):
            ctx.notes.append("probe %s: the real code now answers as documented (known finding no longer reproduced)" % p)
