"""X-download_producer: flow control of reads - the IConsumer / IPushProducer / IPullProducer protocol that every
readable node's read(consumer, offset, size) promises (allmydata/interfaces.py IReadable.read; twisted IConsumer,
IProducer, IPushProducer, IPullProducer docstrings - quoted in spec/immutable/ProducerConsumer.tla).

MC    spec/immutable/MCProducerConsumer: one read of N chunks, producer designs (intended push producer, the shape of
      immutable/downloader/segmentation.py, the shape of mutable/retrieve.py, intended pull producer, twisted's FileSender
      as LiteralFileNode.read uses it) against an adversarial consumer (pause / resume / stop / raise, re-entrantly
      inside registerProducer and write(), and from the outside between reactor turns) and failing fetches.  The
      positive modes hold every clause of the contract (stated twice: through the contract operators and over the bare
      event history).  The necessity modes must each be reported by TLC: they are the design-level explanation of the
      deviations that the real code shows.
GEN   spec/immutable/GenProducerPatterns: every adversary script with at most MaxLen moves on the slots register /
      write 1 / after write 1 / write 2 / after write 2.
TRACE harness/producer_driver.py replays each TLC-generated script and seeded longer ones (delays, partial ranges,
      delivery orders, server faults) against real LIT, CHK (one / many segments), SDMF and MDMF reads on a SimGrid with a
      single-stepped reactor, and against the web gateway (real twisted.web channel + FileDownloader with a transport
      whose send buffer fills up); TraceProducerConsumer.tla judges every recorded read with the contract operators."""
import collections, json, os

POSITIVE = ["intended_any", "segmentation_inwrite", "retrieve_inwrite", "pull_any", "filesender_plain"]
NECESSITY = ["segmentation_any", "retrieve_any", "retrieve_stop", "retrieve_fault", "retrieve_regpause",
             "filesender_stop", "filesender_raise"]
INVARIANTS = ["PC_RegisterDiscipline", "PC_WritesWhileRegistered", "PC_NoWriteAfterStop", "PC_NoWriteWhilePaused",
              "PC_PullDiscipline", "PC_ExactRange", "PC_ResultDiscipline", "PC_ProducerCallsReturn", "PC_HarnessSane",
              "PC_UnregisterBeforeFired", "PC_Resolves", "H_WritesInsideRegistration", "H_NoWriteAfterStop", "H_OneOfEach",
              "H_ResultLast", "H_SuccessComplete", "H_PausedSilence"]


def mc_cfg(modes, n, moves, invariants, constraint=None):
    return ("SPECIFICATION Spec\nCONSTANTS\n  Modes = {%s}\n  N = %d\n  MaxMoves = %d\nCHECK_DEADLOCK FALSE\n"
            % (", ".join('"%s"' % m for m in modes), n, moves) + "".join("INVARIANT %s\n" % i for i in invariants)
            + ("CONSTRAINT %s\n" % constraint if constraint else ""))


GROUP = {"lit": "lit", "chk": "chk", "sdmf": "mutable", "mdmf": "mutable"}


def key_of(tr, l, clause):
    c = tr["consts"]
    return "trace:%s:%s" % (GROUP[c["kind"]], clause)


def short(e):
    k = e["ev"]
    if k == "Write":
        return "W%d" % len(e["data"])
    if k in ("Pause", "Resume", "Stop"):
        return "%s@%s/t%d" % (k, e["origin"], e["t"])
    if k == "Ret":
        return "ret" + ("!" + e["raised"] if e["raised"] else "")
    if k == "Fired":
        return "Fired(%s%s)" % (e["res"], " " + e["cls"] if e["cls"] else "")
    if k == "End":
        return "End(lost=%d)" % e["lost"]
    if k == "Register":
        return "Register(%s)" % ("push" if e["streaming"] else "pull")
    return k


def what_of(tr, l, clause):
    c = {k: v for k, v in tr["consts"].items() if k not in ("content",)}
    return ("read of a %s file (%s, %d bytes) offset=%s size=%s, script %s, fault %s: clause %s at event %d; events: %s" % (
        c["kind"], c["file"], len(tr["consts"]["content"]), c["off"], c["size"] if c["sized"] else None,
        json.dumps(c.get("script"), sort_keys=True), json.dumps(c.get("fault")), clause, l,
        " ".join(short(e) for e in tr["events"])[-1500:]))


def run(ctx):
    q = ctx.quick
    # ---- design level ------------------------------------------------------------------------------------------
    n, moves = (2, 3) if q else (3, 6)
    ctx.constants["MCProducerConsumer"] = {"Modes": POSITIVE, "N": n, "MaxMoves": moves}
    ctx.mc("immutable/MCProducerConsumer", mc_cfg(POSITIVE, n, moves, INVARIANTS), name="MC producer/consumer, positive modes",
           timeout=3000)
    if not os.environ.get("VERIF_SKIP_MC"):
        r = ctx.mc("immutable/MCProducerConsumer",
                   mc_cfg(NECESSITY, 2, 3, ["NEC_%s" % m for m in NECESSITY] + ["PC_HarnessSane"], constraint="NecFirst"),
                   name="MC producer/consumer, necessity modes", expect_ok=False, cont=True, coverage=False, timeout=3000)
        for m in NECESSITY:
            if "NEC_%s" % m not in r.violated:
                ctx.report(key="spec:necessity_not_detected:%s" % m,
                           what="MCProducerConsumer mode %s breaks no clause of the contract (violated: %s): the contract does not "
                                "separate this design from the intended one" % (m, sorted(set(r.violated))))
        if "PC_HarnessSane" in r.violated:
            ctx.report(key="spec:MCProducerConsumer:PC_HarnessSane", what="the adversary of the necessity modes is not well-formed")
        ctx.notes.append("necessity modes reported by TLC: %s" % sorted(set(v[4:] for v in r.violated if v.startswith("NEC_"))))

    # ---- adversary scripts from the Spec ------------------------------------------------------------------------
    maxlen = 2 if q else 3
    ctx.constants["GenProducerPatterns"] = {"MaxLen": maxlen}
    cases, _ = ctx.gen("immutable/GenProducerPatterns", "SPECIFICATION Spec\nCONSTANT MaxLen = %d\nINVARIANT TableOK\n" % maxlen)

    # ---- implementation level ----------------------------------------------------------------------------------
    nseed = 320 if q else 4000
    nweb = 60 if q else 600
    nmem = 40 if q else 400
    out = ctx.impl("harness/producer_driver.py", ["--n", nseed, "--web", nweb, "--mem", nmem], input_obj={"cases": cases}, timeout=6000)
    traces = out["traces"]
    stats = collections.Counter()
    for t in traces:
        c = t["consts"]
        ev = t["events"]
        kinds = [e["ev"] for e in ev]
        via = c.get("via", "node")
        stats["%s:%s" % (via, c["file"])] += 1
        stats["src=%s" % c["src"]] += 1
        stats["writes"] += kinds.count("Write")
        for k in ("Pause", "Resume", "Stop", "Raise"):
            stats[k.lower()] += kinds.count(k)
        stats["reentrant_moves"] += sum(1 for e in ev if e["ev"] in ("Pause", "Resume", "Stop") and e["origin"] != "outside")
        fired = [e for e in ev if e["ev"] == "Fired"]
        stats["result=%s" % (fired[0]["res"] if fired else "none")] += 1
        if c["faulty"]:
            stats["with_server_faults"] += 1
        if c["sized"]:
            stats["partial_range"] += 1
        nontrivial = c["moves_made"] > 0 or c["faulty"]
        ctx.count(json.dumps([via, c["kind"], c["off"], c["sized"], c["size"], [short(e) for e in ev]]) if nontrivial else None)
    ctx.notes.append("real reads: %s" % dict(sorted(stats.items())))
    ctx.notes.append("files: %s" % json.dumps(out["files"], sort_keys=True))
    if out.get("web_without_read"):
        ctx.notes.append("web requests that never reached read() (not judged): %s" % out["web_without_read"])
    t0 = next(t for t in traces if t["consts"]["file"] == "chkN" and t["consts"]["moves_made"] >= 2)
    ctx.sample({"consts": {k: v for k, v in t0["consts"].items() if k != "content"}, "events": [short(e) for e in t0["events"]]}, limit=2)
    t1 = next(t for t in traces if t["consts"]["file"] == "mdmf" and t["consts"]["moves_made"] >= 2)
    ctx.sample({"consts": {k: v for k, v in t1["consts"].items() if k != "content"}, "events": [short(e) for e in t1["events"]]}, limit=2)
    ctx.trace("immutable/TraceProducerConsumer", traces, invariants=("TraceOK",), key_of=key_of, what_of=what_of,
              workers=4, batch=2500, timeout=3000)
    ctx.rule = ("MC: every behaviour of MCProducerConsumer in the positive modes (N=%d chunks, up to %d moves of the adversary); every "
                "necessity mode must be reported by TLC. TRACE: each of the %d TLC-generated scripts (<= %d moves on register / write 1 / "
                "after write 1 / write 2 / after write 2) on a LIT, one-segment CHK, multi-segment CHK, SDMF and MDMF file (whole "
                "file; every third script also on a partial range), %d seeded reads (longer scripts with delays, ranges incl. empty "
                "and to-EOF, fifo / random delivery, 30%% with server faults: every call fails from the n-th write on, one call "
                "fails / is lost, one server dead), %d reads into the stock MemoryConsumer, %d reads through the web gateway (Range "
                "requests, send buffer of 1 byte .. unlimited, client drains / stalls / disconnects). Non-trivial: the consumer "
                "made at least one move or a fault was injected."
                % (n, moves, len(cases), maxlen, nseed, nmem, nweb))
    ctx.assumptions += ["TLC and the CommunityModules",
                        "harness: virtual reactor single-stepped by harness/producer_driver.py (one delayed call or one remote call "
                        "per turn); SimGrid k=2 n=3 on 4 servers; FileSender.CHUNK_SIZE lowered to 3..64 so that a LIT read takes "
                        "several writes; DEFAULT_MUTABLE_MAX_SEGMENT_SIZE 6 (1500 for the files used with server faults, whose "
                        "shares exceed the 4000 bytes the servermap update caches)",
                        "the consumer calls its producer only while registered, stopProducing at most once and nothing after it "
                        "(clauses harness_*)",
                        "web leg: real TahoeLAFSSite / HTTPChannel / FileDownloader; the transport is the harness's (buffer limit, "
                        "pauseProducing from inside write() when the limit is exceeded, resumeProducing when drained, "
                        "stopProducing + connectionLost on disconnect, as twisted.internet.abstract.FileDescriptor does); the events "
                        "are recorded by a proxy between FileDownloader and the node's read()"]
