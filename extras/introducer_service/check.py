"""Extra introducer_service: the introducer as a whole (server + publishing and subscribing clients + cache).

MC: spec/net/MCIntroducerService (IntroducerService.tla: one introducer, publishers, subscribers, FIFO connections,
connect / disconnect / kill+restart / introducer restart / start from the cache / replaying outsider; 16 rules stated
over the environment's own books).  TRACE: seeded histories driven through a real IntroducerService and real
IntroducerClients wired by fake foolscap connections (harness/introsvc_driver.py); every step validated by
spec/net/TraceIntroducerService against the same operators."""
import json, os

INVS = ["TypeOK", "XI_Authentic", "XI_SeqnumIdentifies", "XI_SubscribersAreConnected", "XI_OnlySubscribedServices",
        "XI_NothingLost", "XI_AtMostOnce", "XI_PublishedReachesServer", "XI_SubscriberHearsLatest", "XI_LateEqualsEarly",
        "XI_CacheOnePerIndex", "XI_CacheHoldsStore", "XI_CacheNeverForgets", "XI_LateLocalSubscriber"]
PROPS = ["XI_ServerMonotone", "XI_NeverBackwards"]
KEY = "X-introducer_service"


def mc_cfg(k, only=None):
    invs = [i for i in INVS if only is None or i in only]
    props = [p for p in PROPS if only is None or p in only]
    return ("SPECIFICATION Spec\nCONSTANTS\n" + "".join("  %s = %s\n" % kv for kv in k.items()) +
            "".join("INVARIANT %s\n" % i for i in invs) + "".join("PROPERTY %s\n" % p for p in props) +
            "CHECK_DEADLOCK FALSE\n")


def consts(clients, pubs, subs, pubsvcs, subsvcs, bodies='{"a"}', **kw):
    services = '{"storage", "other"}' if "other" in pubsvcs + subsvcs else '{"storage"}'
    k = dict(Clients=clients, Pubs=pubs, Subs=subs, PubSvcs=pubsvcs, SubSvcs=subsvcs, Services=services, Bodies=bodies,
             MaxSeq=2, MaxKill=0, MaxSrvRestart=0, MaxDisc=0, MaxInject=0, StartMayFail="FALSE", LateSubscribe="FALSE",
             Remembered="TRUE", TwoKeys="FALSE", Resign="FALSE")
    k.update(kw)
    return k


ST = '{"storage"}'
BOTH = '{"storage", "other"}'
# documented behaviour (Remembered = TRUE, Resign = FALSE): every rule must hold
QUICK_MC = [
    ("pubsub", consts('{"p1", "s1", "s2"}', '{"p1"}', '{"s1", "s2"}', ST, ST, MaxDisc=1, LateSubscribe="TRUE")),
    ("cache", consts('{"p1", "s1"}', '{"p1"}', '{"s1"}', ST, ST, MaxKill=1, MaxSrvRestart=1, MaxInject=1,
                     StartMayFail="TRUE", LateSubscribe="TRUE")),
]
THOROUGH_MC = [
    ("pubsub", consts('{"p1", "s1", "s2"}', '{"p1"}', '{"s1", "s2"}', ST, ST, MaxSrvRestart=1, MaxDisc=1, LateSubscribe="TRUE")),
    QUICK_MC[1],
    ("twokeys", consts('{"p1", "s1"}', '{"p1"}', '{"s1"}', BOTH, BOTH, MaxDisc=1, TwoKeys="TRUE")),
    ("twopub", consts('{"p1", "p2", "s1"}', '{"p1", "p2"}', '{"s1", "p1"}', ST, ST, bodies='{"a", "b"}', MaxSeq=1, MaxDisc=1, MaxInject=1)),
    ("shrink", consts('{"p1", "p2", "s1"}', '{"p1", "p2"}', '{"s1"}', ST, ST, MaxSeq=1, MaxKill=1, MaxSrvRestart=1, StartMayFail="TRUE")),
    ("grid2x2", consts('{"p1", "p2", "s1", "s2"}', '{"p1", "p2"}', '{"s1", "s2"}', ST, ST, MaxSeq=1, MaxSrvRestart=1, MaxDisc=1,
                       LateSubscribe="TRUE")),
    ("pubsub_kill", consts('{"p1", "s1", "s2"}', '{"p1"}', '{"s1", "s2"}', ST, ST, MaxKill=1, MaxSrvRestart=1, MaxDisc=1,
                           MaxInject=1, StartMayFail="TRUE", LateSubscribe="TRUE")),
]
# the code as built (see notes): the model of it must break exactly the rules the real code is reported for
ASBUILT_MC = [
    ("asbuilt_cache_late", consts('{"p1", "s1"}', '{"p1"}', '{"s1"}', ST, ST, MaxSeq=1, MaxKill=1, StartMayFail="TRUE",
                                  LateSubscribe="TRUE", Remembered="FALSE"), "XI_LateLocalSubscriber"),
]
ASBUILT_THOROUGH = [
    ("asbuilt_twokeys", consts('{"p1", "s1"}', '{"p1"}', '{"s1"}', BOTH, BOTH, TwoKeys="TRUE", Resign="TRUE"), "XI_Authentic"),
    ("asbuilt_cache_shrink", consts('{"p1", "p2", "s1"}', '{"p1", "p2"}', '{"s1"}', ST, ST, MaxSeq=1, MaxKill=1, MaxSrvRestart=1,
                                    StartMayFail="TRUE", Remembered="FALSE"), "XI_CacheNeverForgets"),
    ("asbuilt_cache_replay", consts('{"p1", "s1"}', '{"p1"}', '{"s1"}', ST, ST, MaxKill=1, MaxSrvRestart=1, MaxInject=1,
                                    StartMayFail="TRUE", Remembered="FALSE"), "XI_NeverBackwards"),
]

# what the real code is known to do differently from the documented behaviour: scenario class, clause, event -> finding key
CACHE_KEY = KEY + ":cache_start_forgets_cached_announcements"
KEYS_KEY = KEY + ":publish_resigns_other_services_with_latest_key"
CACHE_CLAUSES = {("XI_not_delivered", "Subscribe"), ("XI_cache_lost_announcement", "S2C"), ("XI_NeverBackwards_delivery", "S2C")}


def started_from_cache(tr, l, c):
    """did client c start from its cache in its current incarnation (before event l)?"""
    ld = False
    for e in tr["events"][:l]:
        if e.get("c") == c:
            if e["ev"] == "Kill":
                ld = False
            elif e["ev"] == "Start" and not e["ok"]:
                ld = True
    return ld


def key_of(tr, l, clause):
    e = tr["events"][l - 1]
    cls = tr["consts"]["cls"]
    if cls == "twokeys" and (clause, e["ev"]) == ("XI_published_under_key_of_other_service", "C2S"):
        return KEYS_KEY + ":" + clause
    if cls.startswith("cache_") and (clause, e["ev"]) in CACHE_CLAUSES and started_from_cache(tr, l, e.get("c")):
        return CACHE_KEY + ":" + clause
    return "trace:%s:%s" % (clause, e["ev"])


def what_of(tr, l, clause):
    e = dict(tr["events"][l - 1])
    obs = e.pop("obs", {})
    hist = [{k: v for k, v in x.items() if k != "obs"} for x in tr["events"][max(0, l - 25):l]]
    return ("real IntroducerService / IntroducerClient disagree with IntroducerService.tla at event %d (%s), clause %s; scenario "
            "class %s; last events %s; observed %s" % (l, json.dumps(e), clause, tr["consts"]["cls"], json.dumps(hist),
                                                        json.dumps(obs)[:1500]))


def selftest(ctx, traces):
    """binding demonstration (DESIGN.md 5.5): a valid trace with one event dropped, or one logged field changed, must be rejected"""
    import copy
    from vfw import core
    bad = []
    for tr in traces:
        if tr["consts"]["cls"] != "grid":
            continue
        idx = [i for i, e in enumerate(tr["events"]) if e["ev"] == "S2C" and any(e["obs"]["out"].values())]
        if not idx:
            continue
        a = copy.deepcopy(tr)
        del a["events"][idx[0]]
        b = copy.deepcopy(tr)
        o = b["events"][idx[-1]]["obs"]["out"]
        c = [k for k in o if o[k]][0]
        o[c][0]["body"] = "zz"
        bad += [a, b]
        if len(bad) >= 24:
            break
    tf = os.path.join(ctx.workdir, "tampered.json")
    with open(tf, "w") as f:
        json.dump(bad, f)
    r = core.run_tlc("net/TraceIntroducerService", "SPECIFICATION TraceSpec\nINVARIANT TraceOK\nCHECK_DEADLOCK FALSE\n",
                     ctx.workdir, mode="trace", workers=1, env={"TRACE_FILE": tf}, cont=True, timeout=900)
    rej = {t[1] for t in r.tuples("VF_REJECT")}
    if r.errors or len(rej) != len(bad):
        ctx.report("selftest:tampered_trace_accepted", "binding self-test: %d of %d tampered traces were rejected (%s)"
                   % (len(rej), len(bad), r.errors[:2]))
    ctx.notes.append("binding self-test: %d/%d tampered traces (one event dropped / one delivered body changed) rejected" % (len(rej), len(bad)))


def run(ctx):
    ctx.rule = ("MC: all interleavings of publish / subscribe_to / startService (first attempt succeeds or fails) / connect / one "
                "call delivered in either direction (FIFO per connection) / disconnect / kill+restart of a node / introducer "
                "restart / replay or unsigned publish by an outsider, within the bounds in constants. TRACE: seeded histories "
                "of 4 nodes (2 publishers with 1-2 services, 2 subscribers, sometimes a node that is both) against one real "
                "IntroducerService, ~45 steps each plus a final drain: the same steps plus duplicate subscribe requests and "
                "foreign items (replays of everything seen on the wire, fresh items of a foreign key with integer / missing / "
                "string seqnums, unsigned, signed by another key, tampered); dedicated classes for the cache (late local "
                "subscriber, introducer that comes back with fewer servers, replay after an offline start) and for a node "
                "with two keys. One evaluation = one step with the complete observation after it; non-trivial = the step "
                "changes the introducer's store or subscribers, sends or delivers an announcement, or changes a cache file")
    ctx.assumptions += ["TLC and the CommunityModules",
                        "foolscap is replaced at the Tub / RemoteReference boundary by fakes that follow its documented behaviour: "
                        "calls over one connection arrive in order; a Referenceable passed twice over one connection is the same "
                        "RemoteReference; callRemote on a dead reference fails with DeadReferenceError; losing a connection fails "
                        "the pending calls and runs the notifyOnDisconnect handlers; foolscap's schema checks are not applied",
                        "both ends notice the loss of a connection in the same step; the answer of a call arrives with its delivery",
                        "a node's sequencer and cache file survive the node's restart (client.py _sequencer); its key does too",
                        "an announcement is a function of (node, service, seqnum, body): the nonce is derived from the seqnum",
                        "the driver judges signatures with ed25519 directly (which key, if any, signed exactly these bytes)",
                        "a stored non-integer seqnum cannot be beaten (Introducer.tla, C34)"]
    skip_mc = bool(os.environ.get("XI_SKIP_MC"))       # development aid for mutant runs (mutants change the code, not the Spec)
    for name, k in ([] if skip_mc else QUICK_MC if ctx.quick else THOROUGH_MC):
        ctx.constants["MC " + name] = k
        ctx.mc("net/MCIntroducerService", mc_cfg(k), name="MC introducer service (%s)" % name, timeout=3000)
    for name, k, rule in ([] if skip_mc else ASBUILT_MC if ctx.quick else ASBUILT_MC + ASBUILT_THOROUGH):
        ctx.constants["MC " + name] = k
        r = ctx.mc("net/MCIntroducerService", mc_cfg(k, only=[rule]), name="MC introducer service (%s)" % name, expect_ok=False,
                   timeout=3000)
        if rule in r.violated:
            ctx.notes.append("design level: the model of the code as built (%s) violates %s, the model of the documented behaviour "
                             "does not" % (name, rule))
        else:
            ctx.report("spec:asbuilt:%s" % name, "the as-built variant %s of the Spec no longer violates %s: the demonstration "
                       "that backs a known finding is gone" % (name, rule))

    n = dict(grid=40, events=50, cache=3, twokeys=3) if ctx.quick else dict(grid=600, events=70, cache=30, twokeys=10)
    res = ctx.impl("harness/introsvc_driver.py", ["--grid", n["grid"], "--events", n["events"], "--cache", n["cache"],
                                                  "--twokeys", n["twokeys"]])
    traces = res["traces"]
    ctx.notes.append("calibration: a client that started from its cache %s what it loaded (main scenarios are validated under "
                     "that reading; the cache classes always under 'remembers')" % ("remembers" if res["remembered"] else "forgets"))
    stats = {}
    shown = set()
    for tr in traces:
        prev = None
        for e in tr["events"]:
            o = e["obs"]
            stats[e["ev"]] = stats.get(e["ev"], 0) + 1
            stats["delivered"] = stats.get("delivered", 0) + sum(len(v) for v in o["out"].values())
            stats["forwarded"] = stats.get("forwarded", 0) + sum(len(b) for v in o["fwd"].values() for b in v)
            sig = [o["anns"], o["subs"], o["cache"]]
            moved = sig != prev or any(o["out"].values()) or any(o["fwd"].values())
            core = {k: v for k, v in e.items() if k != "obs"}
            ctx.count(json.dumps([core, sig, o["out"], o["fwd"]], sort_keys=True) if moved else None)
            prev = sig
        if tr["consts"]["cls"] not in shown:
            shown.add(tr["consts"]["cls"])
            ctx.sample({"class": tr["consts"]["cls"],
                        "events": [{k: v for k, v in e.items() if k != "obs"} for e in tr["events"][:14]],
                        "observation_after_last_shown": {k: tr["events"][min(13, len(tr["events"]) - 1)]["obs"][k]
                                                         for k in ("anns", "subs", "cache")}}, limit=3)
    ctx.notes.append("content of the batch: %s" % json.dumps(stats, sort_keys=True))
    ctx.trace("net/TraceIntroducerService", traces, key_of=key_of, what_of=what_of, batch=200)
    if not ctx.quick:
        selftest(ctx, traces)
