"""X-write_pipeline: the upload-side write path between the immutable encoder and one storage server
(immutable/layout.py _WriteBuffer / WriteBucketProxy / WriteBucketProxy_v2) and the reader-side parsing of what was
written (ReadBucketProxy).  util/pipeline.py `Pipeline` does not exist in this tree any more (replaced by the batching
write buffer); the rules judged are the ones the present docstrings / comments state (listed in WritePipeline.tla).

MC    spec/immutable/MCWritePipeline: client (waiting as the Encoder does / eager), write buffer, transport (ordered /
      unordered completion), server bucket, injected failures and lost connections.  The intended design holds all WP_
      invariants for a waiting client under any completion order and any faults, and for an eager client on an ordered
      transport without faults.  Necessity runs: TLC must name the invariant that breaks (a) when put_crypttext_hashes
      is two-phase as in the implementation and the client is eager, (b) eager client + unordered completion,
      (c) eager client + one failed write: these are the reasons why the only caller has to wait for every Deferred.
TRACE real proxies on the virtual reactor against a controllable remote reference in front of a real BucketWriter
      (harness/writepipeline_driver.py); every client call, remote call, answer, Deferred firing, the disk and the real
      ReadBucketProxy's view at the end are judged by spec/immutable/TraceWritePipeline; plus damaged share images read
      through the real BucketReader + ReadBucketProxy against the reader operators."""
import collections, json, os

INVARIANTS = ["WP_NoHoles", "WP_BytesAsPut", "WP_NoEmptyWrite", "WP_NoSmallWrites", "WP_BufferBounded", "WP_InOrderAccepted",
              "WP_NoEarlyFire", "WP_FailureReachesCaller", "WP_NoSpuriousFailure", "WP_CloseSuccessMeansClosed",
              "WP_CloseAfterWrites", "WP_CloseOnce", "WP_WaitingOneOutstanding", "WP_ClosedShareComplete",
              "WP_SuccessMeansFinal", "WP_QuiescentOutcome"]


def mc_cfg(modes, batchkind):
    return ("SPECIFICATION Spec\nCONSTANTS\n  Modes = {%s}\n  BatchKind = \"%s\"\nCHECK_DEADLOCK FALSE\n"
            % (", ".join('"%s"' % m for m in modes), batchkind) + "".join("INVARIANT %s\n" % i for i in INVARIANTS))


# necessity runs (modes of MCWritePipeline.ModeDef): mode -> invariants one of which TLC has to report
NECESSITY = [("eager_code_P1", "edge", {"WP_InOrderAccepted"}),               # two-phase put_crypttext_hashes + eager client
             ("eager_unordered_P1", "few", {"WP_ClosedShareComplete", "WP_QuiescentOutcome"}),
             ("eager_fault_P1", "few", {"WP_ClosedShareComplete"})]


def key_of(tr, l, clause):
    c = tr["consts"]
    if c["kind"] == "read":
        return "read:%s" % clause
    return "trace:%s" % clause


def short(e):
    k = e["ev"]
    if k == "Put":
        return "put#%d %s%s" % (e["id"], e["field"], e["seg"] if e["field"] == "block" else "")
    if k in ("Return", "CloseReturn", "AbortReturn"):
        return "-> %s" % e["sync"]
    if k == "Send":
        return "SEND#%d %s%s" % (e["cid"], e["meth"], "(%d,%dB)" % (e["off"], len(e["data"])) if e["meth"] == "write" else "")
    if k == "Deliver":
        return "deliver#%d %s%s" % (e["cid"], e["res"], "" if e["fault"] == "none" else "[%s]" % e["fault"])
    if k == "Fired":
        return "fired %s %s" % ("close" if e["id"] == 0 else "put#%d" % e["id"], e["res"])
    if k == "End":
        return "end final=%s incoming=%s" % (e["final"], e["incoming"])
    if k == "Get":
        return "get %s -> %s" % (e["what"], e["res"]["st"])
    return k.lower()


def what_of(tr, l, clause):
    c = dict(tr["consts"])
    c.pop("image", None)
    return ("%s trace (%s), parameters %s: event %d rejected by clause %s; history: %s" % (
        c["kind"], c["profile"], json.dumps(c, sort_keys=True), l, clause, "; ".join(short(e) for e in tr["events"][:l])[-1200:]))


def run(ctx):
    q = ctx.quick
    # ---- design level ------------------------------------------------------------------------------------------
    # the code as it is under the Encoder's discipline (any completion order, faults), the single-phase design, and an
    # eager client on an ordered transport without faults: all invariants hold
    modes = ["waiting_code_P1", "waiting_P2", "eager_ordered_P1"] if q else \
            ["waiting_code_P1", "waiting_code_P2", "waiting_code_P3", "waiting_P1", "waiting_P2",
             "eager_ordered_P1", "eager_ordered_P2", "eager_ordered_P3"]
    kind = "edge" if q else "all"
    ctx.constants["MCWritePipeline"] = {"Modes": modes, "BatchKind": kind}
    ctx.mc("immutable/MCWritePipeline", mc_cfg(modes, kind), name="MC write pipeline (%s batch sizes)" % kind, timeout=3000)
    for mode, bk, expected in ([] if os.environ.get("VERIF_SKIP_MC") else NECESSITY):
        r = ctx.mc("immutable/MCWritePipeline", mc_cfg([mode], bk), name="MC necessity: %s" % mode, expect_ok=False, timeout=1500, coverage=False)
        if not (set(r.violated) & expected):
            ctx.report(key="spec:necessity_not_detected:%s" % mode,
                       what="MCWritePipeline in mode %s violates none of %s (violated: %s): the invariants do not separate the "
                            "documented contract from this situation" % (mode, sorted(expected), r.violated))
        ctx.notes.append("necessity run %s: TLC reports %s" % (mode, sorted(set(r.violated))))

    # ---- implementation level ----------------------------------------------------------------------------------
    n = 154 if q else 2200
    out = ctx.impl("harness/writepipeline_driver.py", ["--n", n], timeout=3000)
    traces = out["traces"]
    stats = collections.Counter()
    for t in traces:
        c = t["consts"]
        ev = t["events"]
        stats["profile=%s" % (c["profile"] if c["kind"] == "write" else "read")] += 1
        if c["kind"] == "write":
            sends = [e for e in ev if e["ev"] == "Send" and e["meth"] == "write"]
            faults = [e for e in ev if e["ev"] == "Deliver" and e["fault"] not in ("none",)]
            errs = [e for e in ev if e["ev"] == "Deliver" and e["res"] == "err"]
            end = ev[-1]
            stats["final" if end.get("final") else "not_final"] += 1
            stats["writes"] += len(sends)
            stats["failed_calls"] += len(errs)
            refused = [e for e in ev if e["ev"] in ("Return", "CloseReturn") and e["sync"] != "ok"]
            stats["refused_calls"] += len(refused)
            # more than one remote write, or a fault / refusal: the batching and the failure paths were exercised
            nontrivial = len(sends) > 1 or faults or errs or refused
            ctx.count(json.dumps([{k: v for k, v in c.items()}, [short(e) for e in ev]], sort_keys=True) if nontrivial else None)
        else:
            sts = [e["res"]["st"] for e in ev]
            for s in sts:
                stats["read_answer=%s" % s] += 1
            ctx.count(json.dumps([c["profile"], c["version"], sts]) if any(s != "ok" for s in sts) else None)
    ctx.notes.append("real executions: %s" % dict(sorted(stats.items())))
    w0 = [t for t in traces if t["consts"]["kind"] == "write"][0]
    ctx.sample({"consts": w0["consts"], "events": [short(e) for e in w0["events"]]}, limit=2)
    ctx.trace("immutable/TraceWritePipeline", traces, invariants=("TraceOK",), key_of=key_of, what_of=what_of,
              workers=4, batch=600, timeout=3000)
    ctx.rule = ("MC: every behaviour of MCWritePipeline in the listed modes (quick: batch sizes 1, the default and +-1 around every field "
                "boundary; thorough: every batch size from 1 to above the allocated size); each necessity mode must be rejected by "
                "TLC with a listed invariant. TRACE: %d seeded sessions: share "
                "parameters (layout v1/v2, 1..%d segments, block size 1..6, N in 1..10, URI extension 1..40 bytes), batch size "
                "1 / default / around every cumulative field boundary / random; profiles waiting (next call after the Deferred "
                "fired), waiting + one fault (raise / disconnect at the n-th delivery), eager on an ordered transport, eager with "
                "unordered completion, eager + fault, negative (skipped / repeated field, wrong size, early close), and read "
                "(correct or damaged image: version, truncation, URI-extension length, shifted offsets). Non-trivial: more than "
                "one remote write or a fault / failed call / refused call; for read traces: some getter did not answer ok."
                % (n, 4 if q else 8))
    ctx.assumptions += ["TLC and the CommunityModules; Layout.tla (offset table, checked by C01)",
                        "harness: virtual reactor; ControlledBucketRef parks every callRemote of the proxy and records it with the "
                        "client activity that was on the stack; the server end is a real BucketWriter / BucketReader of a real "
                        "StorageServer (allocate_buckets with the proxy's get_allocated_size()); a disconnect fires the canary "
                        "the server registered",
                        "bytes are compared as bytes (no abstraction); share-hash pairs are compared as (number, hash) records; "
                        "reader errors are abstracted to the documented class name or 'error'",
                        "header fields above 2^31 are not decodable by TLC: such reader answers are not judged"]
