"""X-cli_cp  `tahoe cp`: which arguments are accepted and what the copy does to the local tree and to the grid tree.

Spec (spec/frontends):
  CliCp.tla     two trees (path -> directory | file(content, mutable, identity)); arguments [side, path, named, slash, form];
                Cp(W, a) = [expect = ok | error | unspec, errs, L, G, maydirs] built like the code (TgtKind / SrcKind,
                UsageErrs, FileToFile, Items, Collide, ThingsToDirectory); the CP_ clauses state the rules of
                docs/frontends/CLI.rst, `tahoe cp --help` (scripts/cli.py) and the comments of scripts/tahoe_cp.py over
                (world, arguments, answer) without those operators.
  GenCliCp.tla  worlds (three fixed ones + the 209 pairs of trees with at most two entries) x lists of 1..3 sources x targets x
                -r x --caps-only, every row with Cp's answer; the rows are the state space on which TLC checks the CP_ clauses.
Conformance: harness/clicp_driver.py builds a row's world for real (temporary directory; directories, immutable and
mutable files on a grid behind the real web API, harness/webgrid.py), runs the real allmydata.scripts.tahoe_cp.Copier
with do_http routed into that web API, and reads both trees back.  Python compares with the Spec's row.
"""
import collections, json, os, random

INVS = ["CP_NeedsRecursive_", "CP_MissingSource_", "CP_ErrorChangesNothing_", "CP_MissingTargetOneFile_", "CP_MissingTargetElseDirectory_",
        "CP_ManyNeedDirectory_", "CP_FileTargetOneFile_", "CP_UnnamedFileIntoDirectory_", "CP_SlashOnFile_", "CP_SlashOnDirectoryIgnored_",
        "CP_EverythingArrives_", "CP_Frame_", "CP_MutableInPlace_", "CP_LocalFilesArePlain_", "CP_CapsOnlyLocalTarget_",
        "CP_CapsOnlyOnlyLocalTargets_", "CP_Collisions_"]


def tree_of(entries):
    return {e["p"]: (e["k"], e["c"], bool(e["mu"]), e["o"]) for e in entries}


def describe(c):
    def arg(a, tgt=False):
        s = ("L:" if a["side"] == "local" else "G:") + (a["p"] or ".") + ("/" if a["slash"] else "")
        if not tgt and not a["named"]:
            s = "cap(" + s + ")"
        return s
    return "cp%s%s %s -> %s" % (" -r" if c["r"] else "", " --caps-only" if c["caps"] else "", " ".join(arg(a) for a in c["srcs"]), arg(c["tgt"], True))


def stratum(c):
    if c["expect"] == "error":      # rows that must fail: by error classes and sides
        return ("", len(c["srcs"]) > 1, "error", ",".join(sorted(c["errs"])), "", c["tgt"]["side"],
                "".join(sorted({a["side"][0] for a in c["srcs"]})), False, False)
    return (c["world"][:4], len(c["srcs"]), c["expect"], "", c["why"], c["tgt"]["side"],
            "".join(sorted({a["side"][0] for a in c["srcs"]})), c["r"], c["caps"])


def diff_class(exp, got):
    """structural name of the first difference between two trees (path -> (k, c, mu, o)), paths in order"""
    for p in sorted(set(exp) | set(got)):
        e, g = exp.get(p), got.get(p)
        if e == g:
            continue
        if g is None:
            return "missing_%s" % e[0], p
        if e is None:
            return "unexpected_%s" % g[0], p
        if e[0] != g[0]:
            return "%s_instead_of_%s" % (g[0], e[0]), p
        if e[1] != g[1]:
            return ("content_is_cap" if g[1].startswith("cap:") else "content_is_data" if e[1].startswith("cap:") else "content"), p
        if e[2] != g[2]:
            return ("became_immutable" if e[2] else "became_mutable"), p
        return "other_mutable_object", p
    return None, None


def run(ctx):
    q = ctx.quick
    rng = random.Random("X-cli_cp-%d" % ctx.seed)
    consts = {"Seed": ctx.seed, "Mod1": 4 if q else 1, "Mod2": 8 if q else 1, "Mod3": 8 if q else 1, "WorldNames": '{"big", "fresh", "flat"}',
              "TinyMod": 250 if q else 40}
    ctx.constants["GEN_CliCp"] = consts
    cfg = "SPECIFICATION Spec\nCONSTANTS\n" + "".join("  %s = %s\n" % kv for kv in consts.items()) + "".join("INVARIANT %s\n" % i for i in INVS)
    cache = os.environ.get("VERIF_CLICP_ROWS")      # mutant sweeps only: the Spec is unchanged, reuse its table
    if cache and os.path.exists(cache):
        with open(cache) as f:
            rows = json.load(f)
        r = None
        ctx.notes.append("GEN skipped (VERIF_CLICP_ROWS)")
    else:
        rows, r = ctx.gen("frontends/GenCliCp", cfg, timeout=3000, coverage=False)
        if cache:
            with open(cache, "w") as f:
                json.dump(rows, f)
    worlds = {x["world"]: {"L0": x["L0"], "G0": x["G0"]} for x in rows if x["expect"] == "WORLD"}
    cases = [x for x in rows if x["expect"] != "WORLD"]
    cases.sort(key=lambda c: json.dumps([c["world"], c["srcs"], c["tgt"], c["r"], c["caps"]], sort_keys=True))
    if r is not None and r.states != len(cases):
        raise RuntimeError("TLC found %d states, the table has %d rows" % (r.states, len(cases)))

    # which rows are replayed: all of them (thorough) or a seeded sample that takes rows from every stratum
    strata = collections.defaultdict(list)
    for i, c in enumerate(cases):
        strata[stratum(c)].append(i)
    if q:
        sel = []
        for key in sorted(strata, key=str):
            idx = strata[key]
            sel += rng.sample(idx, min(len(idx), 2 if key[2] == "ok" else 1))
        if len(sel) > 500:      # rows that must fail: at most as many as fit
            keep = [i for i in sel if cases[i]["expect"] != "error"]
            errs = [i for i in sel if cases[i]["expect"] == "error"]
            sel = keep + rng.sample(errs, max(0, 500 - len(keep)))
        rest = sorted(set(i for i, c in enumerate(cases) if c["expect"] == "ok") - set(sel))
        sel += rng.sample(rest, min(len(rest), max(0, 500 - len(sel))))
    else:
        sel = [i for i, c in enumerate(cases) if c["expect"] != "error"]
        for key in sorted(strata, key=str):
            if key[2] == "error":
                sel += rng.sample(strata[key], min(len(strata[key]), 25))
    rng.shuffle(sel)
    inp = {"worlds": worlds, "cases": [{"id": i, "world": cases[i]["world"], "srcs": cases[i]["srcs"], "tgt": cases[i]["tgt"],
                                        "r": cases[i]["r"], "caps": cases[i]["caps"]} for i in sel]}
    out = ctx.impl("harness/clicp_driver.py", ["--jobs", 4 if q else 6], inp, timeout=5000)
    res = out["results"]

    tally = collections.Counter()
    unspec = collections.Counter()
    http = 0
    for i in sel:
        c, o = cases[i], res[str(i)]
        http += o["http"]
        ts = c["tgt"]["side"]
        sides = "".join(sorted({a["side"][0] for a in c["srcs"]})) + ">" + ts[0]
        w0 = {"local": tree_of(worlds[c["world"]]["L0"]), "grid": tree_of(worlds[c["world"]]["G0"])}
        got = {"local": tree_of(o["L"]), "grid": tree_of(o["G"]) if o["G"] is not None else None}
        what = "%s [world %s; %s] -> %s rc=%s %s" % (describe(c), c["world"], " ".join(o["argv"]), o["status"], o["rc"],
                                                   (o["exc"] or o["stderr"]).strip().replace("\n", " | ")[:160])
        replay = {"kind": "cli-cp-row", "row": c, "observed": o,
                  "how": "harness/clicp_driver.py builds the world of the row (GenCliCp.tla Worlds) and runs the real Copier"}
        tally["%s:%s" % (c["expect"], o["status"])] += 1
        nontrivial = c["expect"] == "ok" and (len(c["srcs"]) > 1 or any(e["k"] == "dir" for e in c["T1"] if e["p"] not in w0[ts]) or
                                              any(e["mu"] for e in c["T1"] if w0[ts].get(e["p"]) != (e["k"], e["c"], bool(e["mu"]), e["o"])))
        ctx.count(describe(c) if nontrivial else None)
        if len(ctx.samples) < 4 and nontrivial and i % 7 == 0:
            ctx.sample({"row": describe(c), "world": c["world"], "argv": o["argv"], "spec": {"expect": c["expect"], "errs": c["errs"]},
                        "real": {"status": o["status"], "http_requests": o["http"]},
                        "target_side_after": sorted(p for p in got[ts] if p not in w0[ts])})

        def bad(key, problem):
            ctx.report(key="case:" + key, what="%s: %s; Spec: expect=%s %s" % (problem, what, c["expect"], sorted(c["errs"])), replay=replay)

        flags = ("caps_only" if c["caps"] else "plain") + (":-r" if c["r"] else "")
        other = "grid" if ts == "local" else "local"
        if c["expect"] == "unspec":
            unspec["%s: %s" % (c["why"], o["status"])] += 1
            continue
        if got[other] is not None and got[other] != w0[other]:
            kind, p = diff_class(w0[other], got[other])
            bad("other_side_changed:%s:%s" % (kind, sides), "the %s tree changed at %s" % (other, p))
        if c["expect"] == "ok":
            if o["status"] != "ok":
                # what the row is about, for the key: a mutable file overwritten in place (inside the target directory / the target itself)
                t1 = tree_of(c["T1"])
                inplace = [p for p, v in t1.items() if v[2] and w0[ts].get(p) != v]
                feature = "plain" if not inplace else "inplace_target" if inplace == [c["tgt"]["p"]] else "inplace_in_directory"
                bad("ok_expected:got_%s:%s:%s:%s" % (o["status"], feature, sides, flags), "the command must succeed")
                continue
            kind, p = diff_class(tree_of(c["T1"]), got[ts])
            if kind:
                e, g = tree_of(c["T1"]).get(p), got[ts].get(p)
                bad("tree:%s:%s_target:%s:%s" % (kind, ts, flags, sides), "the %s tree afterwards differs at %r: Spec %s, real %s" % (ts, p, e, g))
        else:
            if o["status"] == "ok":
                bad("error_expected:%s:got_ok:%s" % ("+".join(sorted(c["errs"])), sides), "the command must fail")
            elif o["status"] not in c["errs"]:
                bad("error_class:got_%s:%s" % (o["status"], "+".join(sorted(c["errs"]))), "the command failed for another reason")
            tolerated = set(c["maydirs"]) if o["status"] == "E_COLLIDE" else set()
            seen = {p: v for p, v in got[ts].items() if not (p in tolerated and v[0] == "dir" and p not in w0[ts])}
            kind, p = diff_class(w0[ts], seen)
            if kind:
                bad("error_changed_tree:%s:%s:%s" % (kind, "+".join(sorted(c["errs"])), sides),
                    "a refused command changed the %s tree at %r" % (ts, p))

    byexp = collections.Counter(c["expect"] for c in cases)
    if not any(k.startswith("ok:ok") for k in tally) or not any(k.startswith("error:E_") for k in tally):
        raise RuntimeError("vacuous run: %s" % dict(tally))
    ctx.exhaustive = False
    ctx.rule = ("GEN: GenCliCp.tla's worlds (big: both sides f, d/{x,m,s/u1,e/}, g/{x,d/{x,z}}, t/{x,m,d/x,f/,g}, three mutable "
                "files on the grid; fresh: empty grid directory; flat: files only; tiny<i>: the 209 pairs of trees with at most two entries, one row in "
                "250 / thorough 40) x every (source, target, flags) for one source, and "
                "for every (first source, target, flags) one list of two and one of three sources chosen by index arithmetic rotated by "
                "the seed; source = local or grid x named path / bare capability / bare alias x trailing slash x existing file / "
                "directory / missing, target = root, existing file / mutable file / directory, missing name x trailing slash x both "
                "sides, flags = -r x --caps-only (quick: one row in 4 / 8 / 8).  Replayed, thorough: every row that must succeed or is not "
                "judged, 25 rows per stratum (error classes, sides, one / several sources) of the rows that must fail; quick: a seeded sample "
                "with rows of every stratum (world, number of sources, expectation, reason, sides, flags), 2 per stratum of "
                "rows that must succeed, 1 otherwise, 500 in all.  non-trivial = a row that must "
                "succeed and has several sources, or makes a directory, or writes a mutable file in place.")
    ctx.assumptions += ["TLC and the CommunityModules",
                        "the driver's fixed tables (names, content identifier -> bytes, spelling of an argument per form, stderr text -> "
                        "error class); mutable files identified by storage index, immutable files by reading them back",
                        "allmydata.scripts.tahoe_cp.do_http (blocking http.client) rebound to a synchronous call into the real web API "
                        "on the virtual reactor; one gateway, all storage servers up (k=1, n=2 on 2 servers)",
                        "the parent of the target exists; no symlinks / special files; write-caps everywhere (no read-only directories)"]
    ctx.notes.append("rows: %d (%s); replayed %d with %d HTTP requests made by the Copier; outcomes (expectation:status) %s" % (
        len(cases), dict(byexp), len(sel), http, dict(sorted(tally.items()))))
    ctx.notes.append("rows the documents say nothing about (executed, not judged) -- reason: status: %s" % dict(sorted(unspec.items())))
