"""X-cli_cp (work in progress)"""
INVS = ["CP_NeedsRecursive_", "CP_MissingSource_", "CP_ErrorChangesNothing_", "CP_MissingTargetOneFile_", "CP_MissingTargetElseDirectory_",
        "CP_ManyNeedDirectory_", "CP_FileTargetOneFile_", "CP_UnnamedFileIntoDirectory_", "CP_SlashOnFile_", "CP_SlashOnDirectoryIgnored_",
        "CP_EverythingArrives_", "CP_Frame_", "CP_MutableInPlace_", "CP_LocalFilesArePlain_", "CP_CapsOnlyLocalTarget_",
        "CP_CapsOnlyOnlyLocalTargets_", "CP_Collisions_"]


def run(ctx):
    consts = {"Seed": ctx.seed, "Mod2": 41, "Mod3": 211, "WorldNames": '{"big", "fresh", "flat"}'}
    cfg = "SPECIFICATION Spec\nCONSTANTS\n" + "".join("  %s = %s\n" % kv for kv in consts.items()) + "".join("INVARIANT %s\n" % i for i in INVS)
    rows, r = ctx.gen("frontends/GenCliCp", cfg, timeout=3000, coverage=False)
    print(len(rows), r.states)
    import collections
    print(collections.Counter((x["world"], len(x.get("srcs", [])), x["expect"]) for x in rows))
    import json
    json.dump(rows[:3] + rows[-3:], open("/tmp/x2-clicp/rows_sample.json", "w"), indent=1)
