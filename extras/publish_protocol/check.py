"""Extra `publish_protocol`: the mutable publisher as a protocol towards the storage servers.

Spec     spec/mutable/PublishPlan.tla (EXTENDS ServermapModes, re-uses PublishProtocol.tla through an instance),
         MCPublishPlan.tla (model + invariants), TracePublishPlan.tla (trace validator)
Driver   harness/publishproto_driver.py (real Publish.publish / Publish.update / MutableFileVersion.modify on a
         SimGrid, from arbitrary layouts and out-of-date servermaps, observed at the wire and on the disks)
Verdicts come from TLC only: invariants / action properties of the model, clause verdicts of the trace validator.
"""
import collections, json, os

INVARIANTS = ["TypeOK", "X_SeqAboveEverythingSeen", "X_GoalCoversAllShares", "X_NewSharesOnlyOnPermittedServers",
              "X_FailedTestIsReported", "X_ForeignShareIsReported", "X_SuccessMeansKAcknowledged", "X_SuccessPlacesEveryShare",
              "X_MapClaimsOnlyWrittenShares", "X_MapKnowsAcknowledgedShares", "X_BestVersionAfterSuccess",
              "X_WrittenSharesAreValid"]
PROPERTIES = ["X_ConditionalWrites", "X_RetryOnlyUntriedServers"]
ALL_FEATS = '{"plain", "unreached", "interf", "faults", "retry", "perm", "bad"}'


def mc_cfg(**kw):
    base = collections.OrderedDict([("K", 2), ("N", 3), ("NumServers", 4), ("CellCodes", "{1, 2}"), ("BadCodes", "{102}"),
                                    ("MaxShares", 3), ("Ops", '{"publish"}'), ("Fmts", '{"SDMF", "MDMF"}'), ("MaxUnperm", 1),
                                    ("MaxUnreached", 1), ("MaxInterf", 1), ("MaxFaults", 1), ("MaxMarks", 1),
                                    ("Feats", ALL_FEATS), ("Combine", "FALSE"), ("Loop", '"code"'),
                                    ("UpdateRule", '"doc"'), ("Order", '"fixed"')])
    base.update(kw)
    t = "SPECIFICATION Spec\nCONSTANTS\n" + "".join("  %s = %s\n" % kv for kv in base.items())
    return t, base


def cfg_text(consts, invariants, properties):
    t = "SPECIFICATION Spec\nCONSTANTS\n" + "".join("  %s = %s\n" % kv for kv in consts.items())
    t += "".join("INVARIANT %s\n" % i for i in invariants) + "".join("PROPERTY %s\n" % p for p in properties)
    return t + "CHECK_DEADLOCK FALSE\n"


def mc_runs(quick):
    """(name, constants, invariants, properties, expected violation or None)"""
    def c(**kw):
        return mc_cfg(**kw)[1]
    both = '{"publish", "update"}'
    hold = INVARIANTS + ["X_FailedServersAreReplaced"]
    runs = []
    if quick:
        runs.append(("1-of-2 on 3 servers, <= 2 shares, publish and in-place update, one dimension per behaviour",
                     c(K=1, N=2, NumServers=3, MaxShares=2, Ops=both), hold, PROPERTIES, None))
    else:
        runs.append(("2-of-3 on 4 servers, <= 3 shares, publish and in-place update, one dimension per behaviour, any order",
                     c(MaxShares=3, Ops=both, MaxUnreached=1, MaxFaults=2, MaxInterf=1, Order='"any"'), hold, PROPERTIES, None))
        runs.append(("1-of-2 on 3 servers, <= 2 shares, all dimensions at once (with the documented retry)",
                     c(K=1, N=2, NumServers=3, MaxShares=2, Ops=both, Feats='{"plain", "retry"}', Combine="TRUE"),
                     hold, PROPERTIES, None))
        runs.append(("2-of-3 on 3 servers, <= 2 shares, two faults / two changes behind the publisher's back, any order",
                     c(K=2, N=3, NumServers=3, MaxShares=2, Ops=both, MaxInterf=2, MaxFaults=2, MaxUnreached=2, Order='"any"'),
                     hold, PROPERTIES, None))
    # the two places where the code departs from the documents: TLC must name both invariants (known findings)
    runs.append(("as written: no retry loop, the in-place update rewrites every known share",
                 c(K=1, N=2, NumServers=2, MaxShares=2, Ops=both, Fmts='{"MDMF"}', Feats='{"faults"}', UpdateRule='"code"'),
                 ["X_FailedServersAreReplaced_AsWritten", "X_WrittenSharesAreValid"], [],
                 ["X_FailedServersAreReplaced_AsWritten", "X_WrittenSharesAreValid"]))
    return runs


def key_of(tr, l, clause):
    e = tr["events"][l - 1]
    op = tr["consts"].get("op", "?")
    if clause == "X_undocumented_error":
        return "trace:%s:%s:%s" % (clause, op, e.get("res", "?").replace("other:", ""))
    return "trace:%s:%s" % (clause, op)


def what_of(tr, l, clause):
    c = tr["consts"]
    e = tr["events"][l - 1]
    lay = [x for x in tr["events"][:l] if x["ev"] == "Layout"]
    mp = [x for x in tr["events"][:l] if x["ev"] == "Map"]
    fin = [x for x in tr["events"] if x["ev"] == "Finish"]
    return ("%s of a %s file (%d-of-%d, servers in permuted order %s, without upload permission %s, layout pattern %s, plan %s): "
            "event %d (%s) rejected by clause %s; grid %s; servermap %s; result %s; event %s" % (
                c.get("op"), c.get("fmt"), c["K"], c["N"], c["servers"], c.get("unperm"), c.get("pattern"), json.dumps(c.get("plan")),
                l, e["ev"], clause, json.dumps(lay[-1]["L"] if lay else {}, sort_keys=True),
                json.dumps({k: mp[-1][k] for k in ("M", "bad", "reach")} if mp else {}, sort_keys=True),
                json.dumps(fin[-1] if fin else {})[:300], json.dumps(e, sort_keys=True)[:600]))


def run(ctx):
    quick = ctx.quick
    ctx.rule = ("MC: exhaustive exploration of MCPublishPlan (every layout of at most MaxShares shares of two versions / damaged "
                "prefixes over the servers x which servers the survey reached x slots marked bad x servers without upload "
                "permission x changes of the grid behind the publisher's back x request outcomes x SDMF/MDMF) against the "
                "contract invariants.  TRACE: real publishes (upload(servermap)), in-place MDMF updates and modify() retry "
                "loops on seeded layouts of real storage servers (gaps, missing / duplicate / stale / competing / damaged "
                "shares, crowded servers, servers without upload permission, out-of-date servermaps, failing requests); one "
                "execution = one operation; every request, answer, disk change, the servermap before and after, the result "
                "and a fresh download are judged by TLC.  Non-trivial: the layout is not the plain placement of one version, "
                "or the map is out of date, or a request fails, or a server lacks upload permission, or the operation is "
                "not a plain publish.")
    ctx.assumptions += [
        "TLC and the CommunityModules",
        "a stored share is abstracted to the code of its checkstring (version id, damaged-prefix id); share validity "
        "(blocks against block hash tree, share hash chain, root hash) is computed from the bytes with allmydata.hashtree",
        "requests are observed as slot_testv_and_readv_and_writev calls parked on the SimGrid; the servermap is observed "
        "through its public methods only; contents through download_best_version of an independent node",
        "all servers of the grid are connected; failing requests fail with an exception or a lost connection, never silently",
        "one writer per scenario: competing writes are modelled as changes of the grid between survey and writes "
        "(concurrent publishers are the subject of C12 / C47)",
    ]
    for name, consts, invs, props, expect in mc_runs(quick):
        ctx.constants["MC " + name] = dict(consts)
        cfg = cfg_text(consts, invs, props)
        if expect is not None:
            # every violated invariant is to be named (-continue); do not explore beyond a state with an invalid share
            cfg += "CONSTRAINT X_WrittenSharesAreValid\n"
        r = ctx.mc("mutable/MCPublishPlan", cfg, name="MC publish plan: " + name, timeout=3000,
                   expect_ok=(expect is None), cont=(expect is not None))
        if os.environ.get("VERIF_SKIP_MC"):
            continue
        for inv in expect or []:
            if inv in r.violated:
                ctx.report(key="spec:MCPublishPlan:%s" % inv,
                           what="TLC: %s is violated by the model of the code as written (%s)" % (inv, name),
                           replay={"kind": "tlc-counterexample", "module": "mutable/MCPublishPlan", "tlc_output": r.out[-12000:]})
            else:
                ctx.report(key="spec:MCPublishPlan:deviation_not_detected:%s" % inv,
                           what="the model of the code as written (%s) does not violate %s: the invariant is vacuous" % (name, inv))

    n = 130 if quick else 1500
    traces = ctx.impl("harness/publishproto_driver.py", ["--n", n], timeout=6000)
    ops = collections.Counter()
    results = collections.Counter()
    nwrites = nfault = 0
    for tr in traces:
        c = tr["consts"]
        evs = tr["events"]
        if any(e["ev"] == "Skip" for e in evs):
            ctx.count(None)
            continue
        fin = [e for e in evs if e["ev"] == "Finish"]
        ops[c["op"]] += 1
        results[(c["op"], fin[-1]["res"] if fin else "-")] += 1
        w = [e for e in evs if e["ev"] == "Write"]
        nwrites += len(w)
        nfault += sum(1 for e in w if e["fault"])
        plain = (c["pattern"] == "front" and not c["plan"].get("interf") and not c["unperm"] and not c["markbad"]
                 and not any(e["fault"] for e in w) and c["op"] == "publish")
        key = None
        if not plain:
            lay = [e for e in evs if e["ev"] == "Layout"]
            key = json.dumps([c["op"], c["fmt"], c["K"], c["N"], c["unperm"], c["markbad"], [x["L"] for x in lay],
                              [(e["s"], e["sh"], e["fault"]) for e in w]], sort_keys=True)
        ctx.count(key)
    ctx.notes.append("%d operations (%s); results %s; %d requests delivered, %d of them failed or lost their answer" % (
        sum(ops.values()), json.dumps(ops, sort_keys=True), json.dumps({"%s:%s" % k: v for k, v in sorted(results.items())}),
        nwrites, nfault))
    for tr in traces[:3]:
        ctx.sample({"consts": tr["consts"], "events": tr["events"][:6]}, limit=3)

    # one TLC run for all encodings: TracePublishPlan instantiates PublishPlan with the K, N of each trace
    ctx.trace("mutable/TracePublishPlan", traces, key_of=key_of, what_of=what_of, batch=600, workers=4,
              name="TRACE mutable/TracePublishPlan")
