--------------------------- MODULE TracePublishPlan ---------------------------
(* Trace validation of real mutable publishes (harness/publishproto_driver.py) against PublishPlan.tla.

   consts: K, N (per trace: PublishPlan is instantiated with the encoding of the trace, so that one TLC run
   validates the traces of all encodings), servers (= the permuted list of the connected
   servers, Publish.full_serverlist), perm (servers with upload permission), fmt, vers (version id ->
   [seq, rh]), op ("publish" | "update" | "modify"), base (version an update / modify started from).
   events: Layout, Map, Send, Interfere, Write, Finish, Modifier, After, SetupFailed (see the driver).

   Replayed state: L (server -> shnum -> checkstring code on disk), the servermap (M, Bad, reach), the
   publisher P (PublishPlan), ghosts.  The verdict of an event is the name of the first clause that fails
   ("" = accepted).  Clauses X_* state the contract (see PublishPlan.tla for the sources), conf_* clauses say
   that the recording is not a behaviour of the Spec for a reason outside the contract.  The clauses that
   describe known disagreements between the documents and the code are evaluated last (at the end of a trace),
   so that they cannot hide another rejection of the same trace. *)
EXTENDS Common, Json, IOUtils, TLCExt

Traces == JsonDeserialize(IOEnv.TRACE_FILE)

VARIABLES tid, l, L, mp, P, gh, bad
tvars == <<tid, l, L, mp, P, gh, bad>>

C == Traces[tid].consts
Events == Traces[tid].events
Ev == Events[l]

\* PublishPlan (a constant module) instantiated with the encoding of the current trace; the operators used below
PL(k, n) == INSTANCE PublishPlan WITH K <- k, N <- n
K == C.K
N == C.N
Shnums == 0..(N - 1)
Genuine(c) == c > 0 /\ c < 100
KnownShares(M) == PL(K, N)!KnownShares(M)
NewSeq(V2, M) == PL(K, N)!NewSeq(V2, M)
PublishGoalOf(M, B, ord, perm) == PL(K, N)!PublishGoalOf(M, B, ord, perm)
Slots0(M, B) == PL(K, N)!Slots0(M, B)
UpdateGoalDoc(M, b) == PL(K, N)!UpdateGoalDoc(M, b)
TestOf(M, B, p) == PL(K, N)!TestOf(M, B, p)
Passes(c, t) == PL(K, N)!Passes(c, t)
ReadsOf(Ls) == PL(K, N)!ReadsOf(Ls)
Start(fmt, M, B, goal, newc) == PL(K, N)!Start(fmt, M, B, goal, newc)
GotAnswer(P2, s, sh, wrote, reads) == PL(K, N)!GotAnswer(P2, s, sh, wrote, reads)
ConnProblem(P2, s, sh) == PL(K, N)!ConnProblem(P2, s, sh)
Results(P2) == PL(K, N)!Results(P2)
MapSaw(M, B, p) == PL(K, N)!MapSaw(M, B, p)
ForeignIn(M, B, goal, newc, s, reads) == PL(K, N)!ForeignIn(M, B, goal, newc, s, reads)
Untried(ord, perm, tried) == PL(K, N)!Untried(ord, perm, tried)
PlanFails(M, B, ord, perm) == PL(K, N)!PlanFails(M, B, ord, perm)
Best(V2, M) == PL(K, N)!Best(V2, M)
Servers == ToSet(C.servers)
Perm == ToSet(C.perm)
ShNum(str) == CHOOSE i \in Shnums : ToString(i) = str
\* version table for MaxSeq / Best: rh only breaks ties
V == [i \in 1..Len(C.vers) |-> [seq |-> C.vers[i].seq, rh |-> C.vers[i].rh, content |-> i, signer |-> "owner"]]

\* JSON object server -> {shnum string -> number} as a total map; share numbers outside 0..N-1 do not occur
Row(o) == [sh \in Shnums |-> IF ToString(sh) \in DOMAIN o THEN o[ToString(sh)] ELSE 0]
Grid(o) == [s \in Servers |-> IF s \in DOMAIN o THEN Row(o[s]) ELSE [sh \in Shnums |-> 0]]
Reads(o) == [sh \in {ShNum(x) : x \in DOMAIN o} |-> o[ToString(sh)]]
BadSet(seq) == {[s |-> seq[i].s, sh |-> ShNum(seq[i].sh), c |-> seq[i].cs] : i \in 1..Len(seq)}

NoMap == [M |-> [s \in ToSet(Traces[tid].consts.servers) |-> [sh \in Shnums |-> 0]], Bad |-> {}, reach |-> {}, have |-> FALSE]
NoP == [goal |-> {}, newc |-> 0, pend |-> {}, live |-> {}, acked |-> {}, sfor |-> {}, cands |-> {}]
(* ghosts
   sent      a Send was seen in the current attempt       att   number of Sends so far
   failed    some test failed in the current attempt       foreign  an answer showed an unseen foreign share
   faults    requests of the current attempt that ended in a connection error
   unperm    the publisher wrote (in place) to a server without upload permission
   stored    slots that held the new version at some moment (current attempt)
   othergoal slots of an in-place update that held another version than the updated one
   res       result of the operation ("" = not finished)
   lastold   version whose contents the modifier was last given; oldmiss: it was not the best version of the map *)
G0 == [sent |-> FALSE, att |-> 0, failed |-> FALSE, foreign |-> FALSE, faults |-> 0, unperm |-> FALSE, stored |-> {},
       res |-> "", newseq |-> 0, othergoal |-> {}, lastold |-> {}, oldmiss |-> FALSE]

Vd(c, L2, m2, P2, g2) == [c |-> c, L |-> L2, mp |-> m2, P |-> P2, gh |-> g2]
Rej(c) == Vd(c, L, mp, P, gh)
Same == Vd("", L, mp, P, gh)

(* ------------------------------------------------------------------------------------------------ *)
VLayout(e) == Vd("", Grid(e.L), mp, P, gh)

VMap(e) ==
  LET M == Grid(e.M)
      B == BadSet(e.bad)
  IN IF \E s \in Servers, sh \in Shnums : M[s][sh] # 0 /\ ~Genuine(M[s][sh]) THEN Rej("conf_map_entry_of_unknown_version")
     ELSE Vd("", L, [M |-> M, Bad |-> B, reach |-> ToSet(e.reach), have |-> TRUE], P, gh)

ReqSlot(r) == <<r.s, ShNum(r.sh)>>
VSend(e) ==
  LET reqs == e.reqs
      idx == 1..Len(reqs)
      goal == {ReqSlot(reqs[i]) : i \in idx}
      M == mp.M
      B == mp.Bad
      \* an in-place update never places a new share; an update() that re-encodes the whole file (SDMF, or because it
      \* cannot work in place) is a publish and is judged as one
      isupd == C.op = "update" /\ goal \subseteq KnownShares(M)
      want == PublishGoalOf(M, B, C.servers, Perm)
      newseq == IF e.newc \in 1..Len(C.vers) THEN C.vers[e.newc].seq ELSE 0
      g2 == [gh EXCEPT !.sent = TRUE, !.att = @ + 1, !.failed = FALSE, !.foreign = FALSE, !.faults = 0, !.stored = {},
                       !.newseq = newseq,
                       !.unperm = @ \/ \E p \in goal : p[1] \notin Perm,
                       !.othergoal = IF isupd THEN {p \in goal : M[p[1]][p[2]] # C.base} ELSE {},
                       \* modify: "old = retrieve_best_version()" - judged at the end of the trace
                       !.oldmiss = @ \/ (C.op = "modify" /\ Best(V, M) \notin gh.lastold)]
  IN IF ~mp.have THEN Rej("conf_send_without_map")
     ELSE IF P.pend # {} THEN Rej("X_new_requests_before_all_answers")
     ELSE IF Cardinality(goal) # Len(reqs) \/ \E i \in idx : reqs[i].nshares # 1 THEN Rej("conf_one_request_per_slot")
     ELSE IF e.conflict \/ e.newc = 0 \/ \E i \in idx : reqs[i].newc # e.newc THEN Rej("X_requests_carry_one_new_version")
     ELSE IF \E i \in idx : ~reqs[i].si_ok THEN Rej("X_storage_index")
     ELSE IF \E i \in idx : ~reqs[i].we_ok THEN Rej("X_write_enabler_of_that_server")
     ELSE IF \E i \in idx : ~reqs[i].lease_ok THEN Rej("X_lease_secrets_of_that_server")
     \* the seqnum: one above everything the map has seen (and thus above every version it may replace)
     ELSE IF newseq # NewSeq(V, M) THEN Rej("X_new_seqnum")
     \* ---- the goal
     ELSE IF ~isupd /\ {p[2] : p \in goal} # Shnums THEN Rej("X_goal_covers_all_shares")
     ELSE IF ~isupd /\ ~(Slots0(M, B) \subseteq goal) THEN Rej("X_goal_keeps_known_and_bad_slots")
     ELSE IF ~isupd /\ \E p \in goal \ Slots0(M, B) : p[1] \notin Perm THEN Rej("X_new_share_on_server_without_permission")
     ELSE IF ~isupd /\ goal # want THEN Rej("X_goal_placement")
     ELSE IF isupd /\ ~(UpdateGoalDoc(M, C.base) \subseteq goal) THEN Rej("X_update_skips_share_of_its_version")
     \* ---- the test vectors: every write is conditional on exactly what the map saw in that slot
     ELSE IF \E i \in idx : reqs[i].test.kind \notin {"eq", "absent"} THEN Rej("X_test_vector_missing")
     ELSE IF \E i \in idx : reqs[i].test.kind = "eq" /\ reqs[i].test.short THEN Rej("X_test_vector_too_short")
     ELSE IF \E i \in idx : LET t == TestOf(M, B, ReqSlot(reqs[i]))
                            IN reqs[i].test.kind # t.kind \/ reqs[i].test.c # t.c THEN Rej("X_test_vector")
     ELSE Vd("", L, mp, Start(C.fmt, M, B, goal, e.newc), g2)

\* somebody else changed the grid; the following Layout event carries the new ground truth
VInterfere(e) == Same

VWrite(e) ==
  LET s == e.s
      sh == ShNum(e.sh)
      p == <<s, sh>>
      pre == L[s]
      obs == Row(e.obs)
      t == TestOf(mp.M, mp.Bad, p)
      executed == e.fault \notin {"raise", "disconnect"}
      pass == Passes(pre[sh], t)
      post == IF executed /\ pass THEN [pre EXCEPT ![sh] = P.newc] ELSE pre
      answered == e.fault = ""
      reads == Reads(e.reads)
      P2 == IF answered THEN GotAnswer(P, s, sh, e.wrote, reads) ELSE ConnProblem(P, s, sh)
      g2 == [gh EXCEPT !.failed = @ \/ (answered /\ ~e.wrote),
                       !.foreign = @ \/ (answered /\ ForeignIn(mp.M, mp.Bad, P.goal, P.newc, s, reads)),
                       !.faults = IF answered THEN @ ELSE @ + 1,
                       !.stored = IF obs[sh] = P.newc THEN @ \cup {p} ELSE @]
  IN IF p \notin P.pend THEN Rej("conf_write_not_a_pending_request")
     \* the real step: a share changes only in the slot of the request, only to the new version, and only if it
     \* held exactly what the map saw there (nothing, if the map saw nothing)
     ELSE IF \E x \in Shnums : obs[x] # pre[x] /\ ~(x = sh /\ obs[x] = P.newc /\ pre[x] = MapSaw(mp.M, mp.Bad, p))
       THEN Rej("X_write_not_conditional_on_what_the_map_saw")
     ELSE IF ~executed /\ obs # pre THEN Rej("conf_failed_request_changed_state")
     ELSE IF executed /\ e.wrote # pass THEN Rej("conf_server_test_verdict")
     ELSE IF executed /\ obs # post THEN Rej("conf_server_state_after_write")
     ELSE IF executed /\ DOMAIN reads # DOMAIN ReadsOf(pre) THEN Rej("conf_reads_reflect_prestate")
     ELSE IF executed /\ \E x \in DOMAIN reads : reads[x] # pre[x] THEN Rej("conf_reads_reflect_prestate")
     ELSE Vd("", [L EXCEPT ![s] = obs], mp, P2, g2)

Documented == {"ok", "UCWE", "NotEnough", "NotEnoughShares", "Unrecoverable"}
Retrying == C.op \in {"modify", "update"}
BaseShnums(M) == {p[2] : p \in UpdateGoalDoc(M, C.base)}
\* the grid holds a recoverable version (all servers connected): some genuine code on K distinct share numbers
GridRecoverable == \E c \in 1..Len(C.vers) : Cardinality({sh \in Shnums : \E s \in Servers : L[s][sh] = c}) >= K

VFinish(e) ==
  LET published == gh.sent /\ P.goal # {}
      nack == Cardinality({p[2] : p \in P.acked})
      g2 == [gh EXCEPT !.res = e.res]
  IN IF gh.res # "" THEN Rej("conf_finish_twice")
     ELSE IF e.res = "hang" THEN Rej("X_operation_never_finishes")
     ELSE IF published /\ P.pend # {} THEN Rej("X_finish_before_all_answers")
     \* ---- a publish that sent its requests
     ELSE IF published /\ e.res = "ok" /\ gh.failed THEN Rej("X_failed_test_vector_not_reported")
     ELSE IF published /\ e.res = "ok" /\ gh.foreign THEN Rej("X_foreign_share_not_reported")
     ELSE IF published /\ e.res = "ok" /\ nack < K THEN Rej("X_success_with_fewer_than_k_shares")
     \* upload() has no retry loop: its result is the result of its one publish.  modify() and update() run the loop of
     \* MutableFileVersion.modify (update() when it re-encodes the file): an attempt that met another writer is repeated, the
     \* loop may give up with the error of a later step; only a success must be the success of the last publish
     ELSE IF published /\ e.res \in Documented /\ ~Retrying /\ e.res \notin Results(P) THEN Rej("X_result")
     ELSE IF published /\ Retrying /\ e.res = "ok" /\ "ok" \notin Results(P) THEN Rej("X_result")
     \* ---- results outside the documented ones (keyed by operation and exception class)
     ELSE IF e.res \notin Documented THEN Rej("X_undocumented_error")
     \* ---- nothing was sent
     ELSE IF ~gh.sent /\ e.res = "ok" THEN Rej("X_success_without_writing")
     ELSE IF ~gh.sent /\ C.op = "publish" /\ ~(e.res = "NotEnough" /\ PlanFails(mp.M, mp.Bad, C.servers, Perm))
       THEN Rej("conf_publish_gave_up_before_sending")
     ELSE Vd("", L, mp, P, g2)

\* the modifier of a modify() was called with the contents of version e.oldc
VModifier(e) == Vd("", L, mp, P, [gh EXCEPT !.lastold = ToSet(e.oldc)])

VAfter(e) ==
  LET M2 == Grid(e.M)
      D == Grid(e.L)
      newv == P.newc
      ok == gh.res = "ok"
      cls(s, sh) == e.cls[s][ToString(sh)]
      holdsNew == {p \in Servers \X Shnums : D[p[1]][p[2]] = newv}
      invalid == {p \in holdsNew : cls(p[1], p[2]) # "intact"}
      mapok == ~e.mapmoved
      newest == \A p \in Servers \X Shnums : LET c == D[p[1]][p[2]] IN Genuine(c) /\ c # newv /\ c <= Len(C.vers) => C.vers[c].seq < C.vers[newv].seq
  IN IF D # L THEN Rej("conf_final_state")
     ELSE IF ~gh.sent THEN
          \* known disagreements, judged last
          (IF C.op = "update" /\ gh.res = "NotEnough" /\ Cardinality(BaseShnums(mp.M)) >= K /\ mp.have
             THEN Rej("X_update_gives_up_although_k_shares_known")
           ELSE Same)
     \* ---- the servermap afterwards: it claims the new version exactly where a write was acknowledged
     ELSE IF mapok /\ \E p \in Servers \X Shnums : M2[p[1]][p[2]] = newv /\ p \notin gh.stored THEN Rej("X_map_claims_share_that_was_never_written")
     ELSE IF mapok /\ \E p \in P.acked : M2[p[1]][p[2]] # newv THEN Rej("X_map_misses_acknowledged_share")
     ELSE IF mapok /\ \E p \in (Servers \X Shnums) \ P.acked : M2[p[1]][p[2]] # mp.M[p[1]][p[2]] THEN Rej("X_map_entry_changed_without_write")
     ELSE IF ok /\ e.best # newv THEN Rej("X_map_best_version_after_success")
     \* ---- success: the new version is on k share numbers (every stored copy of it is a valid share and readers get it: below)
     ELSE IF ok /\ Cardinality({p[2] : p \in holdsNew}) < K THEN Rej("X_success_but_not_recoverable")
     ELSE IF ok /\ gh.faults = 0 /\ C.op # "update" /\ {p[2] : p \in holdsNew} # Shnums THEN Rej("X_success_without_all_shares")
     ELSE IF ok /\ gh.faults = 0 /\ holdsNew # P.goal THEN Rej("X_success_without_whole_goal")
     \* ---- whatever carries the new version's checkstring is a valid share of it (a share of another version that an in-place
     \*      update rewrote: known disagreement); then: an independent reader that sees every server gets the new contents
     ELSE IF invalid # {} /\ ~(invalid \subseteq gh.othergoal) THEN Rej("X_written_share_invalid")
     ELSE IF invalid # {} THEN Rej("X_update_corrupts_share_of_other_version")
     ELSE IF ok /\ newv \notin ToSet(e.dl) /\ newest /\ C.op = "update" /\ gh.att >= 2 THEN Rej("X_update_retry_publishes_other_contents")
     \* (a version of the same or a higher seqnum that the survey could not see may still win: "server unavailability counts against us")
     ELSE IF ok /\ newv \notin ToSet(e.dl) /\ newest THEN Rej("X_reader_does_not_get_the_new_version")
     \* ---- known disagreements between documents and code, judged last
     ELSE IF Retrying /\ gh.res \in {"NotEnoughShares", "Unrecoverable"} /\ GridRecoverable
       THEN Rej("X_modify_gives_up_on_recoverable_file")
     ELSE IF gh.oldmiss THEN Rej("X_modify_retry_reads_old_version")
     ELSE IF ok /\ gh.faults > 0 /\ {p[2] : p \in P.acked} # Shnums /\ C.op # "update"
             /\ Untried(C.servers, Perm, {p[1] : p \in P.goal}) # <<>>
       THEN Rej("X_failed_server_not_replaced")
     ELSE IF gh.unperm THEN Rej("X_write_to_server_without_upload_permission")
     ELSE Same

Verdict(e) ==
  CASE e.ev = "Layout"    -> VLayout(e)
    [] e.ev = "Map"       -> VMap(e)
    [] e.ev = "Send"      -> VSend(e)
    [] e.ev = "Interfere" -> VInterfere(e)
    [] e.ev = "Write"     -> VWrite(e)
    [] e.ev = "Finish"    -> VFinish(e)
    [] e.ev = "Modifier"  -> VModifier(e)
    [] e.ev = "After"     -> VAfter(e)
    [] e.ev = "Skip"      -> Same
    [] e.ev = "SetupFailed" -> Rej("conf_setup_failed")
    [] OTHER              -> Rej("unknown_event")

TraceInit ==
  /\ tid \in 1..Len(Traces)
  /\ l = 1
  /\ L = [s \in ToSet(Traces[tid].consts.servers) |-> [sh \in Shnums |-> 0]]
  /\ mp = NoMap
  /\ P = NoP
  /\ gh = G0
  /\ bad = "none"

TraceNext ==
  /\ bad = "none"
  /\ l <= Len(Events)
  /\ LET v == Verdict(Ev) IN
       IF v.c = ""
         THEN /\ L' = v.L /\ mp' = v.mp /\ P' = v.P /\ gh' = v.gh /\ l' = l + 1 /\ bad' = "none"
              /\ (l = Len(Events) => PrintT(<<"VF_ACCEPT", tid, l>>))
         ELSE /\ bad' = v.c /\ UNCHANGED <<L, mp, P, gh, l>>
              /\ PrintT(<<"VF_REJECT", tid, l, v.c>>)
  /\ UNCHANGED tid

TraceSpec == TraceInit /\ [][TraceNext]_tvars
TraceOK == bad = "none"
=============================================================================
