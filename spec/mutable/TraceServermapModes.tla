------------------------- MODULE TraceServermapModes -------------------------
(* Trace validation of real servermap updates (harness/servermap_driver.py) against
   ServermapModes.tla.

   Events of a trace
     Layout   ground truth: which share of which version (and tamper class) sits on which
              server; `up` = the connected servers in permuted order
     Start    an update begins: mode, fresh servermap or the one left by the previous update,
              whether the node holds the private key
     Send     a query (slot_readv of all shares) went out to server s
     Ans      the answer of s has been processed (kind ok | fail): the entries and bad marks
              the servermap now has for s, whether the node holds the private key now
     Done     update() fired: the whole servermap as reported by its public methods
     MarkBad  the caller called mark_bad_share(s, sh); the servermap as reported afterwards
   The verdict for an event is the name of the first clause that does not hold. *)
EXTENDS ServermapModes, Json, IOUtils, TLCExt

Traces == JsonDeserialize(IOEnv.TRACE_FILE)

VARIABLES tid, l, S, bad
tvars == <<tid, l, S, bad>>

C == Traces[tid].consts
Events == Traces[tid].events
Ev == Events[l]
V == SubSeq(C.vers, 1, S.nv)
Srv == ToSet(C.servers)

NormL(j) == [s \in Srv |-> [sh \in Shnums |->
               IF s \in DOMAIN j /\ ToString(sh) \in DOMAIN j[s]
                 THEN [v |-> j[s][ToString(sh)].v, cls |-> j[s][ToString(sh)].cls] ELSE Absent]]
NormM(j) == [s \in Srv |-> [sh \in Shnums |->
               IF s \in DOMAIN j /\ ToString(sh) \in DOMAIN j[s] THEN j[s][ToString(sh)] ELSE 0]]
NormRow(j) == [sh \in Shnums |-> IF ToString(sh) \in DOMAIN j THEN j[ToString(sh)] ELSE 0]
BadOf(B, s) == {sh \in Shnums : <<s, sh>> \in B}

R(c, s) == [c |-> c, s |-> s, n |-> ""]
OK(s) == [c |-> "", s |-> s, n |-> ""]
Noted(n, s) == [c |-> "", s |-> s, n |-> n]      \* accepted, with a non-verdict observation
NoUpd == [active |-> FALSE]

(* ---- the ServerMap's reports against the Spec's functions of the map ----------------- *)
IdsOK(e) == /\ \A s \in DOMAIN e.M : \A k \in DOMAIN e.M[s] : e.M[s][k] \in 1..Len(V)
            /\ \A i \in 1..Len(e.rec) : e.rec[i] \in 1..Len(V)
            /\ \A i \in 1..Len(e.unrec) : e.unrec[i] \in 1..Len(V)
            /\ e.best \in 0..Len(V)
AvailOK(e, M) ==
  /\ {ToString(v) : v \in VersIn(M)} = DOMAIN e.avail
  /\ \A v \in VersIn(M) : e.avail[ToString(v)] = <<SharesAvailable(M)[v], K, N>>
NewerOK(e, M) ==
  /\ {ToString(v) : v \in UnrecNewer(V, M)} = DOMAIN e.newer
  /\ \A v \in UnrecNewer(V, M) : e.newer[ToString(v)] = <<Cardinality(ShnumsOf(M, v)), K>>
SharemapOK(e, M) ==
  /\ {ToString(sh) : sh \in SharemapShnums(M)} = DOMAIN e.sharemap
  /\ \A sh \in SharemapShnums(M) : ToSet(e.sharemap[ToString(sh)]) = Sharemap(M)[sh]
PerServerOK(e, M) ==
  /\ {ToString(v) : v \in VersIn(M)} = DOMAIN e.persrv
  /\ \A v \in VersIn(M) : ToSet(e.persrv[ToString(v)]) = ServersOf(M, v)
OnServerOK(e, M) ==
  /\ {p[1] \o "/" \o ToString(p[2]) : p \in KnownShares(M)} = DOMAIN e.onsrv
  /\ \A p \in KnownShares(M) : e.onsrv[p[1] \o "/" \o ToString(p[2])] = M[p[1]][p[2]]
ApiClause(e, M) ==
  IF ToSet(e.rec) # Recoverable(M) \/ e.nrec # Cardinality(Recoverable(M)) THEN "api_recoverable_versions"
  ELSE IF ToSet(e.unrec) # Unrecoverable(M) \/ e.nunrec # Cardinality(Unrecoverable(M)) THEN "api_unrecoverable_versions"
  ELSE IF e.best # Best(V, M) THEN "api_best_recoverable_version"
  ELSE IF ~AvailOK(e, M) THEN "api_shares_available"
  ELSE IF ~SharemapOK(e, M) THEN "api_make_sharemap"
  ELSE IF ~NewerOK(e, M) THEN "api_unrecoverable_newer_versions"
  ELSE IF e.merge # NeedsMerge(V, M) THEN "api_needs_merge"
  ELSE IF e.hiseq # MaxSeq(V, M) THEN "api_highest_seqnum"
  ELSE IF ToSet(e.allsrv) # AllServers(M) THEN "api_all_servers"
  ELSE IF ~PerServerOK(e, M) THEN "api_all_servers_for_version"
  ELSE IF ~OnServerOK(e, M) THEN "api_version_on_server"
  ELSE ""

(* ---- events ------------------------------------------------------------------------------ *)
VLayout(e) ==
  IF S.u.active THEN R("harness_layout_during_update", S)
  ELSE OK([S EXCEPT !.L = NormL(e.L), !.up = e.up, !.nv = e.nv])

VStart(e) ==
  LET M0 == IF e.fresh THEN EmptyMap(Srv) ELSE S.M
      B0 == IF e.fresh THEN {} ELSE S.B
      np == e.mode \in PrivModes /\ ~e.priv
  IN IF e.mode \notin Modes THEN R("harness_unknown_mode", S)
     ELSE OK([S EXCEPT !.M = M0, !.B = B0,
                       !.reach = IF e.fresh THEN {} ELSE S.reach,
                       !.asked = IF e.fresh THEN {} ELSE S.asked,
                       !.unreach = IF e.fresh THEN {} ELSE S.unreach,
                       !.u = [active |-> TRUE, mode |-> e.mode, sent |-> {}, ans |-> {}, fail |-> {}, nans |-> 0,
                              view |-> [s \in Srv |-> "?"], must |-> AllServers(M0), needpriv |-> np, priv0 |-> np,
                              badonly |-> FALSE]])

UpCls(u) == Views(S.up, u.view)
Completed(u) == Cardinality(u.ans \cup u.fail)

VSend(e) ==
  LET u == S.u
      T == [S EXCEPT !.u.sent = u.sent \cup {e.s}, !.asked = S.asked \cup {e.s}]
  IN IF ~u.active \/ e.s \notin ToSet(S.up) THEN R("harness_send_outside_update", S)
     ELSE IF u.nans > 0 /\ GoalMet(V, u.mode, UpCls(u), S.M, Completed(u), u.needpriv)
          THEN R("thrift_" \o u.mode \o (IF u.badonly THEN "_badonly_server" ELSE ""), T)
     ELSE IF e.s \in u.sent THEN Noted("server_asked_twice_in_one_update", T)
     ELSE OK(T)

VAns(e) ==
  LET u == S.u
      s == e.s
      Ls == S.L[s]
      Bs == BadOf(S.B, s)
      row == NormRow(e.row)
      allbad == ToSet(e.bad)
      newbad == allbad \ Bs
      ok == e.kind = "ok"
      M2 == [S.M EXCEPT ![s] = row]
      B2 == S.B \cup {<<s, sh>> : sh \in newbad}
      vw == ViewOf(V, IF ok THEN "ok" ELSE "fail", Ls, row, newbad)
      bo == ok /\ newbad = {} /\ ~HoldsNothing(Ls) /\ (\A sh \in Shnums : row[sh] = 0 /\ ~Corrupt(V, Ls[sh]))
      np2 == u.needpriv /\ ~e.priv
      T == [S EXCEPT !.M = M2, !.B = B2,
                     !.u.ans = IF ok THEN u.ans \cup {s} ELSE u.ans,
                     !.u.fail = IF ok THEN u.fail ELSE u.fail \cup {s},
                     !.u.nans = u.nans + 1,
                     !.u.view = [u.view EXCEPT ![s] = vw],
                     !.u.needpriv = np2,
                     !.u.badonly = u.badonly \/ bo]
  IN IF ~u.active \/ s \notin u.sent THEN R("harness_answer_without_query", S)
     ELSE IF \E sh \in Shnums : row[sh] # 0 /\ row[sh] \notin 1..Len(V) THEN R("map_holds_unknown_version", T)
     ELSE IF u.nans = 0 /\ Cardinality(u.sent) < InitialCount(u.mode, Len(S.up)) THEN R("initial_batch_too_small_" \o u.mode, T)
     ELSE IF u.nans = 0 /\ ~(u.must \cap ToSet(S.up) \subseteq u.sent) THEN R("old_map_server_not_asked", T)
     ELSE IF ~ok THEN
          (IF row # S.M[s] \/ newbad # {} THEN R("failed_query_changed_map", T) ELSE OK(T))
     ELSE IF \E sh \in Shnums : row[sh] # 0 /\ sh \in Bs THEN R("bad_share_readded", T)
     ELSE IF \E sh \in Shnums : row[sh] # 0 /\ ~Present(Ls[sh]) THEN R("stale_entry_survives_update", T)
     ELSE IF \E sh \in Shnums : row[sh] # 0 /\ ~(MayAccept(V, Ls[sh]) /\ row[sh] = Ls[sh].v) THEN R("map_accepts_invalid", T)
     ELSE IF \E sh \in Shnums : MustAccept(V, Ls[sh]) /\ sh \notin Bs /\ row[sh] # Ls[sh].v THEN R("map_drops_valid", T)
     ELSE IF \E sh \in Shnums : Corrupt(V, Ls[sh]) /\ sh \notin allbad THEN R("corrupt_share_not_recorded", T)
     ELSE IF \E sh \in newbad : ~(Corrupt(V, Ls[sh]) \/ Soft(V, Ls[sh])) THEN R("good_share_marked_bad", T)
     ELSE IF ~(Bs \subseteq allbad) THEN R("bad_mark_forgotten", T)
     ELSE IF ToSet(e.badcs) \cap newbad # {} THEN R("bad_share_checkstring_wrong", T)
     ELSE IF u.needpriv /\ PrivMust(V, Ls) /\ ~e.priv THEN R("privkey_not_fetched", T)
     ELSE IF u.needpriv /\ e.priv /\ ~PrivMay(V, Ls) THEN R("privkey_from_nowhere", T)
     ELSE OK(T)

VDone(e) ==
  LET u == S.u
      M == S.M
      T == [S EXCEPT !.u = NoUpd, !.reach = S.reach \cup u.ans, !.unreach = S.unreach \cup u.fail]
      api == ApiClause(e, M)
  IN IF ~u.active THEN R("harness_done_outside_update", S)
     ELSE IF e.res = "hang" THEN R("update_never_finishes", T)
     ELSE IF e.res # "ok" THEN R("update_fails", T)
     ELSE IF ~IdsOK(e) THEN R("map_holds_unknown_version", T)
     ELSE IF ~PostOK(V, u.mode, UpCls(u), M, Completed(u), u.needpriv) THEN R("finished_too_early_" \o u.mode, T)
     ELSE IF ~(u.must \cap ToSet(S.up) \subseteq u.ans \cup u.fail) THEN R("old_map_server_not_heard", T)
     ELSE IF NormM(e.M) # M THEN R("final_map_differs_from_answers", T)
     ELSE IF {<<e.bad[i][1], e.bad[i][2]>> : i \in 1..Len(e.bad)} # S.B THEN R("bad_shares_differ", T)
     \* (answers that arrive after an update has fired still mark their server reachable)
     ELSE IF ~(T.reach \subseteq ToSet(e.reach)) \/ ~(ToSet(e.reach) \subseteq S.asked) THEN R("reachable_servers_wrong", T)
     ELSE IF ~(T.unreach \subseteq ToSet(e.unreach)) \/ ~(ToSet(e.unreach) \subseteq S.asked) THEN R("unreachable_servers_wrong", T)
     ELSE IF e.lastmode # u.mode THEN R("last_update_mode_wrong", T)
     ELSE IF api # "" THEN R(api, T)
     ELSE IF e.late_changed THEN R("late_answer_changed_map", T)
     ELSE OK(T)

VMarkBad(e) ==
  LET M2 == MarkBadM(S.M, e.s, e.sh)
      B2 == MarkBadB(S.B, e.s, e.sh)
      T == [S EXCEPT !.M = M2, !.B = B2]
      api == ApiClause(e, M2)
  IN IF S.u.active THEN R("harness_markbad_during_update", S)
     ELSE IF NormM(e.M) # M2 THEN R("mark_bad_share_keeps_entry", T)
     ELSE IF {<<e.bad[i][1], e.bad[i][2]>> : i \in 1..Len(e.bad)} # B2 THEN R("mark_bad_share_not_recorded", T)
     ELSE IF api # "" THEN R(api, T)
     ELSE OK(T)

Verdict(e) ==
  CASE e.ev = "Layout"  -> VLayout(e)
    [] e.ev = "Start"   -> VStart(e)
    [] e.ev = "Send"    -> VSend(e)
    [] e.ev = "Ans"     -> VAns(e)
    [] e.ev = "Done"    -> VDone(e)
    [] e.ev = "MarkBad" -> VMarkBad(e)
    [] OTHER            -> R("harness_unknown_event", S)

TraceInit ==
  /\ tid \in 1..Len(Traces)
  /\ l = 1
  /\ S = [L |-> [s \in ToSet(Traces[tid].consts.servers) |-> [sh \in Shnums |-> Absent]], up |-> <<>>, nv |-> 0,
          M |-> EmptyMap(ToSet(Traces[tid].consts.servers)), B |-> {}, reach |-> {}, unreach |-> {}, asked |-> {}, u |-> NoUpd]
  /\ bad = "none"

TraceNext ==
  /\ bad = "none"
  /\ l <= Len(Events)
  /\ LET r == Verdict(Ev) IN
     IF r.c = ""
       THEN /\ S' = r.s /\ l' = l + 1 /\ bad' = "none"
            /\ (r.n # "" => PrintT(<<"VF_NOTE", tid, l, r.n>>))
            /\ (l = Len(Events) => PrintT(<<"VF_ACCEPT", tid, l>>))
       ELSE /\ bad' = r.c /\ UNCHANGED <<S, l>>
            /\ PrintT(<<"VF_REJECT", tid, l, r.c>>)
  /\ UNCHANGED tid

TraceSpec == TraceInit /\ [][TraceNext]_tvars
TraceOK == bad = "none"
=============================================================================
