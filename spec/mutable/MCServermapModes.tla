--------------------------- MODULE MCServermapModes ---------------------------
(* Model checking of the servermap update policy (ServermapModes.tla).

   A behaviour first builds a layout (which share of which version, intact or
   tampered with, sits on which server of the permuted list), then picks a mode, the
   servers whose queries fail, optionally an older servermap to start from (entries of
   an earlier survey, one of which may be stale because the share vanished, and a slot
   the caller marked bad), and then runs the update: queries go out, answers come back
   (in query order or in any order), and after every answer the completion policy of the
   mode decides to wait, to ask more servers or to finish.

   The invariants state, independently of the decision operator, what must hold when
   the update finishes (per mode), what the map must then contain, and that no server is
   asked once the goal of the mode is met. *)
EXTENDS ServermapModes

CONSTANTS NumServers,    \* servers "s0".."s<n-1>" in permuted order
          NV,            \* versions: 1 = seq 1, 2 = seq 2, 3 = seq 2 with another root hash (competitor), 4 = seq 3 signed by another key
          CellNames,     \* the values a stored share may have: "<version><class letter>", e.g. "2i" (see CellOf)
          MaxShares, MaxPerServer,
          MaxFail,       \* at most this many servers fail their queries
          ModeSet,       \* modes explored
          MaxInFlight,   \* MAX_IN_FLIGHT (5 in the code, "pretty arbitrary"; smaller here so that small grids show early stops)
          Order,         \* "fifo" | "any"
          Prior,         \* "none" | "map": start from the map of an earlier survey (possibly with a stale entry) and a bad mark
          PrivChoices    \* subset of BOOLEAN: whether the node lacks the private key (PrivModes only)

AllVers == <<[seq |-> 1, rh |-> 1, content |-> 1, signer |-> "owner"],
             [seq |-> 2, rh |-> 1, content |-> 2, signer |-> "owner"],
             [seq |-> 2, rh |-> 2, content |-> 3, signer |-> "owner"],
             [seq |-> 3, rh |-> 1, content |-> 4, signer |-> "other"]>>
V == SubSeq(AllVers, 1, NV)
CellTable == [c \in {"1i", "2i", "3i", "4i", "1p", "2p", "1k", "2k", "1b", "2b", "1s", "2s"} |->
               CASE c = "1i" -> [v |-> 1, cls |-> "intact"]    [] c = "2i" -> [v |-> 2, cls |-> "intact"]
                 [] c = "3i" -> [v |-> 3, cls |-> "intact"]    [] c = "4i" -> [v |-> 4, cls |-> "intact"]
                 [] c = "1p" -> [v |-> 1, cls |-> "prefixbad"] [] c = "2p" -> [v |-> 2, cls |-> "prefixbad"]
                 [] c = "1k" -> [v |-> 1, cls |-> "privbad"]   [] c = "2k" -> [v |-> 2, cls |-> "privbad"]
                 [] c = "1b" -> [v |-> 1, cls |-> "bodybad"]   [] c = "2b" -> [v |-> 2, cls |-> "bodybad"]
                 [] c = "1s" -> [v |-> 1, cls |-> "softbad"]   [] c = "2s" -> [v |-> 2, cls |-> "softbad"]]
Cells == {CellTable[c] : c \in CellNames}
Servers == [i \in 1..NumServers |-> "s" \o ToString(i - 1)]
SrvSet == ToSet(Servers)
Pos(s) == CHOOSE i \in 1..NumServers : Servers[i] = s
EmptyL == [s \in SrvSet |-> [sh \in Shnums |-> Absent]]

VARIABLES ph,        \* "setup" | "run" | "done"
          L, nslot, nsh,
          mode, failset, P0, B0, priv0,
          M, B, out, must, ptr, view, ans, fail, completed, needpriv, nq
vars == <<ph, L, nslot, nsh, mode, failset, P0, B0, priv0, M, B, out, must, ptr, view, ans, fail, completed, needpriv, nq>>

Init ==
  /\ ph = "setup" /\ L = EmptyL /\ nslot = 0 /\ nsh = 0
  /\ mode = "READ" /\ failset = {} /\ P0 = EmptyMap(SrvSet) /\ B0 = {} /\ priv0 = FALSE
  /\ M = EmptyMap(SrvSet) /\ B = {} /\ out = {} /\ must = {} /\ ptr = 0
  /\ view = [s \in SrvSet |-> "?"] /\ ans = {} /\ fail = {} /\ completed = 0 /\ needpriv = FALSE /\ nq = 0

(* ------------------------------ building the layout ----------------------------- *)
SlotIx(i, sh) == (i - 1) * N + sh + 1
Place ==
  /\ ph = "setup" /\ nsh < MaxShares
  /\ \E i \in 1..NumServers, sh \in Shnums, c \in Cells :
       /\ SlotIx(i, sh) > nslot
       /\ c.v <= NV
       /\ Cardinality({x \in Shnums : Present(L[Servers[i]][x])}) < MaxPerServer
       /\ L' = [L EXCEPT ![Servers[i]][sh] = c]
       /\ nslot' = SlotIx(i, sh) /\ nsh' = nsh + 1
  /\ UNCHANGED <<ph, mode, failset, P0, B0, priv0, M, B, out, must, ptr, view, ans, fail, completed, needpriv, nq>>

(* ------------------------------- starting an update ------------------------------ *)
Accurate == MapWith(V, L, SrvSet, {})
\* maps an earlier survey may have left: accurate, or with one entry whose share has vanished since
PriorMaps ==
  IF Prior = "none" THEN {EmptyMap(SrvSet)}
  ELSE {Accurate} \cup {[Accurate EXCEPT ![t[1]][t[2]] = t[3]] :
                          t \in {u \in SrvSet \X Shnums \X OwnerVersions(V) : ~Present(L[u[1]][u[2]])}}
BadMarks(Pm) == IF Prior = "none" THEN {{}} ELSE {{}} \cup {{p} : p \in KnownShares(Pm)}
\* _build_initial_querylist: the servers of the old map plus servers popped from the permuted list until enough
Popped(old, cnt) ==
  LET ok(p) == Cardinality(old \cup {Servers[i] : i \in 1..p}) >= cnt
  IN IF \E p \in 0..NumServers : ok(p) THEN CHOOSE p \in 0..NumServers : ok(p) /\ \A q \in 0..(p - 1) : ~ok(q) ELSE NumServers

Go ==
  /\ ph = "setup"
  /\ \E m \in ModeSet, F \in SUBSET SrvSet, Pm \in PriorMaps, np \in PrivChoices :
     \E Bm \in BadMarks(Pm) :
       LET Pr == [s \in SrvSet |-> [sh \in Shnums |-> IF <<s, sh>> \in Bm THEN 0 ELSE Pm[s][sh]]]
           old == AllServers(Pr)
           cnt == InitialCount(m, NumServers)
           p == IF m \in SurveyModes THEN NumServers ELSE Popped(old, cnt)
           initial == IF m \in SurveyModes THEN SrvSet ELSE old \cup {Servers[i] : i \in 1..p}
       IN /\ Cardinality(F) <= MaxFail
          /\ (np => m \in PrivModes)
          /\ mode' = m /\ failset' = F /\ P0' = Pr /\ B0' = Bm /\ priv0' = np
          /\ M' = Pr /\ B' = Bm /\ out' = initial /\ nq' = Cardinality(initial)
          /\ must' = (IF m \in SurveyModes THEN SrvSet ELSE old)
          /\ ptr' = p /\ needpriv' = np
          /\ ph' = "run"
  /\ UNCHANGED <<L, nslot, nsh, view, ans, fail, completed>>

(* ---------------------------------- answers --------------------------------------- *)
FirstOut == CHOOSE s \in out : \A t \in out : Pos(s) <= Pos(t)
BadOf(Bx, s) == {sh \in Shnums : <<s, sh>> \in Bx}

Respond ==
  /\ ph = "run"
  /\ \E s \in out :
     /\ Order = "fifo" => s = FirstOut
     /\ \E a \in (IF s \in failset THEN {[row |-> M[s], newbad |-> {}]} ELSE Answers(V, L[s], BadOf(B, s))) :
        \E gotpriv \in BOOLEAN :
        LET failed == s \in failset
            M2 == [M EXCEPT ![s] = a.row]
            B2 == B \cup {<<s, sh>> : sh \in a.newbad}
            view2 == [view EXCEPT ![s] = ViewOf(V, IF failed THEN "fail" ELSE "ok", L[s], a.row, a.newbad)]
            np2 == needpriv /\ ~gotpriv
            out2 == out \ {s}
            must2 == must \ {s}
            comp2 == completed + 1
            d == Decide(V, mode, Views(Servers, view2), M2, comp2, np2, must2, out2, NumServers - ptr, MaxInFlight)
            j == IF d.act = "more" THEN Min(NumServers - ptr, Max(0, d.cap - Cardinality(out2))) ELSE 0
            newq == {Servers[i] : i \in (ptr + 1)..(ptr + j)}
        IN /\ (gotpriv => needpriv /\ ~failed /\ PrivMay(V, L[s]))
           /\ (needpriv /\ ~failed /\ PrivMust(V, L[s]) => gotpriv)
           /\ M' = M2 /\ B' = B2 /\ view' = view2 /\ needpriv' = np2 /\ must' = must2 /\ completed' = comp2
           /\ ans' = (IF failed THEN ans ELSE ans \cup {s})
           /\ fail' = (IF failed THEN fail \cup {s} ELSE fail)
           /\ out' = out2 \cup newq /\ ptr' = ptr + j /\ nq' = nq + j
           /\ ph' = (IF d.act = "done" THEN "done" ELSE "run")
  /\ UNCHANGED <<L, nslot, nsh, mode, failset, P0, B0, priv0>>

Next == Place \/ Go \/ Respond
Spec == Init /\ [][Next]_vars

(* ---------------------------------- properties -------------------------------------- *)
Done == ph = "done"
Asked == ans \cup fail
NewBad(s) == {sh \in Shnums : <<s, sh>> \in B \ B0}
\* the view of a server recomputed from the final state
IView(s) ==
  IF s \in fail THEN "x"
  ELSE IF s \notin ans THEN "?"
  ELSE IF NewBad(s) # {} \/ \E sh \in Shnums : Corrupt(V, L[s][sh]) THEN "x"
  ELSE IF HoldsNothing(L[s]) THEN "0"
  ELSE IF \E sh \in Shnums : M[s][sh] # 0 THEN "1" ELSE "x"
ICls == [i \in 1..NumServers |-> IView(Servers[i])]

TypeOK ==
  /\ ph \in {"setup", "run", "done"}
  /\ out \subseteq SrvSet /\ must \subseteq SrvSet /\ ans \subseteq SrvSet /\ fail \subseteq SrvSet
  /\ ptr \in 0..NumServers

\* per mode: who must have been asked when the update finishes
X_PostCheck    == Done /\ mode = "CHECK"  => Asked = SrvSet
X_PostRepair   == Done /\ mode = "REPAIR" => Asked = SrvSet
X_PostAnything == Done /\ mode = "ANYTHING" => (Recoverable(M) # {} \/ Asked = SrvSet)
X_PostRead     == Done /\ mode = "READ" =>
                    \/ Asked = SrvSet
                    \/ (Cardinality(Asked) >= K + Epsilon /\ Recoverable(M) # {} /\ UnrecNewer(V, M) = {})
X_PostWrite    == Done /\ mode = "WRITE" =>
                    \/ Asked = SrvSet
                    \/ (Recoverable(M) # {} /\ WriteGoal(ICls, needpriv))
\* servers of the old map are asked whatever the mode
X_MustQuery    == Done => AllServers(P0) \subseteq Asked
\* the map reflects what the answering servers hold now; the others keep their old entries
X_Reflects     == Done => \A s \in SrvSet :
                    IF s \in ans THEN RowOK(V, L[s], BadOf(B0, s), M[s], NewBad(s)) ELSE M[s] = P0[s]
X_BadSticky    == Done => B0 \subseteq B /\ \A p \in B : M[p[1]][p[2]] = 0
\* a complete survey sees every valid share of every server that answers
X_SurveySeesAll == Done /\ mode \in SurveyModes => \A s \in SrvSet \ failset : \A sh \in Shnums :
                    MustAccept(V, L[s][sh]) /\ <<s, sh>> \notin B0 => M[s][sh] = L[s][sh].v
\* whatever the mode: if the answering part of the grid holds a recoverable version the map has one
Reachable == [s \in SrvSet |-> [sh \in Shnums |->
               IF s \notin failset /\ MustAccept(V, L[s][sh]) /\ <<s, sh>> \notin B0 THEN L[s][sh].v ELSE 0]]
X_FindsRecoverable == Done /\ Recoverable(Reachable) # {} => Recoverable(M) # {}
\* WRITE / REPAIR fetch the private key when a server that answered can supply it
X_Priv         == Done /\ priv0 /\ (\E s \in ans : PrivMust(V, L[s])) => ~needpriv
\* unreachable servers never block the update
X_NoHang       == ph = "run" => out # {}
\* nobody is asked once the goal of the mode is met
X_Thrift == [][(ph = "run" /\ nq' > nq) =>
                 ~GoalMet(V, mode, Views(Servers, view'), M', Cardinality(ans' \cup fail'), needpriv')]_vars
\* the initial batch: at least the documented number of servers (or all of them)
X_Initial == [][(ph = "setup" /\ ph' = "run") => Cardinality(out') >= InitialCount(mode', NumServers)]_vars
=============================================================================
