-------------------------- MODULE GenMutableLayouts --------------------------
(* GEN mode for C10/C11/C14: enumerates every layout that differs from the plain
   placement of the newest version (share i on server s<i>, a fourth server empty)
   in at most MaxMods slots, where a slot may be emptied, rolled back to an intact
   share of the older version, or hold a share of the newest version in any tamper
   class (on a slot that was empty this is a duplicate / extra copy).  The cases
   are written to IOEnv.OUT_FILE; the harness builds each of them on real storage
   servers and the real operations on them are judged by TraceMutableFile. *)
EXTENDS MutableFile, Json, IOUtils, SequencesExt

CONSTANTS MaxMods, GenClasses

Srv == {"s0", "s1", "s2", "s3"}
Slots == Srv \X Shnums
Base == [s \in Srv |-> [sh \in Shnums |-> IF s = "s" \o ToString(sh) THEN [v |-> 2, cls |-> "intact"] ELSE Absent]]
Values == {Absent, [v |-> 1, cls |-> "intact"]} \cup {[v |-> 2, cls |-> c] : c \in GenClasses \cup {"intact"}}
ModSets == {ms \in SUBSET Slots : Cardinality(ms) <= MaxMods}
Assignments(ms) == {f \in [ms -> Values] : \A p \in ms : f[p] # Base[p[1]][p[2]]}
Apply(f) == [s \in Srv |-> [sh \in Shnums |-> IF <<s, sh>> \in DOMAIN f THEN f[<<s, sh>>] ELSE Base[s][sh]]]
Layouts == UNION {{Apply(f) : f \in Assignments(ms)} : ms \in ModSets}
Out(L) == [L |-> [s \in Srv |-> [k \in {ToString(sh) : sh \in Shnums} |->
                    LET sh == CHOOSE x \in Shnums : ToString(x) = k IN L[s][sh]]]]
Cases == {Out(L) : L \in Layouts}

ASSUME ndJsonSerialize(IOEnv.OUT_FILE, SetToSeq(Cases))

VARIABLE c
Init == c \in Cases
Next == UNCHANGED c
Spec == Init /\ [][Next]_c
=============================================================================
