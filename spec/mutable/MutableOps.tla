----------------------------- MODULE MutableOps -----------------------------
(* What one writer reads back from a mutable file (C09).

   Reference semantics: the file is a byte string (sequence of small integers);
   Create / Overwrite replace it, Modify applies a function to it, Update(data,
   offset) with 0 <= offset <= Len writes data at offset and extends the file if
   it writes past the end, Read(offset, size) returns the clipped sub-string.

   Implementation-shaped operators, one per mechanism of the code, so that TLC
   can compare them with the reference for every (size, offset, length, segment
   size) in the bounds:
     ImplRead    mutable/retrieve.py  _setup_encoding_parameters + _set_segment
                 (start/last segment, tail trimmed first, then head)
     ImplUpdate  mutable/filenode.py  MutableFileVersion._update:
                   SDMF: _do_modify_update (whole-file modify)
                   MDMF: _do_update_update (start/end segment to fetch),
                         publish.py TransformingUploadable.read (merge of the old
                         boundary segments with the new data) and Publish.update /
                         setup_encoding_parameters (which segments are re-encoded,
                         tail segment size); all other segments are kept.
   Offsets are 0-based as in the code; sequences are 1-based. *)
EXTENDS Common

(* ------------------------------ reference ------------------------------ *)
RefUpdate(c, d, o) == WriteAt(c, o, d)
RefRead(c, o, n) == ReadAt(c, o, n)

\* Modify(f): the modifiers the harness uses
ModApply(c, m) ==
  CASE m.fn = "append"   -> c \o m.data
    [] m.fn = "prepend"  -> m.data \o c
    [] m.fn = "truncate" -> SubSeq(c, 1, Min(Len(c), m.n))
    [] m.fn = "noop"     -> c

(* --------------------------- segments of a file -------------------------- *)
NumSegs(n, ss) == DivCeil(n, ss)
Seg(c, i, ss) == ReadAt(c, i * ss, ss)          \* plaintext of segment i (the tail segment is shorter)

RECURSIVE Concat(_)
Concat(ss) == IF ss = <<>> THEN <<>> ELSE Head(ss) \o Concat(Tail(ss))

(* ------------------------ Retrieve: partial reads ------------------------ *)
\* precondition of Retrieve._start_download
ReadDomain(c, o, n) == 0 <= o /\ o < Len(c) /\ n > 0 /\ o + n <= Len(c)

ImplRead(c, o, n, ss) ==
  LET start == o \div ss
      last  == (o + n - 1) \div ss
      piece(i) ==
        LET seg == Seg(c, i, ss)
            wanted == (o + n) % ss
            t == IF i = last /\ wanted # 0 THEN SubSeq(seg, 1, Min(Len(seg), wanted)) ELSE seg   \* trim off the tail
            skip == o % ss
        IN IF i = start THEN SubSeq(t, skip + 1, Len(t)) ELSE t                                  \* then the head
  IN Concat([j \in 1..(last - start + 1) |-> piece(start + j - 1)])

(* --------------------- TransformingUploadable.read ---------------------- *)
\* u = [d, o, ss, start, end]; st = [marker, pos]; python slices clip like ReadAt
TURead(u, st, length) ==
  LET fso  == u.o % u.ss
      odl0 == fso - st.marker
      odl  == IF odl0 > 0 THEN Min(odl0, length) ELSE 0
      oldstart == IF odl0 > 0 THEN ReadAt(u.start, st.marker, odl) ELSE <<>>
      len1 == length - odl
      oel  == len1 - (Len(u.d) - st.pos)
      odo  == (len1 - oel + odl) % u.ss
      oldend == IF oel > 0 THEN ReadAt(u.end, odo, oel) ELSE <<>>
      len2 == IF oel > 0 THEN len1 - oel ELSE len1
      new  == ReadAt(u.d, st.pos, len2)
      out  == oldstart \o new \o oldend
  IN [out |-> out, st |-> [marker |-> st.marker + Len(out), pos |-> st.pos + Len(new)]]

(* ----------------------------- MDMF update ------------------------------ *)
\* MutableFileVersion._do_update_update: the old segments fetched by the servermap update
FetchStart(o, ss) == o \div ss
FetchEnd(c, d, o, ss) == IF o + Len(d) < Len(c) THEN (o + Len(d) - 1) \div ss ELSE o \div ss

\* the in-place path needs the old start segment: an append exactly at the end of a file whose size is a
\* multiple of the segment size (including the empty file) has none
HasStartSegment(c, o, ss) == o \div ss < NumSegs(Len(c), ss)

RECURSIVE PushSegs(_, _, _, _, _, _, _)
\* Publish.push_segment for segnum = j .. eseg: returns [ok, segs]
PushSegs(u, st, j, eseg, nsegs, tail, acc) ==
  IF j > eseg THEN [ok |-> TRUE, segs |-> acc]
  ELSE LET want == IF j + 1 = nsegs THEN tail ELSE u.ss
           r == TURead(u, st, want)
       IN IF Len(r.out) # want THEN [ok |-> FALSE, segs |-> acc]          \* assert len(data) == segsize
          ELSE PushSegs(u, r.st, j + 1, eseg, nsegs, tail, Append(acc, r.out))

ImplUpdateMDMF(c, d, o, ss) ==
  LET usize == o + Len(d)                         \* TransformingUploadable.get_size()
      datalength == Max(Len(c), usize)
      nsegs == DivCeil(datalength, ss)
      tail == IF datalength % ss = 0 THEN ss ELSE datalength % ss
      sseg == o \div ss                           \* starting_segment
      eseg == IF usize # datalength
                THEN (IF usize % ss = 0 THEN usize \div ss - 1 ELSE usize \div ss)
                ELSE nsegs - 1
      u == [d |-> d, o |-> o, ss |-> ss, start |-> Seg(c, FetchStart(o, ss), ss), end |-> Seg(c, FetchEnd(c, d, o, ss), ss)]
      p == PushSegs(u, [marker |-> 0, pos |-> 0], sseg, eseg, nsegs, tail, <<>>)
      kept_before == ReadAt(c, 0, sseg * ss)
      kept_after == ReadAt(c, (eseg + 1) * ss, Len(c))
      all == kept_before \o Concat(p.segs) \o kept_after
  IN IF p.ok /\ Len(all) = datalength THEN [ok |-> TRUE, c |-> all] ELSE [ok |-> FALSE, c |-> c]

\* SDMF (and the boundary append, which has no old segment to merge with): whole-file modify,
\* MutableFileVersion._do_modify_update
ImplUpdateModify(c, d, o) ==
  [ok |-> TRUE, c |-> SubSeq(c, 1, Min(o, Len(c))) \o d \o ReadAt(c, o + Len(d), Len(c))]

ImplUpdate(fmt, c, d, o, ss) ==
  IF fmt = "SDMF" \/ ~HasStartSegment(c, o, ss) THEN ImplUpdateModify(c, d, o) ELSE ImplUpdateMDMF(c, d, o, ss)

\* segment size the publisher uses: next multiple of k of DEFAULT_MUTABLE_MAX_SEGMENT_SIZE for MDMF, the
\* whole file for SDMF
SegSizeOf(fmt, c, mdmfss) == IF fmt = "MDMF" THEN mdmfss ELSE Max(Len(c), 1)
=============================================================================
