----------------------- MODULE TracePublishProtocol -----------------------
(* Trace validation of real concurrent / faulty mutable publishes
   (harness/mutconc_driver.py) against PublishProtocol.tla.

   A trace: consts = [writers, servers, order (permuted server list), shnums,
   K, N, init (server -> shnum -> version id), op, single] and the events
   Begin, Survey, Publish, Write, Finish, Final (see the driver).  The servers
   are replayed through the read-test-write of Storage.tla, the writers
   through the publisher operators; the verdict of an event is the name of
   the first clause that fails ("" = accepted).  Clauses named C12_* / C47_*
   are the properties; conf_* clauses say that the recorded execution is not a
   behaviour of the Spec for a reason outside the two properties (they stop
   the trace and are reported, too). *)
EXTENDS PublishProtocol, Json, IOUtils, TLCExt

Traces == JsonDeserialize(IOEnv.TRACE_FILE)

VARIABLES tid, l, srv, wr, gh, bad
tvars == <<tid, l, srv, wr, gh, bad>>

C == Traces[tid].consts
Events == Traces[tid].events
Ev == Events[l]
Servers == ToSet(C.servers)
Shn == ToSet(C.shnums)
WritersT == ToSet(C.writers)
NW == Len(C.writers)

\* a JSON object shnum -> id (only the shares that exist) as a total map
Total(o) == [sh \in Shn |-> IF sh \in DOMAIN o THEN o[sh] ELSE 0]
Partial(o) == [sh \in DOMAIN o |-> o[sh]]
SameFn(f, g) == DOMAIN f = DOMAIN g /\ \A x \in DOMAIN f : f[x] = g[x]

\* ghost per writer: met (shown another write), acked (pairs acknowledged as written), began
G0 == [met |-> FALSE, acked |-> {}, began |-> FALSE]

V(c, s2, w2, g2) == [c |-> c, srv |-> s2, wr |-> w2, gh |-> g2]
Rej(c) == V(c, srv, wr, gh)

VBegin(e) ==
  IF wr[e.w].phase # "idle" THEN Rej("conf_begin_twice")
  ELSE V("", srv, [wr EXCEPT ![e.w].phase = "survey"], [gh EXCEPT ![e.w].began = TRUE])

VSurvey(e) ==
  IF e.fault # "" THEN Rej("")                       \* the query failed: nothing learned, nothing changed
  ELSE IF Total(e.res) # VerMap(srv[e.s]) THEN Rej("conf_survey_reflects_server_state")
  ELSE V("", srv, [wr EXCEPT ![e.w] = SurveyAnswer(@, e.s, Total(e.res))], gh)

VPublish(e) ==
  LET ws == wr[e.w]
      goal == ToSet(e.goal)
      \* servers without upload permission (an expired grid-manager certificate ...) keep the shares they hold up to date but
      \* are no candidates for shares that need a new home
      permittedOrder == IF "denied" \in DOMAIN C THEN SelectSeq(C.order, LAMBDA s : s \notin ToSet(C.denied)) ELSE C.order
      want == UpdateGoal(Known(ws), permittedOrder, C.shnums)
      others == {wr[x].newv : x \in WritersT \ {e.w}}
  IN IF ws.phase # "survey" THEN Rej("conf_publish_phase")
     ELSE IF C.op = "overwrite" /\ ~SeenRecoverable(ws, C.K) THEN Rej("conf_publish_without_recoverable_version")
     ELSE IF {p[2] : p \in goal} # Shn THEN Rej("C47_GoalCoversAllShares")
     ELSE IF goal # want THEN Rej("C47_GoalPlacement")
     ELSE IF e.newv = 0 \/ e.newv \in GridVersions(srv) \/ e.newv \in others \/ "newv_conflict" \in DOMAIN e THEN Rej("conf_new_version_id")
     ELSE V("", srv, [wr EXCEPT ![e.w] = PublishStart(ws, goal, e.newv, C.fmt)], gh)

Focus == IF "focus" \in DOMAIN Traces[tid].consts THEN Traces[tid].consts.focus ELSE "all"
VWrite(e) ==
  LET ws == wr[e.w]
      s == e.s
      sh == e.sh
      pre == VerMap(srv[s])
      obs == Total(e.obs)
      seenv == SeenOf(ws, s, sh)
      executed == e.fault \notin {"raise", "disconnect"}
      st == ServerRTWStatus(srv[s], sh, e.test, e.newv)
      T == IF executed THEN ServerRTW(srv[s], sh, e.test, e.newv) ELSE srv[s]
      ws1 == Delivered(ws, s, sh)
      answered == e.fault = ""
      ws2 == IF answered THEN GotAnswer(ws1, s, sh, e.wrote, Partial(e.reads)) ELSE ConnProblem(ws1, s, sh)
      g2 == IF answered
              THEN [gh EXCEPT ![e.w].met = @ \/ MetOther(ws, s, e.wrote, Partial(e.reads)),
                              ![e.w].acked = IF e.wrote THEN @ \cup {<<s, sh>>} ELSE @]
              ELSE gh
  IN IF ws.phase # "write" \/ <<s, sh>> \notin ws.pend THEN Rej("conf_write_not_a_pending_request_of_the_goal")
     ELSE IF e.newv # ws.newv THEN Rej("conf_new_version_id")
     \* the publisher's test vector is the checkstring it surveyed, or "must not exist"
     ELSE IF ~(e.test.kind = "absent" \/ (e.test.kind = "eq" /\ seenv # 0 /\ e.test.v = seenv)) THEN Rej("C12_TestVector")
     \* C12_TAS on the real step: a share changes only to w's version and only from what w saw (or nothing)
     ELSE IF \E x \in Shn : obs[x] # pre[x] /\ ~(x = sh /\ pre[x] \in {seenv, 0} /\ obs[x] = ws.newv) THEN Rej("C12_TAS")
     ELSE IF ~executed /\ obs # pre THEN Rej("conf_failed_request_changed_state")
     ELSE IF executed /\ e.wrote # (st = "ok") THEN Rej("C12_ServerTestAndSet_verdict")
     \* (validated for C47 - consts.focus - a server whose state after the request is not the Spec's is followed from what
     \* was observed on its disk, so that the publisher's claim is still judged at the end against the real shares)
     ELSE IF executed /\ obs # VerMap(T) /\ Focus # "C47" THEN Rej("C12_ServerTestAndSet_state")
     ELSE IF executed /\ obs = VerMap(T) /\ ~SameFn(Partial(e.reads), PreReads(srv[s])) THEN Rej("C12_ReadsReflectPrestate")
     ELSE V("", [srv EXCEPT ![s] = IF executed /\ obs # VerMap(T) THEN ServerWith(obs) ELSE T], [wr EXCEPT ![e.w] = ws2], g2)

VFinish(e) ==
  LET ws == wr[e.w]
      published == ws.phase = "write"
      nacked == Cardinality({p[2] : p \in gh[e.w].acked})
      \* the results the Spec allows ("some writer" of an SDMF publisher is not observable)
      want == IF published THEN {Expected(ws, C.K, cs) : cs \in ws.cands}
              ELSE IF C.op = "overwrite" /\ ~SeenRecoverable(ws, C.K) THEN {"Unrecoverable"}
              ELSE {}
  IN IF ws.phase \notin {"survey", "write"} THEN Rej("conf_finish_phase")
     \* a repairer (check_and_repair) that found nothing to repair: it never published
     ELSE IF e.res = "noop" THEN (IF published THEN Rej("conf_noop_after_publish") ELSE V("", srv, [wr EXCEPT ![e.w] = Finished(ws, "noop")], gh))
     ELSE IF published /\ ws.pend # {} THEN Rej("C47_FinishBeforeAllAnswers")
     ELSE IF gh[e.w].met /\ e.res # "UCWE" THEN Rej("C12_Detect")
     ELSE IF e.res = "ok" /\ ~(published /\ nacked >= C.K /\ ~gh[e.w].met) THEN Rej("C47_SuccessGuard")
     ELSE IF published /\ nacked < C.K /\ e.res \notin {"NotEnough", "UCWE"} THEN Rej("C47_ErrorWhenFew")
     ELSE IF e.res \notin want THEN Rej("conf_result_matches_spec")
     ELSE V("", srv, [wr EXCEPT ![e.w] = Finished(ws, e.res)], gh)

VFinal(e) ==
  LET began == {w \in WritersT : gh[w].began}
      alldone == \A w \in began : wr[w].phase = "done"
      initComplete == C.op = "overwrite" /\ \A sh \in Shn : \E s \in Servers : C.init[s][sh] # 0
      rec == RecoverableSet(srv, C.K)
  IN IF \E s \in Servers : Total(e.shares[s]) # VerMap(srv[s]) THEN Rej("conf_final_state")
     ELSE IF Len(e.unfinished) > 0 \/ ~alldone THEN Rej("C47_Reports")
     ELSE IF initComplete /\ (NW + 1) * C.K <= C.N /\ rec = {} THEN Rej("C12_Survive")
     ELSE IF \E w \in began : C.single /\ wr[w].res = "ok" /\ ~Recoverable(srv, wr[w].newv, C.K) THEN Rej("C47_Recoverable")
     \* the Spec's notion of recoverability agrees with a real download by a fresh node
     ELSE IF rec # {} /\ e.dl # -9 /\ e.dl \notin rec THEN
          (IF C.single THEN Rej("C47_Recoverable_download") ELSE Rej("C12_Survive_download"))
     ELSE V("", srv, wr, gh)

Verdict(e) ==
  CASE e.ev = "Begin"   -> VBegin(e)
    [] e.ev = "Survey"  -> VSurvey(e)
    [] e.ev = "Publish" -> VPublish(e)
    [] e.ev = "Write"   -> VWrite(e)
    [] e.ev = "Finish"  -> VFinish(e)
    [] e.ev = "Final"   -> VFinal(e)
    [] e.ev = "SetupFailed" -> IF "tolerated" \in DOMAIN e /\ e.tolerated THEN V("", srv, wr, gh) ELSE Rej("conf_faultfree_creation_failed")
    [] OTHER            -> Rej("unknown_event")

TraceInit ==
  /\ tid \in 1..Len(Traces)
  /\ l = 1
  /\ srv = [s \in ToSet(Traces[tid].consts.servers) |->
              ServerWith([sh \in ToSet(Traces[tid].consts.shnums) |-> Traces[tid].consts.init[s][sh]])]
  /\ wr = [w \in ToSet(Traces[tid].consts.writers) |-> W0(ToSet(Traces[tid].consts.servers), ToSet(Traces[tid].consts.shnums))]
  /\ gh = [w \in ToSet(Traces[tid].consts.writers) |-> G0]
  /\ bad = "none"

TraceNext ==
  /\ bad = "none"
  /\ l <= Len(Events)
  /\ LET v == Verdict(Ev) IN
       IF v.c = ""
         THEN /\ srv' = v.srv /\ wr' = v.wr /\ gh' = v.gh /\ l' = l + 1 /\ bad' = "none"
              /\ (l = Len(Events) => PrintT(<<"VF_ACCEPT", tid, l>>))
         ELSE /\ bad' = v.c /\ UNCHANGED <<srv, wr, gh, l>>
              /\ PrintT(<<"VF_REJECT", tid, l, v.c>>)
  /\ UNCHANGED tid

TraceSpec == TraceInit /\ [][TraceNext]_tvars
TraceOK == bad = "none"
=============================================================================
