----------------------------- MODULE MCMutableFile -----------------------------
(* Model checking of the mutable-file design (MutableFile.tla): one writer that
   publishes versions (survey, seq = 1 + highest seen, in-place replacement plus
   placement of homeless shares), an adversary that tampers with stored shares,
   replays shares of older versions, plants shares signed by another key, deletes
   shares and takes servers away, and readers / checkers / repairers that see the
   grid only through servermap updates.

   The properties C10, C11, C14 are stated over the ground truth (the layout L and
   the version table) and the recorded outcome of the last operation `op`, not
   over the operators that compute the outcome. *)
EXTENDS MutableFile

CONSTANTS NumServers,     \* servers "s0".."s<n-1>", in the permuted order of the file
          MaxVers,        \* bound on the number of versions (owner + crafted)
          MaxTamper,      \* adversary budget (field tampering, replay, deletion)
          MaxDown,        \* number of connect/disconnect events
          TamperClasses,  \* subset of {"prefixbad","softbad","bodybad","privbad","offsbad"}
          RHs,            \* root-hash ranks a new version may get
          Forge, Replay,  \* BOOLEAN: crafted versions / replay of any version's shares
          OpKinds,        \* subset of {"read","check","repair"}
          ReadOrder,      \* "fifo" (answers in query order) or "any"
          InitHist        \* "one": a freshly created file; "competitors": history in which a second writer that
                          \* only saw version 1 published another version with seqnum 2 (reachable from "one"
                          \* by roll-back of all servers, used as a start state to keep quick runs small)

VARIABLES vers, L, down, nt, nd, op, rd, actor
vars == <<vers, L, down, nt, nd, op, rd, actor>>

Servers == [i \in 1..NumServers |-> "s" \o ToString(i - 1)]
SrvSet == ToSet(Servers)
Ord(d) == SelectSeq(Servers, LAMBDA s : s \notin d)
Up == SrvSet \ down
NoOp == [kind |-> "none"]
Idle == [st |-> "idle"]
EmptyL == [s \in SrvSet |-> [sh \in Shnums |-> Absent]]
MaxSeqAll == SetMax({vers[v].seq : v \in 1..Len(vers)})

Init ==
  /\ vers = IF InitHist = "one" THEN <<[seq |-> 1, rh |-> 1, content |-> 1, signer |-> "owner"]>>
            ELSE <<[seq |-> 1, rh |-> 1, content |-> 1, signer |-> "owner"],
                   [seq |-> 2, rh |-> 1, content |-> 2, signer |-> "owner"],
                   [seq |-> 2, rh |-> 2, content |-> 3, signer |-> "owner"]>>
  /\ L = WriteVersion(EmptyL, PublishGoal(EmptyL, Servers), Len(vers))
  /\ down = {} /\ nt = 0 /\ nd = 0
  /\ op = NoOp /\ rd = Idle /\ actor = "writer"

(* ------------------------------- the writer -------------------------------- *)
DoPublish ==
  /\ rd.st = "idle" /\ Len(vers) < MaxVers
  /\ LET ord == Ord(down) IN
     \E M \in Maps(vers, L, ToSet(ord)) : \E r \in RHs :
       /\ Best(vers, M) # 0          \* overwrite() first needs a recoverable version
       /\ LET seq == MaxSeq(vers, M) + 1      \* Publish.publish: highest_seqnum() + 1
              nv == Len(vers) + 1
          IN /\ \A v \in 1..Len(vers) : ~(vers[v].seq = seq /\ vers[v].rh = r)
             /\ vers' = Append(vers, [seq |-> seq, rh |-> r, content |-> nv, signer |-> "owner"])
             /\ L' = WriteVersion(L, PublishGoal(L, ord), nv)
             /\ op' = [kind |-> "publish", Q |-> ToSet(ord), M |-> M, newv |-> nv]
  /\ actor' = "writer" /\ UNCHANGED <<down, nt, nd, rd>>

(* ------------------------------ the adversary ------------------------------ *)
AdvStep(L2) ==
  /\ rd.st = "idle" /\ nt < MaxTamper
  /\ L' = L2 /\ nt' = nt + 1 /\ op' = NoOp /\ actor' = "adversary"
  /\ UNCHANGED <<vers, down, nd, rd>>

Tamper == \E s \in SrvSet, sh \in Shnums, c \in TamperClasses :
            /\ L[s][sh].cls = "intact"
            /\ AdvStep([L EXCEPT ![s][sh].cls = c])
Replace == /\ Replay
           /\ \E s \in SrvSet, sh \in Shnums, v \in 1..Len(vers) :
                /\ L[s][sh] # [v |-> v, cls |-> "intact"]
                /\ AdvStep([L EXCEPT ![s][sh] = [v |-> v, cls |-> "intact"]])
Delete == \E s \in SrvSet, sh \in Shnums :
            /\ Present(L[s][sh])
            /\ AdvStep([L EXCEPT ![s][sh] = Absent])
\* a read-cap holder / server fabricates a version: newer seqnum, own key
ForgeVersion ==
  /\ Forge /\ rd.st = "idle" /\ Len(vers) < MaxVers
  /\ \A v \in 1..Len(vers) : vers[v].signer = "owner"
  /\ vers' = Append(vers, [seq |-> MaxSeqAll + 1, rh |-> 1, content |-> Len(vers) + 1, signer |-> "other"])
  /\ op' = NoOp /\ actor' = "adversary"
  /\ UNCHANGED <<L, down, nt, nd, rd>>
Toggle ==
  /\ rd.st = "idle" /\ nd < MaxDown
  /\ \E s \in SrvSet : /\ down' = IF s \in down THEN down \ {s} ELSE down \cup {s}
                       /\ down' # SrvSet
  /\ nd' = nd + 1 /\ op' = NoOp /\ actor' = "env"
  /\ UNCHANGED <<vers, L, nt, rd>>

(* -------------------- download_best_version (MODE_READ) -------------------- *)
StartRead ==
  /\ "read" \in OpKinds /\ rd.st = "idle"
  /\ LET ord == Ord(down) IN
     rd' = [st |-> "run", ord |-> ord, nsent |-> Min(2 * K, Len(ord)), resp |-> {}, M |-> EmptyMap(SrvSet)]
  /\ op' = NoOp /\ actor' = "reader"
  /\ UNCHANGED <<vers, L, down, nt, nd>>

Outstanding(r) == {r.ord[i] : i \in 1..r.nsent} \ r.resp
FirstOutstanding(r) == r.ord[CHOOSE i \in 1..r.nsent : r.ord[i] \notin r.resp /\ \A j \in 1..(i - 1) : r.ord[j] \in r.resp]

Respond ==
  /\ rd.st = "run"
  /\ \E s \in Outstanding(rd) :
     /\ ReadOrder = "fifo" => s = FirstOutstanding(rd)
     /\ \E A \in SUBSET SoftSlots(vers, L, {s}) :
        LET ans == MapWith(vers, L, {s}, A)
            M2 == [rd.M EXCEPT ![s] = ans[s]]
            resp2 == rd.resp \cup {s}
            out2 == Outstanding(rd) \ {s}
            done == \/ (out2 = {} /\ rd.nsent = Len(rd.ord))
                    \/ ~ReadWantsMore(vers, M2, Cardinality(resp2))
            more == Max(0, 5 - Cardinality(out2))        \* MAX_IN_FLIGHT
        IN IF done
             THEN /\ rd' = Idle
                  /\ \E rv \in ReadVersions(vers, L, M2) :
                       op' = [kind |-> "read", Q |-> resp2, M |-> M2, resv |-> rv, allq |-> (resp2 = ToSet(rd.ord))]
             ELSE /\ rd' = [rd EXCEPT !.M = M2, !.resp = resp2, !.nsent = Min(Len(rd.ord), rd.nsent + more)]
                  /\ op' = NoOp
  /\ actor' = "reader"
  /\ UNCHANGED <<vers, L, down, nt, nd>>

(* ---------------------------- check and repair ----------------------------- *)
DoCheck ==
  /\ "check" \in OpKinds /\ rd.st = "idle"
  /\ \E verify \in BOOLEAN : \E M \in Maps(vers, L, Up) : \E h \in CheckVerdicts(vers, L, M, verify) :
       op' = [kind |-> "check", verify |-> verify, Q |-> Up, M |-> M, healthy |-> h,
              recoverable |-> (Recoverable(M) # {})]
  /\ actor' = "reader"
  /\ UNCHANGED <<vers, L, down, nt, nd, rd>>

DoRepair ==
  /\ "repair" \in OpKinds /\ rd.st = "idle" /\ Len(vers) < MaxVers
  /\ \E force \in BOOLEAN : \E M \in Maps(vers, L, Up) :
     LET dec == RepairDecision(vers, M, force)
         b == Best(vers, M)
         base == [kind |-> "repair", force |-> force, Q |-> Up, M |-> M, L0 |-> L, best |-> b]
     IN IF dec # "go"
          THEN /\ op' = base @@ [res |-> dec]
               /\ UNCHANGED <<vers, L>>
          ELSE \* download_version: a fresh MODE_READ map, then Retrieve of the chosen version
               \E M2 \in Maps(vers, L, Up) : \E r \in RHs : \E got \in RetrieveOutcomes(L, M2, b) :
                 IF b \in Recoverable(M2) /\ got = b
                   THEN LET nv == Len(vers) + 1
                            seq == MaxSeq(vers, M) + 1
                        IN /\ \A v \in 1..Len(vers) : ~(vers[v].seq = seq /\ vers[v].rh = r)
                           /\ vers' = Append(vers, [seq |-> seq, rh |-> r, content |-> vers[b].content, signer |-> "owner"])
                           /\ L' = WriteVersion(L, PublishGoal(L, Ord(down)), nv)
                           /\ op' = base @@ [res |-> "ok"]
                   ELSE /\ op' = base @@ [res |-> "error"]
                        /\ UNCHANGED <<vers, L>>
  /\ actor' = "writer"
  /\ UNCHANGED <<down, nt, nd, rd>>

Next == DoPublish \/ Tamper \/ Replace \/ Delete \/ ForgeVersion \/ Toggle \/ StartRead \/ Respond \/ DoCheck \/ DoRepair
Spec == Init /\ [][Next]_vars

(* =============================== properties ================================ *)
TypeOK ==
  /\ \A s \in SrvSet, sh \in Shnums : L[s][sh] = Absent \/ (L[s][sh].v \in 1..Len(vers) /\ L[s][sh].cls \in {"intact"} \cup TamperClasses)
  /\ \A v, w \in 1..Len(vers) : v # w => Rank(vers, v) # Rank(vers, w)

PublishedContents == {vers[v].content : v \in OwnerVersions(vers)}
IntactShnums(v, Q) == {sh \in Shnums : \E s \in Q : L[s][sh] = [v |-> v, cls |-> "intact"]}
\* servers none of whose acceptable shares of version v fails block validation
CleanFor(v, s) == \A sh \in Shnums : (MayAccept(vers, L[s][sh]) /\ L[s][sh].v = v) => BodyValid(L[s][sh])
CleanIntactShnums(v, Q) == {sh \in Shnums : \E s \in Q : L[s][sh] = [v |-> v, cls |-> "intact"] /\ CleanFor(v, s)}

\* C10: a read delivers the plaintext of a version the write-cap holder published, or an error
C10_OnlyPublished ==
  op.kind = "read" /\ op.resv # 0 => vers[op.resv].signer = "owner" /\ vers[op.resv].content \in PublishedContents
\* C10: k intact shares of the newest published version on answering servers (that did not also serve a
\* corrupt share of it: such servers are dropped as a whole) => that version is read
C10_Available ==
  op.kind = "read" /\ Cardinality(CleanIntactShnums(Newest(vers), op.Q)) >= K
     => op.resv # 0 /\ vers[op.resv].content = vers[Newest(vers)].content
\* C10: nothing signed by another key is ever taken into a servermap (read, check, repair, publish survey)
C10_NoForgery_State ==
  op.kind # "none" => \A v \in VersIn(op.M) : vers[v].signer = "owner"
\* C10: only the writer's publish/repair steps extend the set of published versions
C10_NoForgery_Step == [][OwnerVersions(vers') # OwnerVersions(vers) => actor' = "writer"]_vars

\* C11: a new version's seqnum exceeds the seqnum of every validly signed share its survey was shown
C11_Monotone ==
  [][\A v \in (1..Len(vers')) \ (1..Len(vers)) : vers'[v].signer = "owner" =>
       \A s \in op'.Q : \A sh \in Shnums : MustAccept(vers, L[s][sh]) => vers[L[s][sh].v].seq < vers'[v].seq]_vars
\* versions certainly located and recoverable from the answers the reader got
LocatedRecoverable(Q) ==
  {v \in OwnerVersions(vers) : Cardinality({sh \in Shnums : \E s \in Q : MustAccept(vers, L[s][sh]) /\ L[s][sh].v = v}) >= K}
C11_ReadBest ==
  op.kind = "read" /\ op.resv # 0 => \A v \in LocatedRecoverable(op.Q) : Rank(vers, v) <= Rank(vers, op.resv)
\* C11: the reader stops only when no located version is newer-but-unrecoverable, or nobody is left to ask
C11_KeepLooking ==
  op.kind = "read" =>
    \/ op.allq
    \/ /\ Cardinality(op.Q) >= 2 * K
       /\ \E w \in VersIn(op.M) : Cardinality(ShnumsOf(op.M, w)) >= K
       /\ \A v \in VersIn(op.M) : Cardinality(ShnumsOf(op.M, v)) < K =>
            \E w \in VersIn(op.M) : Cardinality(ShnumsOf(op.M, w)) >= K /\ vers[w].seq >= vers[v].seq

\* C14: healthy iff a single version is visible and it has N distinct (verify: validated) shares.
\* Lo/Hi: shares whose acceptance depends on arrival order may count or not.
VisLo(s, sh) == s \in Up /\ MustAccept(vers, L[s][sh])
VisHi(s, sh) == s \in Up /\ MayAccept(vers, L[s][sh])
CntLo(v, verify) == {sh \in Shnums : \E s \in SrvSet : VisLo(s, sh) /\ L[s][sh].v = v /\ (verify => L[s][sh].cls = "intact")}
CntHi(v, verify) == {sh \in Shnums : \E s \in SrvSet : VisHi(s, sh) /\ L[s][sh].v = v /\ (verify => BodyValid(L[s][sh]))}
SureHealthy(verify) == \E v \in OwnerVersions(vers) :
    /\ {L[s][sh].v : <<s, sh>> \in {p \in SrvSet \X Shnums : VisHi(p[1], p[2])}} = {v}
    /\ CntLo(v, verify) = Shnums
MaybeHealthy(verify) == \E v \in OwnerVersions(vers) :
    /\ {L[s][sh].v : <<s, sh>> \in {p \in SrvSet \X Shnums : VisLo(p[1], p[2])}} \subseteq {v}
    /\ CntHi(v, verify) = Shnums
C14_Health ==
  op.kind = "check" => (SureHealthy(op.verify) => op.healthy) /\ (op.healthy => MaybeHealthy(op.verify))

\* versions the repairer located, by what it was shown
SeenShnums(v) == ShnumsOf(op.M, v)
SeenRec == {v \in VersIn(op.M) : Cardinality(SeenShnums(v)) >= K}
C14_NoDiscardNewer ==
  op.kind = "repair" /\ ~op.force /\ SeenRec # {}
    /\ (\E v \in VersIn(op.M) \ SeenRec : \A w \in SeenRec : vers[v].seq > vers[w].seq)
    => op.res = "mustforce" /\ L = op.L0
C14_NoPickCompetitor ==
  op.kind = "repair" /\ ~op.force /\ (\E v, w \in SeenRec : v # w /\ vers[v].seq = vers[w].seq)
    => op.res = "mustforce" /\ L = op.L0
C14_RepairPreserves ==
  op.kind = "repair" /\ op.res = "ok" =>
    LET nv == Len(vers) IN
    /\ op.best \in SeenRec /\ \A w \in SeenRec : Rank(vers, w) <= Rank(vers, op.best)
    /\ vers[nv].content = vers[op.best].content
    /\ \A w \in VersIn(op.M) : vers[nv].seq > vers[w].seq
    /\ IntactShnums(nv, Up) = Shnums
    /\ \A s \in Up, sh \in Shnums : Present(L[s][sh]) => L[s][sh] = [v |-> nv, cls |-> "intact"]
C14_FailedRepairNoChange ==
  op.kind = "repair" /\ op.res # "ok" => L = op.L0
=============================================================================
