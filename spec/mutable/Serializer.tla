----------------------------- MODULE Serializer -----------------------------
(* One client's serializer of whole-node operations on a mutable file or
   directory (mutable/filenode.py MutableFileNode._do_serialized, reached through
   download_best_version / overwrite / upload / modify / get_servermap and the
   directory edits of dirnode.py that are built on modify()).

   Two layers, both defined as operators over explicit state values so that the
   model checker (MCSerializer) and trace validation (TraceSerializer) share them:

   1. what an operation means for the contents of the node (Apply) -- a file is
      a sequence of small integers, a directory a function name -> child id;
   2. the abstract serializer: a queue of requested operations, at most one
      running, Request / Start / Finish(ok|err) / Return, and what may be
      concluded about the contents after each Finish (a set of possible contents,
      because an operation that failed under injected faults may or may not have
      reached the servers).

   The clause names C13_* returned by the *Clause operators are the verdicts of
   trace validation; MCSerializer states the same properties over ghost variables. *)
EXTENDS Common

(* ---------------------------------------------------------------------------
   Operation semantics.  An operation is a record with field kind:
     read    download_best_version / DirectoryNode.list
     smap    get_servermap(MODE_WRITE)
     over    overwrite(data)                         data: sequence
     upload  upload(data, servermap)                 data, smap: id of the smap op
     mod     modify(f)   fn \in {"append","noop","raise"}, tok
     set     Adder       entries: name -> child, ow: BOOLEAN   (set_node, set_children,
                                                     create_subdirectory)
     del     Deleter     name                        (must_exist = True)
   Apply(o, c) = [st, c, pub]: status, contents afterwards, whether a new version
   is published.
   --------------------------------------------------------------------------- *)
Res(st, c, pub) == [st |-> st, c |-> c, pub |-> pub]

SetMany(c, entries) ==
  [n \in (DOMAIN c) \cup (DOMAIN entries) |-> IF n \in DOMAIN entries THEN entries[n] ELSE c[n]]
Without(c, name) == [n \in (DOMAIN c) \ {name} |-> c[n]]

Apply(o, c) ==
  CASE o.kind = "read"   -> Res("ok", c, FALSE)
    [] o.kind = "smap"   -> Res("ok", c, FALSE)
    [] o.kind = "over"   -> Res("ok", o.data, TRUE)
    [] o.kind = "upload" -> Res("ok", o.data, TRUE)
    [] o.kind = "mod"    -> (CASE o.fn = "append" -> Res("ok", Append(c, o.tok), TRUE)
                               [] o.fn = "noop"   -> Res("ok", c, FALSE)      \* modifier returns the old contents: no publish
                               [] OTHER           -> Res("err", c, FALSE))    \* modifier raises
    [] o.kind = "set"    -> IF ~o.ow /\ (DOMAIN o.entries) \cap (DOMAIN c) # {}
                              THEN Res("err", c, FALSE)                       \* ExistingChildError
                              ELSE Res("ok", SetMany(c, o.entries), TRUE)
    [] o.kind = "del"    -> IF o.name \notin DOMAIN c
                              THEN Res("err", c, FALSE)                       \* NoSuchChildError
                              ELSE Res("ok", Without(c, o.name), TRUE)

IsRead(o) == o.kind = "read"

(* ---------------------------------------------------------------------------
   Abstract serializer state
     queue    requested, not yet started (request order)
     running  0 or the id of the operation in progress
     ops      id -> operation record (every requested operation)
     fin      id -> "ok" | "err"      (finished operations)
     ret      ids whose result was handed to the caller
     poss     set of possible contents of the node
     wr       number of publishes that may have happened
     smapwr   id of a finished smap op (no fault while it ran) -> wr at that moment
   --------------------------------------------------------------------------- *)
AInit(c0) == [queue |-> <<>>, running |-> 0, ops |-> <<>>, fin |-> <<>>, ret |-> {}, poss |-> {c0},
              wr |-> 0, smapwr |-> <<>>]

Ext(f, k, v) == [x \in (DOMAIN f) \cup {k} |-> IF x = k THEN v ELSE f[x]]

ARequestClause(A, id) == IF id \in DOMAIN A.ops THEN "harness_duplicate_request" ELSE ""
ARequest(A, id, o) == [A EXCEPT !.queue = Append(A.queue, id), !.ops = Ext(A.ops, id, o)]

\* Start(op): nothing else is running (C13_Mutex) and op is the oldest request (C13_FIFO)
AStartClause(A, id) ==
  IF A.running # 0 THEN "C13_Mutex"
  ELSE IF A.queue = <<>> \/ Head(A.queue) # id THEN "C13_FIFO"
  ELSE ""
AStart(A, id) == [A EXCEPT !.running = id, !.queue = Tail(A.queue)]

\* an upload whose servermap predates a later publish is outside this property (C12): any outcome
Stale(A, o) == o.kind = "upload" /\ (o.smap \notin DOMAIN A.smapwr \/ A.smapwr[o.smap] # A.wr)

\* possible contents after op o finished with status st; `faulty`: faults were injected while it ran;
\* res: the contents a read returned
OkFrom(A, o) == {c \in A.poss : Apply(o, c).st = "ok"}
FinishPoss(A, o, st, faulty, res) ==
  IF st = "ok"
    THEN {Apply(o, c).c : c \in {c \in OkFrom(A, o) : IsRead(o) => res = c}}
    ELSE {c \in A.poss : Apply(o, c).st = "err"}
         \cup (IF faulty \/ Stale(A, o) THEN A.poss \cup {Apply(o, c).c : c \in OkFrom(A, o)} ELSE {})

AFinishClause(A, id, st, faulty, res) ==
  IF A.running # id THEN "C13_finish_of_op_not_running"
  ELSE IF FinishPoss(A, A.ops[id], st, faulty, res) # {} THEN ""
  ELSE IF st = "err" THEN "C13_failed_without_cause"
  ELSE IF IsRead(A.ops[id]) THEN "C13_NoLostEdit_read"
  ELSE "C13_succeeded_but_must_fail"

MayPublish(A, o, st, faulty) ==
  IF st = "ok" THEN \E c \in A.poss : Apply(o, c).pub ELSE (faulty \/ Stale(A, o))

AFinish(A, id, st, faulty, res) ==
  LET o == A.ops[id] IN
  [A EXCEPT !.running = 0,
            !.fin = Ext(A.fin, id, st),
            !.poss = FinishPoss(A, o, st, faulty, res),
            !.wr = IF MayPublish(A, o, st, faulty) THEN A.wr + 1 ELSE A.wr,
            \* a servermap built while server answers failed may be incomplete: an upload that uses it is not judged
            !.smapwr = IF o.kind = "smap" /\ st = "ok" /\ ~faulty THEN Ext(A.smapwr, id, A.wr) ELSE A.smapwr]

\* the caller gets the result of its own operation, once
AReturnClause(A, id, st) ==
  IF id \notin DOMAIN A.fin \/ id \in A.ret THEN "C13_result_before_finish"
  ELSE IF A.fin[id] # st THEN "C13_result_of_other_op"
  ELSE ""
AReturn(A, id) == [A EXCEPT !.ret = A.ret \cup {id}]

\* the system is quiescent (no message in flight, no timer): every requested operation has run
\* and its caller has the result -- a failed operation did not block the later ones
AQuiesceClause(A) ==
  IF A.running # 0 THEN "C13_NoBlock_op_never_finished"
  ELSE IF A.queue # <<>> THEN "C13_NoBlock_op_never_started"
  ELSE IF A.ret # DOMAIN A.ops THEN "C13_NoBlock_result_never_delivered"
  ELSE ""

\* the contents read back at the end are what the serial application of the requests gives
AFinalClause(A, c) == IF c \in A.poss THEN "" ELSE "C13_NoLostEdit"
=============================================================================
