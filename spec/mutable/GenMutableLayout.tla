--------------------------- MODULE GenMutableLayout ---------------------------
(* GEN mode for the extra `mutable_layout`: enumerates small shares - format x k x N x block size x number of
   segments x tail size x field lengths - together with the offset table, the share size and the block
   geometry MutableLayout.tla assigns to them, and checks the *design* of the two tables on every case
   (the invariants below; sources as in MutableLayout.tla).  The cases go to IOEnv.OUT_FILE; the harness
   builds every one of them with the real write proxies on a real storage server and reads it back through
   the real read proxy; TraceMutableLayout.tla judges what it sees.

     L_Increasing      the offsets of a table never decrease along the order of the fields
     L_ReaderInverts   the extent a reader derives from the table alone (entry of the field .. entry of the next
                       field) is the extent the writer used, for every field: same start, the length that was put
     L_SdmfTight       [rst] "This data is tightly packed": the fields tile [107, EOF) without gap or overlap
     L_MdmfRegions     [lay] key material tiles [123, verification_key_end), fits in front of the share data;
                       share data and block hash tree tile [share_data, EOF)
     L_BlocksTile      the blocks (MDMF: salt + block) of segments 0..n-1 tile the share data exactly
     L_BlocksHoldData  k blocks of a segment hold that segment: k * block >= segment bytes > k * (block - 1)
     L_HeaderTable     the offset entries lie back to back between the signed prefix and the end of the header *)
EXTENDS MutableLayout, Json, IOUtils, SequencesExt

CONSTANTS Ks, ExtraNs, BlockSizes, MaxSegs, LenSets

MdmfParams ==
  {[fmt |-> "mdmf", k |-> x[1], n |-> x[1] + x[2], segsize |-> x[1] * x[3], seqnum |-> 1,
    datalen |-> IF x[4] = 0 THEN 0 ELSE (x[4] - 1) * x[1] * x[3] + x[5]] :
      x \in {y \in Ks \X ExtraNs \X BlockSizes \X (0..MaxSegs) \X (1..(SetMax(Ks) * SetMax(BlockSizes))) :
               y[5] <= y[1] * y[3] /\ (y[4] = 0 => y[5] = 1)}}
\* an SDMF file is one segment: segsize = datalen rounded up to a multiple of k
SdmfParams ==
  {[fmt |-> "sdmf", k |-> x[1], n |-> x[1] + x[2], segsize |-> NextMultiple(x[3], x[1]), seqnum |-> 1, datalen |-> x[3]] :
      x \in {y \in Ks \X ExtraNs \X (0..(SetMax(Ks) * SetMax(BlockSizes) + 1)) : y[3] <= y[1] * SetMax(BlockSizes) + 1}}
Params == MdmfParams \cup SdmfParams

\* field lengths: small ones, the real sizes the MDMF rooms were cut for (RSA-2048), empty hash lists
LensSmall == {[vk |-> 5, sig |-> 4, nsh |-> 2, nbh |-> 3, epk |-> 7]}
LensQuick == LensSmall \cup {[vk |-> 292, sig |-> 260, nsh |-> 8, nbh |-> 1, epk |-> 1220]}
LensThorough == LensQuick \cup {[vk |-> 1, sig |-> 1, nsh |-> 0, nbh |-> 0, epk |-> 1], [vk |-> 294, sig |-> 256, nsh |-> 4, nbh |-> 7, epk |-> 1216]}

Case(P, Ln) ==
  [P |-> P, Ln |-> Ln, table |-> Table(P, Ln), size |-> Table(P, Ln).EOF,
   nsegs |-> NumSegs(P), block |-> BlockSize(P), tail |-> TailBlock(P)]
Cases == {Case(P, Ln) : P \in Params, Ln \in LenSets}

ASSUME ndJsonSerialize(IOEnv.OUT_FILE, SetToSeq(Cases))

VARIABLE c
Init == c \in Cases
Next == UNCHANGED c
Spec == Init /\ [][Next]_c

Ord == FieldOrder(c.P.fmt)
X(f) == RExtent(c.P.fmt, c.table, f)
L_Increasing == \A i \in 1..(Len(Ord) - 1) : X(Ord[i])[1] <= X(Ord[i + 1])[1] /\ X(Ord[i])[1] <= X(Ord[i])[2]
L_ReaderInverts == \A f \in Fields : X(f)[2] - X(f)[1] = FieldLen(c.P, c.Ln, f)
L_SdmfTight ==
  c.P.fmt = "sdmf" => /\ X(Ord[1])[1] = SdmfHeaderLen
                      /\ \A i \in 1..(Len(Ord) - 1) : X(Ord[i])[2] = X(Ord[i + 1])[1]
                      /\ X(Ord[Len(Ord)])[2] = c.table.EOF
L_MdmfRegions ==
  c.P.fmt = "mdmf" => /\ X(Ord[1])[1] = MdmfHeaderLen
                      /\ \A i \in 1..3 : X(Ord[i])[2] = X(Ord[i + 1])[1]
                      /\ X("verification_key")[2] = c.table.verification_key_end
                      /\ c.table.verification_key_end <= c.table.share_data
                      /\ c.table.share_data = MdmfShareData
                      /\ X("share_data")[2] = X("block_hash_tree")[1]
                      /\ X("block_hash_tree")[2] = c.table.EOF
BX(s) == BlockRExtent(c.P, c.table, s)
L_BlocksTile ==
  /\ c.nsegs = 0 => X("share_data")[1] = X("share_data")[2]
  /\ c.nsegs > 0 => /\ BX(0)[1] = X("share_data")[1]
                    /\ \A s \in 0..(c.nsegs - 2) : BX(s)[2] = BX(s + 1)[1]
                    /\ BX(c.nsegs - 1)[2] = X("share_data")[2]
SegLen(s) == IF s + 1 < c.nsegs THEN c.P.segsize ELSE c.P.datalen - (c.nsegs - 1) * c.P.segsize
L_BlocksHoldData ==
  \A s \in 0..(c.nsegs - 1) : /\ c.P.k * BlockLen(c.P, s) >= SegLen(s)
                              /\ c.P.k * (BlockLen(c.P, s) - 1) < SegLen(s)
L_HeaderTable ==
  LET es == HdrEntries(c.P.fmt) IN
  /\ es[1][2] = PrefixLen(c.P.fmt)
  /\ \A i \in 1..(Len(es) - 1) : es[i][2] + es[i][3] = es[i + 1][2]
  /\ es[Len(es)][2] + es[Len(es)][3] = HeaderLen(c.P.fmt)
  /\ {es[i][1] : i \in 1..Len(es)} = DOMAIN c.table
=============================================================================
