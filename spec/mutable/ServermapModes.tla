---------------------------- MODULE ServermapModes ----------------------------
(* The mutable-file servermap update (allmydata/mutable/servermap.py, class
   ServermapUpdater) in all five modes, and what the resulting ServerMap reports.
   Extends the vocabulary of MutableFile.tla (versions, stored shares with tamper
   classes, servermaps server -> shnum -> version, Recoverable / Best / UnrecNewer /
   NeedsMerge); MutableFile.tla itself only has the MODE_READ completion rule
   (ReadWantsMore).

   Sources of the stated behaviour
     common.py           MODE_CHECK "query all peers", MODE_ANYTHING "one recoverable version",
                         MODE_WRITE "replace all shares, probably", MODE_REPAIR "query all peers,
                         get the privkey"
     interfaces.py       IMutableFileNode.download_version: "MODE_ANYTHING or MODE_READ ... stop
                         querying servers as soon as they can fulfil their goals ... MODE_CHECK
                         (which checks everything)"
     servermap.py        ServermapUpdater.update ("Update the servermap to reflect current
                         conditions"; must_query: "servers who used to have a share, so we need to
                         know where they currently stand"; MODE_WRITE: "we will keep searching until
                         we've seen epsilon that don't have a share. We don't query all of the
                         servers because that could take a while"), _check_for_done (completion
                         policy per mode, boundary scan, "we need to know that we've gotten answers
                         from everybody to the left of here", "unless we're still waiting on the
                         privkey"), _got_corrupt_share, ServerMap docstrings (mark_bad_share:
                         "remember that it is bad so we don't add it back again later").

   A servermap update works on
     ord    the connected servers in the permuted order of the file (full_serverlist)
     P, B0  the servermap handed in: entries of an earlier update and the slots marked bad
   and the updater's view of a server after its answer was processed is one of
     "x"  the query failed, or the server served a share without a valid signature / key
          (_bad_servers: "by flagging this as a bad server ...")
     "0"  answered, holds no share of this file                           (_empty_servers)
     "1"  answered, at least one of its shares entered the map            (_servers_with_shares)
     "?"  no (complete) answer yet.
   All operators are over explicit values; MCServermapModes builds a model from them
   and TraceServermapModes judges recorded updates of the real code with them. *)
EXTENDS MutableFile

Modes == {"CHECK", "ANYTHING", "WRITE", "READ", "REPAIR"}
Epsilon == K                       \* ServermapUpdater.update: self.EPSILON = k
SurveyModes == {"CHECK", "REPAIR"}
PrivModes == {"WRITE", "REPAIR"}   \* modes that fetch the encrypted private key when the node lacks it

\* number of servers the initial batch of queries goes to (beyond the servers of the old map)
InitialCount(mode, n) ==
  IF mode \in SurveyModes THEN n
  ELSE IF mode = "WRITE" THEN Min(n, N + Epsilon)
  ELSE Min(n, K + Epsilon)

(* ---- ServerMap: reports as functions of the map ------------------------------ *)
KnownShares(M) == {p \in (DOMAIN M) \X Shnums : M[p[1]][p[2]] # 0}                 \* get_known_shares (keys)
AllServers(M) == {s \in DOMAIN M : \E sh \in Shnums : M[s][sh] # 0}                \* all_servers
SharesAvailable(M) == [v \in VersIn(M) |-> Cardinality(ShnumsOf(M, v))]            \* shares_available (count; k, N are constants)
SharemapShnums(M) == {sh \in Shnums : \E s \in DOMAIN M : M[s][sh] # 0}
Sharemap(M) == [sh \in SharemapShnums(M) |-> {s \in DOMAIN M : M[s][sh] # 0}]     \* make_sharemap
ServersOf(M, v) == {s \in DOMAIN M : \E sh \in Shnums : M[s][sh] = v}              \* all_servers_for_version
\* mark_bad_share: the entry leaves the map and the slot is remembered
MarkBadM(M, s, sh) == [M EXCEPT ![s][sh] = 0]
MarkBadB(B, s, sh) == B \cup {<<s, sh>>}

(* ---- one processed answer ---------------------------------------------------------
   row    = the entries of server s after its answer was processed (shnum -> version, 0 = none)
   newbad = the slots of s recorded as bad while processing
   for ground truth L[s], slots B already marked bad *)
Corrupt(V, sh) == Present(sh) /\ ~MayAccept(V, sh)          \* no valid signature under the pinned key
Soft(V, sh) == MayAccept(V, sh) /\ ~MustAccept(V, sh)
RowOK(V, Ls, Bs, row, newbad) ==
  \A sh \in Shnums :
    /\ (row[sh] # 0 => MayAccept(V, Ls[sh]) /\ row[sh] = Ls[sh].v /\ sh \notin Bs /\ sh \notin newbad)
    /\ (MustAccept(V, Ls[sh]) /\ sh \notin Bs => row[sh] = Ls[sh].v)
    /\ (Corrupt(V, Ls[sh]) => sh \in newbad \/ sh \in Bs)
    /\ (sh \in newbad => Corrupt(V, Ls[sh]) \/ Soft(V, Ls[sh]))
\* the (row, newbad) pairs the rules allow (model checking)
Answers(V, Ls, Bs) ==
  LET soft == {sh \in Shnums : Soft(V, Ls[sh]) /\ sh \notin Bs}
  IN {[row |-> [sh \in Shnums |-> IF sh \notin Bs /\ (MustAccept(V, Ls[sh]) \/ sh \in A) THEN Ls[sh].v ELSE 0],
       newbad |-> {sh \in Shnums : Corrupt(V, Ls[sh]) /\ sh \notin Bs} \cup (soft \ A)] : A \in SUBSET soft}
HoldsNothing(Ls) == \A sh \in Shnums : ~Present(Ls[sh])
\* the private key: fetched from any share whose encrypted-private-key field is genuine (whatever its signature)
PrivMust(V, Ls) == \E sh \in Shnums : Signed(V, Ls[sh]) /\ Ls[sh].cls \in {"intact", "bodybad", "chainbad", "softbad"}
PrivMay(V, Ls) == \E sh \in Shnums : Present(Ls[sh]) /\ Ls[sh].cls # "privbad"

\* the updater's view of a server (see the header); a share without valid signature counts whether or not
\* the slot had been marked bad before
ViewOf(V, kind, Ls, row, newbad) ==
  IF kind = "fail" THEN "x"
  ELSE IF newbad # {} \/ \E sh \in Shnums : Corrupt(V, Ls[sh]) THEN "x"
  ELSE IF HoldsNothing(Ls) THEN "0"
  ELSE IF \E sh \in Shnums : row[sh] # 0 THEN "1"
  ELSE "x"      \* holds nothing but shares marked bad earlier: as good as a server with a corrupt share

(* ---- completion policy ---------------------------------------------------------------
   view: server -> "x" | "0" | "1" | "?" for the servers of ord.  *)
Views(ord, view) == [i \in 1..Len(ord) |-> view[ord[i]]]
\* MODE_WRITE: the boundary is the position of the Epsilon-th server without shares after the last server with shares
BoundaryAt(cls, b) ==
  /\ cls[b] = "0"
  /\ \E f \in 1..(b - 1) :
       /\ cls[f] = "1"
       /\ \A j \in (f + 1)..b : cls[j] # "1"
       /\ Cardinality({j \in (f + 1)..b : cls[j] = "0"}) >= Epsilon
WriteGoal(cls, needpriv) ==
  /\ ~needpriv
  /\ \E b \in 1..Len(cls) : BoundaryAt(cls, b) /\ \A j \in 1..b : cls[j] # "?"
\* the goal of a mode: once it holds no further server needs to be asked (completed = answered or failed queries)
GoalMet(V, mode, cls, M, completed, needpriv) ==
  CASE mode = "ANYTHING" -> Recoverable(M) # {}
    [] mode = "READ"     -> ~ReadWantsMore(V, M, completed)
    [] mode = "WRITE"    -> Recoverable(M) # {} /\ WriteGoal(cls, needpriv)
    [] OTHER             -> FALSE          \* CHECK, REPAIR: only a complete survey will do
Surveyed(cls) == \A i \in 1..Len(cls) : cls[i] # "?"
\* what must hold when update() fires
PostOK(V, mode, cls, M, completed, needpriv) == Surveyed(cls) \/ GoalMet(V, mode, cls, M, completed, needpriv)

(* ---- ServermapUpdater._check_for_done as written: the scan over full_serverlist -------- *)
RECURSIVE Scan(_, _, _, _)
Scan(cls, i, found, nnf) ==
  IF i > Len(cls) THEN 0
  ELSE IF cls[i] = "0" /\ found THEN (IF nnf + 1 >= Epsilon THEN i ELSE Scan(cls, i + 1, found, nnf + 1))
  ELSE IF cls[i] = "1" THEN Scan(cls, i + 1, TRUE, 0)
  ELSE Scan(cls, i + 1, found, nnf)
Boundary(cls) == Scan(cls, 1, FALSE, 0)
NotResponded(cls, b) == Cardinality({j \in 1..b : cls[j] = "?"})
\* decision after an answer: [act |-> "wait" | "done" | "more", cap |-> queries to keep in flight]
Decide(V, mode, cls, M, completed, needpriv, must, outstanding, extraleft, maxinflight) ==
  LET more(c) == [act |-> "more", cap |-> c]
      b == Boundary(cls)
  IN IF must # {} THEN [act |-> "wait", cap |-> 0]
     ELSE IF outstanding = {} /\ extraleft = 0 THEN [act |-> "done", cap |-> 0]
     ELSE IF mode = "ANYTHING" THEN (IF Recoverable(M) # {} THEN [act |-> "done", cap |-> 0] ELSE more(maxinflight))
     ELSE IF mode \in SurveyModes THEN [act |-> "done", cap |-> 0]
     ELSE IF mode = "READ" THEN (IF ReadWantsMore(V, M, completed) THEN more(maxinflight) ELSE [act |-> "done", cap |-> 0])
     ELSE \* WRITE
          IF Recoverable(M) = {} THEN more(maxinflight)
          ELSE IF b = 0 THEN more(maxinflight)
          ELSE IF NotResponded(cls, b) = 0 THEN (IF needpriv THEN more(maxinflight) ELSE [act |-> "done", cap |-> 0])
          ELSE more(NotResponded(cls, b))
=============================================================================
