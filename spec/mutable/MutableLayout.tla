---------------------------- MODULE MutableLayout ----------------------------
(* The two share formats of mutable files and the call protocol of their proxies
   (allmydata/mutable/layout.py: pack_share / unpack_share, SDMFSlotWriteProxy,
   MDMFSlotWriteProxy, MDMFSlotReadProxy).

   Sources:  [rst]   docs/specifications/mutable.rst, "SDMF Slot Format" (field table, "tightly packed")
             [lay]   layout.py, header comment (struct strings PREFIX/SIGNED_PREFIX/HEADER) and the comment
                     block "Expected layout, MDMF" + "expected write flow" + "Checkstring management"
             [doc]   docstrings of the put_* / get_* methods, IMutableSlotWriter (interfaces.py),
                     BadShareError (mutable/common.py: "an error discovered in a particular share ... from
                     which we can recover by using some other share")

   Bytes are abstract: a byte string is a canonical run list <<b, n>> (n > 0, neighbours differ); the content
   of a share container is an *image*: runs with their offsets <<b, off, n>> tiling [0, size).  Everything that
   is decided here is decided on lengths, offsets and the small integers of the header; the harness fills every
   field with its own tag byte, so a run list tells which field (and how much of it) a value came from.

   Part 1  geometry: segments, blocks, the two offset tables, where the header keeps them
   Part 2  images: Slice / ByteAt / big-endian numbers, header decoding (what a reader may rely on)
   Part 3  the reader's contract: extents denoted by an offset table, expected results of the get_* calls,
           when a remote read is allowed
   Part 4  the writer's contract: which call is refused when (the order exists because each offset is derived
           from the lengths put before), checkstrings and test vectors *)
EXTENDS Common

SaltSize == 16
HashSize == 32
ShEntry  == 34                       \* >H32s : node number + hash        [rst] (9), [lay]
SdmfHeaderLen == 107                 \* [rst] row 7 starts at 107
MdmfHeaderLen == 123                 \* [lay] "123 var encrypted private key"
\* [lay] MDMF reserves room for the key material in front of the share data
MdmfPrivKeyRoom == 1220
MdmfSigRoom     == 260
MdmfVKeyRoom    == 292
MdmfChainRoom   == ShEntry * 8       \* (2+32) * log2(256)
MdmfShareData   == MdmfHeaderLen + MdmfPrivKeyRoom + MdmfSigRoom + MdmfVKeyRoom + MdmfChainRoom   \* 2167

Version(fmt) == IF fmt = "sdmf" THEN 0 ELSE 1
HeaderLen(fmt) == IF fmt = "sdmf" THEN SdmfHeaderLen ELSE MdmfHeaderLen
\* the signed prefix ("the thing that you sign"): everything in front of the offset table
PrefixLen(fmt) == IF fmt = "sdmf" THEN 75 ELSE 59
\* the checkstring: version, sequence number, root hash (and the IV for SDMF)     [lay] PREFIX / MDMFCHECKSTRING
CheckstringLen(fmt) == IF fmt = "sdmf" THEN 57 ELSE 41

(* ------------------------------ Part 1: geometry ------------------------------ *)
\* P == [fmt, k, n, segsize, datalen, seqnum]
NumSegs(P) == IF P.datalen = 0 \/ P.segsize = 0 THEN 0
              ELSE IF P.fmt = "sdmf" THEN 1 ELSE DivCeil(P.datalen, P.segsize)
BlockSize(P) == IF P.k = 0 THEN 0 ELSE P.segsize \div P.k
TailBlock(P) ==
  LET t == IF P.datalen > 0 /\ P.segsize > 0 THEN P.datalen % P.segsize ELSE 0
  IN IF t = 0 THEN BlockSize(P) ELSE DivCeil(t, P.k)
BlockLen(P, s) == IF s + 1 = NumSegs(P) THEN TailBlock(P) ELSE BlockSize(P)
\* SDMF keeps the single IV in the header, MDMF stores one salt in front of every block   [lay]
ShareDataLen(P) ==
  IF NumSegs(P) = 0 THEN 0
  ELSE IF P.fmt = "sdmf" THEN BlockSize(P)
  ELSE (NumSegs(P) - 1) * (BlockSize(P) + SaltSize) + TailBlock(P) + SaltSize

\* Ln == [vk, sig, nsh, nbh, epk]: lengths of key, signature, encrypted private key; numbers of chain entries / block hashes
SdmfTable(P, Ln) ==
  LET o1 == SdmfHeaderLen + Ln.vk
      o2 == o1 + Ln.sig
      o3 == o2 + ShEntry * Ln.nsh
      o4 == o3 + HashSize * Ln.nbh
      o5 == o4 + ShareDataLen(P)
  IN [signature |-> o1, share_hash_chain |-> o2, block_hash_tree |-> o3, share_data |-> o4,
      enc_privkey |-> o5, EOF |-> o5 + Ln.epk]
MdmfTable(P, Ln) ==
  LET o1 == MdmfHeaderLen + Ln.epk
      o2 == o1 + ShEntry * Ln.nsh
      o3 == o2 + Ln.sig
      o5 == MdmfShareData + ShareDataLen(P)
  IN [enc_privkey |-> MdmfHeaderLen, share_hash_chain |-> o1, signature |-> o2, verification_key |-> o3,
      verification_key_end |-> o3 + Ln.vk, share_data |-> MdmfShareData, block_hash_tree |-> o5,
      EOF |-> o5 + HashSize * Ln.nbh]
Table(P, Ln) == IF P.fmt = "sdmf" THEN SdmfTable(P, Ln) ELSE MdmfTable(P, Ln)

Fields == {"verification_key", "signature", "share_hash_chain", "block_hash_tree", "share_data", "enc_privkey"}
FieldLen(P, Ln, f) ==
  CASE f = "verification_key" -> Ln.vk
    [] f = "signature"        -> Ln.sig
    [] f = "share_hash_chain" -> ShEntry * Ln.nsh
    [] f = "block_hash_tree"  -> HashSize * Ln.nbh
    [] f = "share_data"       -> ShareDataLen(P)
    [] f = "enc_privkey"      -> Ln.epk
\* the order in which the fields lie in a share                                   [rst] rows 7-12 / [lay] MDMF table
FieldOrder(fmt) ==
  IF fmt = "sdmf" THEN <<"verification_key", "signature", "share_hash_chain", "block_hash_tree", "share_data", "enc_privkey">>
  ELSE <<"enc_privkey", "share_hash_chain", "signature", "verification_key", "share_data", "block_hash_tree">>

\* where the header keeps its numbers: <<name, position, width>>                  [rst] rows 1-6 / [lay] MDMF table
HdrEntries(fmt) ==
  IF fmt = "sdmf"
  THEN <<<<"signature", 75, 4>>, <<"share_hash_chain", 79, 4>>, <<"block_hash_tree", 83, 4>>, <<"share_data", 87, 4>>,
         <<"enc_privkey", 91, 8>>, <<"EOF", 99, 8>>>>
  ELSE <<<<"enc_privkey", 59, 8>>, <<"share_hash_chain", 67, 8>>, <<"signature", 75, 8>>, <<"verification_key", 83, 8>>,
         <<"verification_key_end", 91, 8>>, <<"share_data", 99, 8>>, <<"block_hash_tree", 107, 8>>, <<"EOF", 115, 8>>>>
EntryNames(fmt) == {e[1] : e \in ToSet(HdrEntries(fmt))}
ParamPos(fmt) == IF fmt = "sdmf" THEN [k |-> 57, n |-> 58, segsize |-> 59, datalen |-> 67]
                 ELSE [k |-> 41, n |-> 42, segsize |-> 43, datalen |-> 51]

(* ------------------------------ Part 2: images -------------------------------- *)
\* an image: [exists, runs] with runs = sequence of <<byte, offset, count>>
NoShare == [exists |-> FALSE, runs |-> <<>>]
ImgSize(I) == IF Len(I.runs) = 0 THEN 0 ELSE I.runs[Len(I.runs)][2] + I.runs[Len(I.runs)][3]
\* the bytes of [a, b) that exist, as a canonical run list
Slice(I, a, b) ==
  LET sel == SelectSeq(I.runs, LAMBDA r : r[2] < b /\ r[2] + r[3] > a)
  IN [i \in 1..Len(sel) |-> <<sel[i][1], Min(b, sel[i][2] + sel[i][3]) - Max(a, sel[i][2])>>]
RECURSIVE RunsLen(_)
RunsLen(rs) == IF Len(rs) = 0 THEN 0 ELSE rs[1][2] + RunsLen(Tail(rs))
ByteAt(I, i) == LET j == CHOOSE j \in 1..Len(I.runs) : I.runs[j][2] <= i /\ i < I.runs[j][2] + I.runs[j][3] IN I.runs[j][1]
TooBig == 0 - 1          \* a header number that does not fit TLC's integers (never produced by the harness on purpose)
RECURSIVE BEFrom(_, _, _, _)
BEFrom(I, off, n, acc) ==
  IF n = 0 THEN acc
  ELSE IF acc >= 8388608 THEN TooBig
  ELSE BEFrom(I, off + 1, n - 1, acc * 256 + ByteAt(I, off))
BE(I, off, n) == BEFrom(I, off, n, 0)
Truncate(I, t) == [exists |-> I.exists,
                   runs |-> LET sel == SelectSeq(I.runs, LAMBDA r : r[2] < t)
                            IN [i \in 1..Len(sel) |-> <<sel[i][1], sel[i][2], Min(t, sel[i][2] + sel[i][3]) - sel[i][2]>>]]

\* canonical form of a run list: no empty runs, neighbours differ
RECURSIVE Canon(_)
Canon(rs) ==
  IF Len(rs) = 0 THEN <<>>
  ELSE IF rs[1][2] = 0 THEN Canon(Tail(rs))
  ELSE LET rest == Canon(Tail(rs))
       IN IF Len(rest) > 0 /\ rest[1][1] = rs[1][1] THEN <<<<rs[1][1], rs[1][2] + rest[1][2]>>>> \o Tail(rest)
          ELSE <<rs[1]>> \o rest
Blob(tag, len) == Canon(<<<<tag, len>>>>)
RECURSIVE Flatten(_)
Flatten(ss) == IF Len(ss) = 0 THEN <<>> ELSE ss[1] \o Flatten(Tail(ss))
\* a number below 2^16 as w big-endian bytes
NumRuns(v, w) == Canon(<<<<0, w - 2>>, <<v \div 256, 1>>, <<v % 256, 1>>>>)

\* What a reader can know from the first bytes of a share.  status: "absent", "short", "version", "ok"
DecodeHeader(I) ==
  IF ~I.exists \/ ImgSize(I) = 0 THEN [status |-> "absent"]
  ELSE LET v == ByteAt(I, 0) IN
       IF v \notin {0, 1} THEN [status |-> "version"]
       ELSE LET fmt == IF v = 0 THEN "sdmf" ELSE "mdmf" IN
            IF ImgSize(I) < HeaderLen(fmt) THEN [status |-> "short"]
            ELSE LET pp == ParamPos(fmt)
                     es == HdrEntries(fmt)
                 IN [status |-> "ok", fmt |-> fmt, seqnum |-> BE(I, 1, 8), root |-> Slice(I, 9, 41),
                     salt |-> IF fmt = "sdmf" THEN Slice(I, 41, 57) ELSE <<>>,
                     k |-> ByteAt(I, pp.k), n |-> ByteAt(I, pp.n), segsize |-> BE(I, pp.segsize, 8),
                     datalen |-> BE(I, pp.datalen, 8),
                     offs |-> [nm \in EntryNames(fmt) |->
                                 LET e == CHOOSE e \in ToSet(es) : e[1] = nm IN BE(I, e[2], e[3])]]
HdrParams(H) == [fmt |-> H.fmt, k |-> H.k, n |-> H.n, segsize |-> H.segsize, datalen |-> H.datalen, seqnum |-> H.seqnum]

(* --------------------------- Part 3: the reader's contract --------------------- *)
\* the extent <<from, to>> an offset table denotes for a field: from its own entry to the entry of the field
\* that follows it in the share                                                    [rst] / [lay]
RExtent(fmt, o, f) ==
  IF fmt = "sdmf" THEN
    CASE f = "verification_key" -> <<SdmfHeaderLen, o.signature>>
      [] f = "signature"        -> <<o.signature, o.share_hash_chain>>
      [] f = "share_hash_chain" -> <<o.share_hash_chain, o.block_hash_tree>>
      [] f = "block_hash_tree"  -> <<o.block_hash_tree, o.share_data>>
      [] f = "share_data"       -> <<o.share_data, o.enc_privkey>>
      [] f = "enc_privkey"      -> <<o.enc_privkey, o.EOF>>
  ELSE
    CASE f = "enc_privkey"      -> <<o.enc_privkey, o.share_hash_chain>>
      [] f = "share_hash_chain" -> <<o.share_hash_chain, o.signature>>
      [] f = "signature"        -> <<o.signature, o.verification_key>>
      [] f = "verification_key" -> <<o.verification_key, o.verification_key_end>>
      [] f = "share_data"       -> <<o.share_data, o.block_hash_tree>>
      [] f = "block_hash_tree"  -> <<o.block_hash_tree, o.EOF>>
\* block (and, MDMF, its salt in front) of segment s
BlockRExtent(P, o, s) ==
  IF P.fmt = "sdmf" THEN <<o.share_data + BlockSize(P) * s, o.share_data + BlockSize(P) * s + BlockLen(P, s)>>
  ELSE <<o.share_data + (BlockSize(P) + SaltSize) * s, o.share_data + (BlockSize(P) + SaltSize) * s + SaltSize + BlockLen(P, s)>>

GetField(get) ==
  CASE get = "encprivkey" -> "enc_privkey" [] get = "signature" -> "signature"
    [] get = "verification_key" -> "verification_key" [] get = "blockhashes" -> "block_hash_tree"
    [] get = "sharehashes" -> "share_hash_chain" [] OTHER -> "none"
HeaderGets == {"seqnum", "root_hash", "encoding_parameters", "checkstring", "verinfo", "is_sdmf", "prefix"}

\* the extent a get_* call needs beyond the header (<<0, 0>> for the calls answered from the header)
NeedExtent(H, get, seg) ==
  IF get \in HeaderGets THEN <<0, 0>>
  ELSE IF get = "block" THEN BlockRExtent(HdrParams(H), H.offs, seg)
  ELSE RExtent(H.fmt, H.offs, GetField(get))

\* chop [a, b) of an image into pieces of w bytes (the last one possibly short)
Pieces(I, a, b, w) ==
  LET e == Min(b, ImgSize(I))
      cnt == IF e <= a THEN 0 ELSE DivCeil(e - a, w)
  IN [i \in 1..cnt |-> Slice(I, a + (i - 1) * w, Min(e, a + i * w))]

\* the result record a get_* call must produce on view I with decoded header H (status ok);
\* [st |-> "ok", val |-> ...], or [st |-> "bad"] where only BadShareError is right, or
\* [st |-> "ok|bad", val] where the bytes are partly missing and either answer is sound
Expect(I, H, get, seg, empty_needed) ==
  LET P == HdrParams(H)
      x == NeedExtent(H, get, seg)
      present == Min(x[2], ImgSize(I)) - x[1]
      whole == x[2] <= ImgSize(I)
      softst == IF whole THEN "ok" ELSE "ok|bad"
  IN
  IF get = "seqnum" THEN [st |-> "ok", val |-> H.seqnum]
  ELSE IF get = "root_hash" THEN [st |-> "ok", val |-> H.root]
  ELSE IF get = "is_sdmf" THEN [st |-> "ok", val |-> (H.fmt = "sdmf")]
  ELSE IF get = "encoding_parameters" THEN [st |-> "ok", val |-> <<H.k, H.n, H.segsize, H.datalen>>]
  ELSE IF get = "checkstring" THEN [st |-> "ok", val |-> Slice(I, 0, CheckstringLen(H.fmt))]
  ELSE IF get = "prefix" THEN [st |-> "ok", val |-> Slice(I, 0, PrefixLen(H.fmt))]
  ELSE IF get = "verinfo" THEN
       [st |-> "ok", val |-> [seqnum |-> H.seqnum, root |-> H.root, salt |-> H.salt, segsize |-> H.segsize, datalen |-> H.datalen,
                              k |-> H.k, n |-> H.n, prefix |-> Slice(I, 0, PrefixLen(H.fmt)), offs |-> H.offs]]
  ELSE IF get \in {"blockhashes", "sharehashes"} /\ empty_needed THEN [st |-> "ok", val |-> <<>>]
  ELSE IF get = "block" /\ seg >= NumSegs(P) THEN [st |-> "bad"]           \* LayoutInvalid("Not a valid segment number")
  ELSE IF x[2] < x[1] THEN [st |-> "bad|empty"]                            \* a table that runs backwards denotes nothing
  ELSE IF get = "block" THEN
       [st |-> softst,
        val |-> IF P.fmt = "sdmf" THEN <<Slice(I, x[1], x[2]), H.salt>>
                ELSE <<Slice(I, x[1] + SaltSize, x[2]), Slice(I, x[1], Min(x[2], x[1] + SaltSize))>>]
  ELSE IF get = "blockhashes" THEN [st |-> softst, val |-> Pieces(I, x[1], x[2], HashSize)]
  ELSE IF get = "sharehashes" THEN
       IF present > 0 /\ present % ShEntry # 0 THEN [st |-> "bad"]        \* [lay] _handle_bad_struct: not enough data = bad share
       ELSE [st |-> softst,
             val |-> LET ps == Pieces(I, x[1], x[2], ShEntry)
                     IN [i \in 1..Len(ps) |-> <<BE(I, x[1] + (i - 1) * ShEntry, 2),
                                                Slice(I, x[1] + (i - 1) * ShEntry + 2, x[1] + i * ShEntry)>>]]
  ELSE [st |-> softst, val |-> Slice(I, x[1], x[2])]

\* a remote read is pointless when the prefetched bytes [0, pre) hold the header and the extent
Covered(pre, hdrKnown, x) == (hdrKnown \/ pre >= MdmfHeaderLen) /\ x[2] <= pre

(* --------------------------- Part 4: the writer's contract ---------------------- *)
\* W == [fmt, P, shnum, put, lens, root, cs, written]
\*   put     the set of things put so far (field names, "root_hash", "salt")
\*   lens    lengths the offsets were derived from: [vk, sig, nsh, nbh, epk]
\*   cs      what the writer has been told is on the server: [kind |-> "unset"] (a new share) or
\*           [kind |-> "lit", bytes |-> run list]
NoLens == [vk |-> 0, sig |-> 0, nsh |-> 0, nbh |-> 0, epk |-> 0]
NewWriter(P, shnum) == [fmt |-> P.fmt, P |-> P, shnum |-> shnum, put |-> {}, lens |-> NoLens,
                        cs |-> [kind |-> "unset", bytes |-> <<>>], written |-> FALSE]

\* "accept" / "refuse" (LayoutInvalid, nothing queued, nothing sent) / "either".
\* MDMF [lay] "expected write flow": every offset is the previous offset plus the length just put, so a field
\* cannot be put before the one in front of it, and not again once the next one has been placed behind it.
\* "either": orders the docstrings forbid although no offset depends on them (block hash tree before the share
\* hash chain, root hash after the chain) - the proxies accept them and the share comes out right.
MdmfRule(W, c) ==
  CASE c.what = "block" ->
         IF c.seg < NumSegs(W.P) /\ c.seg >= 0 /\ c.slen = SaltSize /\ c.dlen = BlockLen(W.P, c.seg) THEN "accept" ELSE "refuse"
    [] c.what = "encprivkey" -> IF "share_hash_chain" \in W.put THEN "refuse" ELSE "accept"
    [] c.what = "blockhashes" -> "accept"
    [] c.what = "sharehashes" ->
         IF "enc_privkey" \notin W.put \/ "signature" \in W.put THEN "refuse"
         ELSE IF "block_hash_tree" \notin W.put THEN "either" ELSE "accept"
    [] c.what = "root_hash" -> IF c.len # HashSize THEN "refuse"
                               ELSE IF "share_hash_chain" \notin W.put THEN "either" ELSE "accept"
    [] c.what = "signature" ->
         IF "share_hash_chain" \notin W.put \/ "root_hash" \notin W.put \/ "verification_key" \in W.put THEN "refuse" ELSE "accept"
    [] c.what = "verification_key" -> IF "signature" \notin W.put THEN "refuse" ELSE "accept"
    [] c.what = "finish" ->
         IF {"enc_privkey", "block_hash_tree", "share_hash_chain", "root_hash", "signature", "verification_key"} \subseteq W.put
         THEN "accept" ELSE "refuse"
    [] OTHER -> "either"
\* SDMF: the share is assembled in memory and sent in one piece, so any order will do; sizes are fixed by the
\* encoding parameters and nothing can be sent before every piece is there          [doc] SDMFSlotWriteProxy
SdmfRule(W, c) ==
  CASE c.what = "block" ->
         IF c.seg = 0 /\ c.slen = SaltSize /\ c.dlen = BlockSize(W.P) THEN "accept" ELSE "refuse"
    [] c.what = "salt" -> IF c.slen = SaltSize THEN "accept" ELSE "refuse"
    [] c.what = "root_hash" -> IF c.len = HashSize THEN "accept" ELSE "refuse"
    [] c.what = "finish" ->
         IF {"enc_privkey", "block_hash_tree", "share_hash_chain", "root_hash", "signature", "verification_key",
             "share_data", "salt"} \subseteq W.put
         THEN "accept" ELSE "refuse"
    [] OTHER -> "accept"
Rule(W, c) == IF W.fmt = "sdmf" THEN SdmfRule(W, c) ELSE MdmfRule(W, c)

PutName(what) ==
  CASE what = "encprivkey" -> "enc_privkey" [] what = "blockhashes" -> "block_hash_tree"
    [] what = "sharehashes" -> "share_hash_chain" [] what = "block" -> "share_data"
    [] OTHER -> what
\* the writer after an accepted put (c.len / c.cnt: length / number of hashes)
Put(W, c) ==
  LET W1 == [W EXCEPT !.put = @ \cup (IF c.what \in {"block", "salt"} THEN {"share_data", "salt"} ELSE {PutName(c.what)})]
  IN CASE c.what = "encprivkey"       -> [W1 EXCEPT !.lens.epk = c.len]
       [] c.what = "signature"        -> [W1 EXCEPT !.lens.sig = c.len]
       [] c.what = "verification_key" -> [W1 EXCEPT !.lens.vk = c.len]
       [] c.what = "blockhashes"      -> [W1 EXCEPT !.lens.nbh = c.cnt]
       [] c.what = "sharehashes"      -> [W1 EXCEPT !.lens.nsh = c.cnt]
       [] OTHER -> W1

\* checkstrings.  [lay] "Checkstring management": by default a writer assumes that it creates the share and must
\* send a test that only an absent share passes; set_checkstring tells it what to expect instead; the empty
\* checkstring means "no share there".  Once an MDMF writer's first write went through it expects its own
\* checkstring ("keep track of what it should be after updates ourselves").
CheckstringOf(fmt, seqnum, rootRuns, saltRuns) ==
  Canon(<<<<Version(fmt), 1>>>> \o NumRuns(seqnum, 8) \o rootRuns \o (IF fmt = "sdmf" THEN saltRuns ELSE <<>>))
SetCheckstring(W, bytes) ==
  [W EXCEPT !.cs = IF Len(bytes) = 0 THEN [kind |-> "unset", bytes |-> <<>>] ELSE [kind |-> "lit", bytes |-> bytes]]
\* what the server must find for the write to be applied
Matches(W, I) == IF W.cs.kind = "unset" THEN ~I.exists \/ ImgSize(I) = 0
                 ELSE I.exists /\ Slice(I, 0, RunsLen(W.cs.bytes)) = W.cs.bytes
\* a test vector <<off, len, specimen runs>> evaluated by a storage server (absent share = empty share)
TestvPasses(tv, I) == \A i \in 1..Len(tv) : Slice(I, tv[i][1], tv[i][1] + tv[i][2]) = tv[i][3]
\* the vectors the writer must send: exactly the expectation it holds.  For "no share there" every vector that
\* only the empty share passes will do: empty specimens only, one of them asking for at least the first byte.
TestvOK(W, tv) ==
  IF W.cs.kind = "unset"
  THEN /\ \A i \in 1..Len(tv) : Len(tv[i][3]) = 0
       /\ \E i \in 1..Len(tv) : tv[i][1] = 0 /\ tv[i][2] >= 1
  ELSE ToSet(tv) = {<<0, RunsLen(W.cs.bytes), W.cs.bytes>>}
=============================================================================
