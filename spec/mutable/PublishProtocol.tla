--------------------------- MODULE PublishProtocol ---------------------------
(* The mutable-file publish protocol between writers and storage servers
   (allmydata/mutable/publish.py Publish, mutable/layout.py *SlotWriteProxy,
   mutable/servermap.py ServermapUpdater, storage/server.py
   slot_testv_and_readv_and_writev), as operators over explicit values.

   Abstraction.  A share is a one-element byte array <<v>> holding the id of the
   version whose checkstring (seqnum, root hash[, IV]) the real share starts
   with; 0 = no share.  With this encoding the server side IS the read-test-write
   of spec/storage/Storage.tla: the publisher's test vector "the share still
   starts with the checkstring I surveyed" is [off 0, len 1, spec <<v>>], "the
   share must not exist" is [off 0, len 1, spec <<>>] (layout.py: (0, 1, b"")),
   and the write vector replaces the version id.

   A writer w is a record
     phase      "idle" | "survey" | "write" | "done"
     seen[s]    what the map update learned from server s: st = "todo" (not asked
                / no usable answer) | "seen" with v[sh] = version id (0: none)
     goal       the (server, shnum) pairs the publisher decided to write
     pend       requests parked, not yet delivered
     live       self.writers: proxies not dropped by _connection_problem
     acked      pairs whose request was answered "wrote"
     cands      the values Publish._checkstring may have: the new version (MDMF); the test checkstring of
                "some writer" (SDMF, where get_checkstring() returns the test vector: 0 stands for b"")
     sfor       the candidates under which Publish.surprised has been set
     newv       id of the version being published
     res        "none" | "ok" | "UCWE" | "NotEnough" | "Unrecoverable"
   MCPublishProtocol explores every interleaving of these operators;
   TracePublishProtocol checks recorded executions of the real code against them. *)
EXTENDS Storage

SI == "m"            \* the slot
WE == "we"           \* all writers hold the same write-cap, hence the same write enabler

(* ------------------------------ servers --------------------------------- *)
MShare(v) == IF v = 0 THEN AbsentM ELSE [present |-> TRUE, data |-> <<v>>, we |-> WE, leases |-> {}]
\* f : shnum -> version id
ServerWith(f) == [imm |-> <<>>, mut |-> [x \in {SI} |-> [sh \in DOMAIN f |-> MShare(f[sh])]],
                  clock |-> 0, capacity |-> 0, reserved |-> 0, readonly |-> FALSE]
ShnOf(S) == DOMAIN S.mut[SI]
Ver(S, sh) == IF S.mut[SI][sh].present THEN S.mut[SI][sh].data[1] ELSE 0
VerMap(S) == [sh \in ShnOf(S) |-> Ver(S, sh)]

\* t = [kind, v]: "eq" the share starts with checkstring v; "absent" the share does not exist; "none" no test
TV(t) == IF t.kind = "eq" THEN <<[off |-> 0, len |-> 1, spec |-> <<t.v>>]>>
         ELSE IF t.kind = "absent" THEN <<[off |-> 0, len |-> 1, spec |-> <<>>]>>
         ELSE <<>>
TWOne(sh, t, newv) == [x \in {sh} |-> [test |-> TV(t), writes |-> <<[off |-> 0, data |-> <<newv>>]>>, newlen |-> -1]]
\* one request of a write proxy: a single share, its test vector, the new share
ServerRTWStatus(S, sh, t, newv) == RTWStatus(S, SI, WE, TWOne(sh, t, newv))
ServerRTW(S, sh, t, newv) == RTW(S, SI, WE, "r", "c", TWOne(sh, t, newv), FALSE)
\* the read vector returned with the answer: checkstring of every share of the slot, before the write
PreReads(S) == LET r == RTWReads(S, SI, <<[off |-> 0, len |-> 1]>>) IN [sh \in DOMAIN r |-> r[sh][1][1]]

GridVersions(srv) == UNION {{Ver(srv[s], sh) : sh \in ShnOf(srv[s])} : s \in DOMAIN srv} \ {0}
ShnumsOf(srv, v) == UNION {{sh \in ShnOf(srv[s]) : Ver(srv[s], sh) = v} : s \in DOMAIN srv}
\* ServerMap.recoverable_versions: k distinct share numbers of one version
Recoverable(srv, v, K) == Cardinality(ShnumsOf(srv, v)) >= K
RecoverableSet(srv, K) == {v \in GridVersions(srv) : Recoverable(srv, v, K)}

(* ------------------------------- writers -------------------------------- *)
W0(Servers, Shn) ==
  [phase |-> "idle", seen |-> [s \in Servers |-> [st |-> "todo", v |-> [sh \in Shn |-> 0]]],
   goal |-> {}, pend |-> {}, live |-> {}, acked |-> {}, cands |-> {}, sfor |-> {}, newv |-> 0, res |-> "none"]

\* ServermapUpdater._got_results: one slot_readv of all shares of a server, processed while the update runs
SurveyAnswer(ws, s, view) ==
  IF ws.phase = "survey" THEN [ws EXCEPT !.seen[s] = [st |-> "seen", v |-> view]] ELSE ws    \* late answers are ignored

\* ServerMap.get_known_shares()
Known(ws) == UNION {{<<s, sh>> : sh \in {x \in DOMAIN ws.seen[s].v : ws.seen[s].st = "seen" /\ ws.seen[s].v[x] # 0}} : s \in DOMAIN ws.seen}
SeenVer(ws, p) == ws.seen[p[1]].v[p[2]]
SeenRecoverable(ws, K) ==
  \E v \in {SeenVer(ws, p) : p \in Known(ws)} : Cardinality({p[2] : p \in {q \in Known(ws) : SeenVer(ws, q) = v}}) >= K
\* what the writer believes server s holds for share sh (nothing, if it did not ask or got no answer)
SeenOf(ws, s, sh) == IF ws.seen[s].st = "seen" THEN ws.seen[s].v[sh] ELSE 0

\* Publish.publish: the test vector of the proxy for (s, sh): the surveyed checkstring, else "must not exist"
TestFor(ws, s, sh) == IF <<s, sh>> \in Known(ws) THEN [kind |-> "eq", v |-> ws.seen[s].v[sh]] ELSE [kind |-> "absent", v |-> 0]

\* Publish.update_goal: every known share is rewritten in place; homeless share numbers (ascending) go round-robin
\* over the servers sorted by (number of known shares, position in the permuted list).
\* order: the permuted server list (a sequence); shorder: share numbers ascending (a sequence)
UpdateGoal(known, order, shorder) ==
  LET homefull == {p[2] : p \in known}
      homeless == SelectSeq(shorder, LAMBDA sh : sh \notin homefull)
      cnt(s) == Cardinality({p \in known : p[1] = s})
      idx(s) == CHOOSE i \in 1..Len(order) : order[i] = s
      sorted == SortSeq(order, LAMBDA a, b : cnt(a) < cnt(b) \/ (cnt(a) = cnt(b) /\ idx(a) < idx(b)))
      L == Len(sorted)
  IN known \cup {<<sorted[((i - 1) % L) + 1], homeless[i]>> : i \in 1..Len(homeless)}

\* Publish._checkstring = _get_some_writer().get_checkstring(): MDMFSlotWriteProxy answers with the checkstring it is
\* writing, SDMFSlotWriteProxy with the one it tests for; which writer is "some" depends on set iteration order
CsCandidates(ws, goal, newv, fmt) == IF fmt = "MDMF" THEN {newv} ELSE {TestFor(ws, p[1], p[2]).v : p \in goal}
PublishStart(ws, goal, newv, fmt) ==
  [ws EXCEPT !.phase = "write", !.goal = goal, !.pend = goal, !.live = goal, !.newv = newv,
             !.cands = CsCandidates(ws, goal, newv, fmt)]
Delivered(ws, s, sh) == [ws EXCEPT !.pend = @ \ {<<s, sh>>}]

\* Publish._got_write_answer.  reads: shnum -> version id of every share the server held before the write.
\* A share is a surprise if it is not the one written, not one this publisher is (still) writing to that
\* server, and its checkstring differs from Publish._checkstring (cs); a failed test is always a surprise.
SurpriseUnder(ws, s, sh, wrote, reads, cs) ==
  LET knownHere == {p[2] : p \in {q \in ws.live : q[1] = s}}
  IN ~wrote \/ \E x \in DOMAIN reads : x # sh /\ x \notin knownHere /\ reads[x] # cs
GotAnswer(ws, s, sh, wrote, reads) ==
  [ws EXCEPT !.sfor = @ \cup {cs \in ws.cands : SurpriseUnder(ws, s, sh, wrote, reads, cs)},
             !.acked = IF wrote THEN @ \cup {<<s, sh>>} ELSE @]
\* Publish._connection_problem: the proxy is dropped
ConnProblem(ws, s, sh) == [ws EXCEPT !.live = @ \ {<<s, sh>>}]

LiveShnums(ws) == {p[2] : p \in ws.live}
AckedShnums(ws) == {p[2] : p \in ws.acked}
\* Publish._push in DONE_STATE -> _done | _failure
Expected(ws, K, cs) == IF cs \in ws.sfor THEN "UCWE" ELSE IF Cardinality(LiveShnums(ws)) < K THEN "NotEnough" ELSE "ok"
Finished(ws, res) == [ws EXCEPT !.phase = "done", !.res = res]

(* --------------- the properties' vocabulary (independent of the operators above) --------------- *)
\* C12: evidence of somebody else's write in one answered request: the test failed, or the server held a share
\* outside this publisher's goal whose version is neither the one being published nor one the publisher saw
\* in its survey
SeenVersions(ws) == {SeenVer(ws, p) : p \in Known(ws)}
MetOther(ws, s, wrote, reads) ==
  ~wrote \/ \E x \in DOMAIN reads : <<s, x>> \notin ws.goal /\ reads[x] \notin ({ws.newv} \cup SeenVersions(ws))
=============================================================================
